//! C17 — binning soundness (reg2bin ∈ reg2bins for every intersecting pair), chunk-list
//! optimisation preserves coverage, and index files (BAI, CSI, tabix, gzi, fai, crai) round-trip.
//!
//! Sub-checks
//! * `containment`   exhaustive over the nine geometries min_shift 1..3 × depth 1..3 (quick: the six
//!                   with ≤ 512 positions) through the `noodles_csi::verif` hook, using the exact
//!                   `M_b[e]` reformulation of DESIGN §3 C17; `reg2bin` is compared with the
//!                   independent transcription of the specification on every interval.
//! * `pairs_public`  sampled intersecting (feature, region) pairs at (14,5), (14,6), (12,5), (10,4),
//!                   (16,4) through the public path: one-record `Indexer` + `BinningIndex::query`.
//! * `chunks`        `optimize_chunks` / `merge_chunks` coverage equality, order and disjointness.
//! * `rt_binning`    BAI / CSI / tabix write→read (arbitrary structurally valid indexes and indexes
//!                   produced by the indexers) incl. an independent byte-level walk of what was written.
//! * `rt_flat`       gzi / fai / crai write→read.

use crate::engine::shard::Recorder;
use crate::engine::*;
use crate::oracle::{bgzf_walk, binning};
use crate::{ensure, ensure_eq};
use bit_vec::BitVec;
use noodles_bgzf as bgzf;
use noodles_core::Position;
use noodles_csi::{
    self as csi, BinningIndex,
    binning_index::{
        Indexer, ReferenceSequence as _,
        index::{
            Header as TbxHeader, ReferenceSequence,
            header::{Format, format::CoordinateSystem},
            reference_sequence::{
                Bin, Metadata,
                bin::Chunk,
                index::{BinnedIndex, LinearIndex},
            },
        },
        merge_chunks, optimize_chunks,
    },
};
use proptest::prelude::*;
use serde::{Deserialize, Serialize};
use std::collections::BTreeMap;

fn pos(n: u64) -> Position {
    // callers guarantee n ≥ 1
    Position::new(n as usize).unwrap_or(Position::MIN)
}

fn vp(n: u64) -> bgzf::VirtualPosition {
    bgzf::VirtualPosition::from(n)
}

fn err1(sig: &str, msg: String) -> Vec<Fail> {
    vec![Fail::new(sig, msg)]
}

// ------------------------------------------------------------------------------------------------
// (a) exhaustive containment
// ------------------------------------------------------------------------------------------------

const SMALL_GEOMETRIES: [(u8, u8); 9] = [(1, 1), (2, 1), (3, 1), (1, 2), (2, 2), (3, 2), (1, 3), (2, 3), (3, 3)];

#[derive(Clone, Debug, Serialize, Deserialize)]
pub struct PairCase {
    pub min_shift: u8,
    pub depth: u8,
    /// one-based closed feature interval
    pub feature: (u64, u64),
    /// one-based closed region interval
    pub region: (u64, u64),
}

fn hook_bins(s: u64, e: u64, ms: u8, d: u8, bv: &mut BitVec) {
    bv.fill(false);
    csi::verif::reg2bins(pos(s), pos(e), ms, d, bv);
}

/// The single-pair form of the property (also the replay entry of the enumeration).
fn check_pair(c: &PairCase) -> Verdict {
    let (ms, d) = (c.min_shift, c.depth);
    let (fs, fe) = c.feature;
    let (rs, re) = c.region;
    ensure!(fs >= 1 && fs <= fe && rs >= 1 && rs <= re, "c17.bad-case", "malformed replay case {c:?}");
    let b = csi::verif::reg2bin(pos(fs), pos(fe), ms, d) as u64;
    let want = binning::reg2bin_1based(fs, fe, ms as u32, d as u32);
    let def = binning::reg2bin_def(fs - 1, fe, ms as u32, d as u32);
    ensure!(want == def, "c17.oracle-disagrees", "oracle formulations disagree on [{fs},{fe}] ({ms},{d}): spec {want} definition {def}");
    ensure!(b == want, "c17.reg2bin.differs-from-spec", "reg2bin([{fs},{fe}], min_shift={ms}, depth={d}) = {b}, specification gives {want}");
    let mut bv = BitVec::from_elem(Bin::max_id(d), false);
    hook_bins(rs, re, ms, d, &mut bv);
    let intersects = fs <= re && rs <= fe;
    if intersects {
        ensure!(
            bv.get(b as usize) == Some(true),
            "c17.containment",
            "feature [{fs},{fe}] is in bin {b}; region [{rs},{re}] intersects it but reg2bins (min_shift={ms}, depth={d}) does not list bin {b}"
        );
    }
    Ok(Pass::new(intersects, key_of(c)))
}

fn replay_pair(v: &serde_json::Value) -> Verdict {
    let c: PairCase = serde_json::from_value(v.clone()).map_err(|e| err1("c17.bad-case", format!("cannot decode: {e}")))?;
    check_pair(&c)
}

struct GeomTables {
    p: u64,
    nb: usize,
    /// bin_of[(s-1)*p + (e-1)] for s ≤ e — stored compactly per start: offsets
    /// m[e * nb + b] = max end of a feature of bin b that starts at or before e (0 = none)
    m: Vec<u16>,
}

/// Build the `M_b[e]` table from noodles' own `reg2bin` (all intervals), comparing every value
/// with the oracle when `compare` says the interval belongs to this shard.
fn build_tables(ms: u8, d: u8, shard: usize, nshards: usize) -> Result<(GeomTables, u64), (PairCase, Vec<Fail>)> {
    let p = binning::n_positions(ms as u32, d as u32);
    let nb = binning::n_bins(d as u32) as usize;
    // max end per (start, bin)
    let mut m = vec![0u16; (p as usize + 1) * nb];
    let mut compared = 0u64;
    for s in 1..=p {
        let row = &mut m[(s as usize) * nb..(s as usize + 1) * nb];
        let mine = (s as usize) % nshards == shard;
        for e in s..=p {
            let b = csi::verif::reg2bin(pos(s), pos(e), ms, d);
            if mine {
                let want = binning::reg2bin_1based(s, e, ms as u32, d as u32);
                let def = binning::reg2bin_def(s - 1, e, ms as u32, d as u32);
                compared += 1;
                if b as u64 != want || want != def {
                    let case = PairCase { min_shift: ms, depth: d, feature: (s, e), region: (s, e) };
                    let fails = match check_pair(&case) {
                        Err(f) => f,
                        Ok(_) => err1("c17.reg2bin.differs-from-spec", format!("reg2bin([{s},{e}]) = {b}, spec {want}, definition {def}")),
                    };
                    return Err((case, fails));
                }
            }
            if b >= nb {
                let case = PairCase { min_shift: ms, depth: d, feature: (s, e), region: (s, e) };
                return Err((case, err1("c17.reg2bin.out-of-range", format!("reg2bin([{s},{e}], {ms}, {d}) = {b} ≥ number of bins {nb}"))));
            }
            // e increases, so the last write per (s, b) is the max end for start s
            row[b] = e as u16;
        }
    }
    // prefix maximum over starts: m[x][b] = max over s ≤ x
    for x in 2..=(p as usize) {
        for b in 0..nb {
            let prev = m[(x - 1) * nb + b];
            if prev > m[x * nb + b] {
                m[x * nb + b] = prev;
            }
        }
    }
    Ok((GeomTables { p, nb, m }, compared))
}

fn find_witness(ms: u8, d: u8, b: usize, rs: u64, re: u64, p: u64) -> (u64, u64) {
    for s in 1..=re.min(p) {
        for e in s.max(rs)..=p {
            if csi::verif::reg2bin(pos(s), pos(e), ms, d) == b {
                return (s, e);
            }
        }
    }
    (rs, rs)
}

fn run_containment(sc: &ShardCtx, rec: &mut Recorder) {
    if let Err(e) = binning::self_check() {
        rec.record(&|| serde_json::json!({"oracle": "binning::self_check"}), Err(err1("c17.oracle-disagrees", e)));
        return;
    }
    let max_positions: u64 = sc.tier.pick(512, 4096);
    for (ms, d) in SMALL_GEOMETRIES {
        let p = binning::n_positions(ms as u32, d as u32);
        if p > max_positions {
            continue;
        }
        let (t, compared) = match build_tables(ms, d, sc.shard, sc.nshards) {
            Ok(x) => x,
            Err((case, fails)) => {
                rec.record(&|| serde_json::to_value(&case).unwrap_or_default(), Err(fails));
                return;
            }
        };
        let nb = t.nb;
        let mut bv = BitVec::from_elem(Bin::max_id(d), false);
        // sanity of the fast bit access used below
        let mut tests = 0u64;
        let mut regions = 0u64;
        let mut extra_bins = 0u64;
        let mut failure: Option<(PairCase, Vec<Fail>)> = None;
        'outer: for rs in 1..=t.p {
            if (rs as usize) % sc.nshards != sc.shard {
                continue;
            }
            for re in rs..=t.p {
                hook_bins(rs, re, ms, d, &mut bv);
                regions += 1;
                let row = &t.m[(re as usize) * nb..(re as usize + 1) * nb];
                for (b, &maxend) in row.iter().enumerate() {
                    let needed = maxend as u64 >= rs;
                    let listed = bv.get(b).unwrap_or(false);
                    if needed && !listed {
                        let feature = find_witness(ms, d, b, rs, re, t.p);
                        let case = PairCase { min_shift: ms, depth: d, feature, region: (rs, re) };
                        let fails = match check_pair(&case) {
                            Err(f) => f,
                            Ok(_) => err1("c17.containment", format!("bin {b} needed for region [{rs},{re}] but not listed (witness search failed)")),
                        };
                        failure = Some((case, fails));
                        break 'outer;
                    }
                    if listed && !needed {
                        extra_bins += 1;
                    }
                }
                tests += nb as u64;
            }
        }
        if let Some((case, fails)) = failure {
            rec.record(&|| serde_json::to_value(&case).unwrap_or_default(), Err(fails));
            return;
        }
        let geom_label: &'static str = match (ms, d) {
            (1, 1) => "geom(1,1)",
            (2, 1) => "geom(2,1)",
            (3, 1) => "geom(3,1)",
            (1, 2) => "geom(1,2)",
            (2, 2) => "geom(2,2)",
            (3, 2) => "geom(3,2)",
            (1, 3) => "geom(1,3)",
            (2, 3) => "geom(2,3)",
            _ => "geom(3,3)",
        };
        let summary = serde_json::json!({"min_shift": ms, "depth": d, "positions": t.p, "bins": nb, "shard": sc.shard, "regions": regions, "bit_tests": tests, "reg2bin_compared": compared, "listed_but_never_needed": extra_bins});
        let pass = Pass::new(true, mix(ms as u64 * 16 + d as u64, sc.shard as u64)).evals(tests + compared).label(geom_label).label_if(extra_bins > 0, "reg2bins-lists-unneeded-bins");
        if !rec.record(&|| summary.clone(), Ok(pass)) {
            return;
        }
    }
}

// ------------------------------------------------------------------------------------------------
// (a') sampled pairs through the public path
// ------------------------------------------------------------------------------------------------

const PUBLIC_GEOMETRIES: [(u8, u8); 5] = [(14, 5), (14, 6), (12, 5), (10, 4), (16, 4)];

#[derive(Clone, Debug, Serialize, Deserialize)]
pub struct PubPair {
    pub feature: (u64, u64),
    /// None = unbounded
    pub region: (Option<u64>, Option<u64>),
}

#[derive(Clone, Debug, Serialize, Deserialize)]
pub struct PubPairsCase {
    pub min_shift: u8,
    pub depth: u8,
    pub pairs: Vec<PubPair>,
}

/// One-based position in `[1, maxpos]`, dense around bin edges of every level.
fn edge_pos(ms: u32, depth: u32) -> BoxedStrategy<u64> {
    let maxpos = binning::n_positions(ms, depth) - 1;
    let edge = (0..=depth, any::<u32>(), -3i64..=3).prop_map(move |(lvl, k, delta)| {
        let w = ms + 3 * lvl;
        let nbins = 1u64 << (3 * (depth - lvl));
        let kk = ((k as u64) * (nbins + 1)) >> 32; // 0..=nbins
        let x = ((kk << w) as i64) + delta + 1;
        x.clamp(1, maxpos as i64) as u64
    });
    prop_oneof![4 => edge, 1 => 1u64..=maxpos, 1 => Just(1u64), 1 => Just(maxpos)].boxed()
}

fn extent(ms: u32, depth: u32) -> BoxedStrategy<u64> {
    let maxpos = binning::n_positions(ms, depth) - 1;
    let win = (0..=depth, -2i64..=2).prop_map(move |(lvl, dd)| (((1u64 << (ms + 3 * lvl)) as i64) + dd).max(0) as u64);
    prop_oneof![4 => 0u64..4, 3 => win, 1 => 0u64..=maxpos, 1 => (0u64..20).prop_map(|k| 1u64 << k)].boxed()
}

fn pub_pair(ms: u32, depth: u32) -> BoxedStrategy<PubPair> {
    let maxpos = binning::n_positions(ms, depth) - 1;
    (edge_pos(ms, depth), extent(ms, depth), extent(ms, depth), proptest::option::weighted(0.9, extent(ms, depth)), proptest::option::weighted(0.9, extent(ms, depth)))
        .prop_map(move |(p, fl, fr, rl, rr)| {
            let fs = p.saturating_sub(fl).max(1);
            let fe = p.saturating_add(fr).min(maxpos);
            let rs = rl.map(|x| p.saturating_sub(x).max(1));
            let re = rr.map(|x| p.saturating_add(x).min(maxpos));
            PubPair { feature: (fs, fe), region: (rs, re) }
        })
        .boxed()
}

fn pub_pairs_strategy(_tier: Tier) -> BoxedStrategy<PubPairsCase> {
    (0usize..PUBLIC_GEOMETRIES.len())
        .prop_flat_map(|g| {
            let (ms, d) = PUBLIC_GEOMETRIES[g];
            proptest::collection::vec(pub_pair(ms as u32, d as u32), 1..=16).prop_map(move |pairs| PubPairsCase { min_shift: ms, depth: d, pairs })
        })
        .boxed()
}

fn interval_of(region: (Option<u64>, Option<u64>)) -> noodles_core::region::Interval {
    match region {
        (Some(s), Some(e)) => (pos(s)..=pos(e)).into(),
        (Some(s), None) => (pos(s)..).into(),
        (None, Some(e)) => (..=pos(e)).into(),
        (None, None) => (..).into(),
    }
}

fn one_record_query<I>(ms: u8, d: u8, f: (u64, u64), region: (Option<u64>, Option<u64>), chunk: Chunk) -> Result<(Vec<Chunk>, Vec<usize>), Vec<Fail>>
where
    I: csi::binning_index::index::reference_sequence::Index + Default,
{
    let mut ix = Indexer::<I>::new(ms, d);
    ix.add_record(Some((0, pos(f.0), pos(f.1), true)), chunk).map_err(|e| err1("c17.pairs.add-record-error", format!("add_record([{},{}]) with ({ms},{d}): {e}", f.0, f.1)))?;
    let index = ix.build(1);
    let bins: Vec<usize> = index.reference_sequences()[0].bins().keys().copied().collect();
    let chunks = index.query(0, interval_of(region)).map_err(|e| err1("c17.pairs.query-error", format!("query({region:?}) on a ({ms},{d}) index rejected a region inside the geometry: {e}")))?;
    Ok((chunks, bins))
}

fn check_pub_pairs(c: &PubPairsCase) -> Verdict {
    let (ms, d) = (c.min_shift, c.depth);
    let chunk = Chunk::new(vp(100 << 16), vp(200 << 16));
    let mut fails = Fails::new();
    let mut above_leaf = false;
    let mut unbounded = false;
    let mut cross = false;
    for p in &c.pairs {
        let (fs, fe) = p.feature;
        let rs = p.region.0.unwrap_or(1);
        let re = p.region.1.unwrap_or(u64::MAX);
        if !(fs >= 1 && fs <= fe && rs <= re && fs <= re && rs <= fe) {
            // shrinking can produce non-intersecting or inverted pairs: nothing to assert
            continue;
        }
        unbounded |= p.region.0.is_none() || p.region.1.is_none();
        let want_bin = binning::reg2bin_1based(fs, fe, ms as u32, d as u32);
        above_leaf |= binning::bin_level(want_bin, d as u32) != Some(d as u32);
        cross |= (fs - 1) >> ms != (fe - 1) >> ms;
        match one_record_query::<BinnedIndex>(ms, d, p.feature, p.region, chunk) {
            Ok((chunks, bins)) => {
                if bins != vec![want_bin as usize] {
                    fails.push("c17.pairs.indexer-bin", format!("Indexer({ms},{d}) put [{fs},{fe}] into bins {bins:?}; specification reg2bin gives {want_bin}"));
                }
                if chunks != vec![chunk] {
                    fails.push("c17.pairs.binned.containment", format!("({ms},{d}) BinnedIndex: feature [{fs},{fe}] (bin {want_bin}) intersects region {:?} but query returned {chunks:?}", p.region));
                }
            }
            Err(f) => fails.0.extend(f),
        }
        match one_record_query::<LinearIndex>(ms, d, p.feature, p.region, chunk) {
            Ok((chunks, _)) => {
                if chunks != vec![chunk] {
                    fails.push("c17.pairs.linear.containment", format!("({ms},{d}) LinearIndex: feature [{fs},{fe}] (bin {want_bin}) intersects region {:?} but query returned {chunks:?}", p.region));
                }
            }
            Err(f) => fails.0.extend(f),
        }
        if !fails.is_empty() {
            break;
        }
    }
    let geom: &'static str = match (ms, d) {
        (14, 5) => "geom(14,5)",
        (14, 6) => "geom(14,6)",
        (12, 5) => "geom(12,5)",
        (10, 4) => "geom(10,4)",
        _ => "geom(16,4)",
    };
    fails.finish(Pass::new(true, key_of(c)).evals(c.pairs.len() as u64 * 2).label(geom).label_if(above_leaf, "feature-above-leaf").label_if(unbounded, "unbounded-region").label_if(cross, "feature-crosses-window"))
}

// ------------------------------------------------------------------------------------------------
// (b) chunk optimisation
// ------------------------------------------------------------------------------------------------

#[derive(Clone, Debug, Serialize, Deserialize)]
pub struct ChunksCase {
    /// (start, end) raw virtual positions, start ≤ end
    pub chunks: Vec<(u64, u64)>,
    pub min_offset: u64,
}

fn chunks_strategy(_tier: Tier) -> BoxedStrategy<ChunksCase> {
    // small coordinate universe → dense overlaps / touching / nesting; a scale factor moves the
    // same shapes to realistic virtual positions (compressed offset << 16 | in-block offset)
    let chunk = prop_oneof![
        6 => (0u64..60, 0u64..12).prop_map(|(s, l)| (s, s + l)),
        1 => (0u64..60, 0u64..60).prop_map(|(a, b)| (a.min(b), a.max(b))),
        1 => (0u64..60).prop_map(|s| (s, s)),
    ];
    (proptest::collection::vec(chunk, 0..14), 0u64..64, prop_oneof![3 => Just(1u64), 1 => Just(1u64 << 16), 1 => Just(65_537u64), 1 => Just(1u64 << 40)], any::<bool>())
        .prop_map(|(chunks, m, scale, sorted)| {
            let mut chunks: Vec<(u64, u64)> = chunks.into_iter().map(|(s, e)| (s * scale, e * scale)).collect();
            if sorted {
                chunks.sort();
            }
            ChunksCase { chunks, min_offset: m * scale }
        })
        .boxed()
}

/// Canonical coverage: sorted, merged (touching or overlapping), without empty ranges.
fn coverage(chunks: &[(u64, u64)]) -> Vec<(u64, u64)> {
    let mut v: Vec<(u64, u64)> = chunks.iter().copied().filter(|(s, e)| s < e).collect();
    v.sort();
    let mut out: Vec<(u64, u64)> = Vec::new();
    for (s, e) in v {
        match out.last_mut() {
            Some(last) if s <= last.1 => {
                if e > last.1 {
                    last.1 = e;
                }
            }
            _ => out.push((s, e)),
        }
    }
    out
}

fn raw(c: &Chunk) -> (u64, u64) {
    (u64::from(c.start()), u64::from(c.end()))
}

fn covers(sup: &[(u64, u64)], sub: &[(u64, u64)]) -> bool {
    // both canonical
    sub.iter().all(|(s, e)| sup.iter().any(|(a, b)| a <= s && e <= b))
}

fn check_chunks(c: &ChunksCase) -> Verdict {
    let input: Vec<Chunk> = c.chunks.iter().map(|&(s, e)| Chunk::new(vp(s), vp(e))).collect();
    let mut fails = Fails::new();
    for (name, m, out) in [("optimize_chunks", c.min_offset, optimize_chunks(&input, vp(c.min_offset))), ("merge_chunks", 0, merge_chunks(&input))] {
        let out: Vec<(u64, u64)> = out.iter().map(raw).collect();
        let retained: Vec<(u64, u64)> = c.chunks.iter().copied().filter(|&(_, e)| e > m).collect();
        let want = coverage(&retained);
        let got = coverage(&out);
        if got != want {
            let sig = if !covers(&got, &want) { format!("c17.chunks.{name}.uncovered") } else { format!("c17.chunks.{name}.extra-coverage") };
            fails.push(sig, format!("{name}({:?}, min_offset={m}): output {out:?} covers {got:?}; the chunks with end > min_offset cover {want:?}", c.chunks));
        }
        for w in out.windows(2) {
            if w[0].0 > w[1].0 {
                fails.push(format!("c17.chunks.{name}.unsorted"), format!("{name}: output not sorted by start: {out:?}"));
                break;
            }
            if w[0].1 > w[1].0 {
                fails.push(format!("c17.chunks.{name}.overlap"), format!("{name}: output chunks overlap: {out:?}"));
                break;
            }
        }
        for o in &out {
            if o.0 > o.1 {
                fails.push(format!("c17.chunks.{name}.inverted"), format!("{name}: output chunk with start > end: {out:?}"));
            }
        }
    }
    let n = c.chunks.len();
    let mut overlapping = false;
    let mut touching = false;
    let mut nested = false;
    for i in 0..n {
        for j in 0..n {
            if i == j {
                continue;
            }
            let (a, b) = (c.chunks[i], c.chunks[j]);
            if a.0 < b.0 && b.0 < a.1 && a.1 < b.1 {
                overlapping = true;
            }
            if a.1 == b.0 && a.0 < a.1 && b.0 < b.1 {
                touching = true;
            }
            if a.0 <= b.0 && b.1 <= a.1 && (a.0 < b.0 || b.1 < a.1) && b.0 < b.1 {
                nested = true;
            }
        }
    }
    let unsorted = c.chunks.windows(2).any(|w| w[0].0 > w[1].0);
    let end_eq_min = c.chunks.iter().any(|&(_, e)| e == c.min_offset);
    let straddles_min = c.chunks.iter().any(|&(s, e)| s < c.min_offset && c.min_offset < e);
    fails.finish(
        Pass::new(n >= 2 && (overlapping || touching || nested), key_of(c))
            .label_if(overlapping, "overlapping")
            .label_if(touching, "touching")
            .label_if(nested, "nested")
            .label_if(unsorted, "unsorted-input")
            .label_if(end_eq_min, "chunk-end==min_offset")
            .label_if(straddles_min, "chunk-straddles-min_offset")
            .label_if(n == 0, "empty-list")
            .label_if(c.chunks.iter().any(|(s, e)| s == e), "empty-chunk"),
    )
}

// ------------------------------------------------------------------------------------------------
// (c) round trips of the binning indexes
// ------------------------------------------------------------------------------------------------

#[derive(Clone, Debug, Serialize, Deserialize, PartialEq)]
pub struct BinSpec {
    /// selector into the valid bin ids of the geometry (monotone)
    pub id_sel: u32,
    pub loffset: u64,
    pub chunks: Vec<(u64, u64)>,
}

#[derive(Clone, Debug, Serialize, Deserialize, PartialEq)]
pub struct RefSpec {
    pub bins: Vec<BinSpec>,
    pub linear: Vec<u64>,
    /// (ref_beg, ref_end, n_mapped, n_unmapped)
    pub metadata: Option<(u64, u64, u64, u64)>,
}

#[derive(Clone, Debug, Serialize, Deserialize, PartialEq)]
pub struct HeaderSpec {
    /// 0 generic/GFF coordinates, 1 generic/BED coordinates, 2 SAM, 3 VCF
    pub format: u8,
    pub col_seq: u32,
    pub col_beg: u32,
    /// for the generic formats: None or a column different from col_beg
    pub col_end: Option<u32>,
    pub meta: u8,
    pub skip: u32,
    pub names: Vec<Vec<u8>>,
}

/// A synthetic record for the indexer-built variants: (reference, start, end, mapped, chunk length).
#[derive(Clone, Debug, Serialize, Deserialize, PartialEq)]
pub struct SynRec {
    pub rid: u8,
    pub start: u64,
    pub len: u64,
    pub mapped: bool,
    /// virtual-offset length of the record's chunk (≥ 1)
    pub vlen: u16,
}

#[derive(Clone, Debug, Serialize, Deserialize, PartialEq)]
pub enum Source {
    /// bins / offsets as given
    Arbitrary { refs: Vec<RefSpec> },
    /// CSI only: per-bin offsets chosen so that a child never has a larger offset than any ancestor
    /// (any "minimum over ancestors" rewrite is the identity there)
    Descending { refs: Vec<RefSpec> },
    /// built by the public indexers from a coordinate-sorted synthetic record list
    Indexed { n_ref: u8, recs: Vec<SynRec>, unplaced: u8 },
}

#[derive(Clone, Debug, Serialize, Deserialize, PartialEq)]
pub enum Kind {
    Bai,
    Tabix,
    Csi { min_shift: u8, depth: u8, with_header: bool },
}

#[derive(Clone, Debug, Serialize, Deserialize)]
pub struct RtCase {
    pub kind: Kind,
    pub source: Source,
    pub header: HeaderSpec,
    pub n_no_coor: Option<u64>,
    /// query battery: (reference selector, start, end) with None = unbounded
    pub battery: Vec<(u8, Option<u64>, Option<u64>)>,
}

fn vpos_strategy() -> BoxedStrategy<u64> {
    prop_oneof![
        4 => (0u64..5000, 0u64..65536).prop_map(|(c, u)| (c << 16) | u),
        2 => 0u64..100_000,
        1 => any::<u64>(),
        1 => Just(0u64),
        1 => Just(u64::MAX),
    ]
    .boxed()
}

fn chunk_list() -> BoxedStrategy<Vec<(u64, u64)>> {
    prop_oneof![
        3 => proptest::collection::vec((0u64..2000, 1u64..3000), 0..5).prop_map(|v| {
            // sorted, non-overlapping like an indexer would produce
            let mut at = 0u64;
            v.into_iter()
                .map(|(gap, len)| {
                    let s = at + gap;
                    let e = s + len;
                    at = e + 1;
                    (s << 8, e << 8)
                })
                .collect()
        }),
        1 => proptest::collection::vec((vpos_strategy(), vpos_strategy()), 0..4),
    ]
    .boxed()
}

fn ref_spec() -> BoxedStrategy<RefSpec> {
    (
        proptest::collection::vec((any::<u32>(), vpos_strategy(), chunk_list()).prop_map(|(id_sel, loffset, chunks)| BinSpec { id_sel, loffset, chunks }), 0..7),
        prop_oneof![2 => proptest::collection::vec(vpos_strategy(), 0..6), 1 => proptest::collection::vec(0u64..1000, 0..40).prop_map(|mut v| { v.sort(); v.into_iter().map(|x| x << 16).collect() })],
        proptest::option::weighted(0.7, (vpos_strategy(), vpos_strategy(), prop_oneof![0u64..100, any::<u64>()], prop_oneof![0u64..100, any::<u64>()])),
    )
        .prop_map(|(bins, linear, metadata)| RefSpec { bins, linear, metadata })
        .boxed()
}

fn name_bytes() -> BoxedStrategy<Vec<u8>> {
    prop_oneof![
        4 => "[!-~]{1,12}".prop_map(|s| s.into_bytes()),
        3 => proptest::collection::vec(1u8..=255, 0..10),
        1 => proptest::collection::vec(any::<u8>(), 1..6), // may contain NUL
        1 => Just(Vec::new()),
        1 => "chr[0-9]{1,2}".prop_map(|s| s.into_bytes()),
    ]
    .boxed()
}

fn header_spec() -> BoxedStrategy<HeaderSpec> {
    let col = prop_oneof![4 => 0u32..8, 1 => Just(0x7fff_fffeu32), 1 => 0u32..100_000];
    (0u8..4, col.clone(), col.clone(), proptest::option::of(col), any::<u8>(), prop_oneof![3 => 0u32..5, 1 => Just(i32::MAX as u32), 1 => 0u32..1_000_000], proptest::collection::vec(name_bytes(), 0..6))
        .prop_map(|(format, col_seq, col_beg, col_end, meta, skip, names)| {
            let col_end = match (format, col_end) {
                (2 | 3, _) => None,
                (_, Some(e)) if e == col_beg => None,
                (_, e) => e,
            };
            // names are a set
            let mut uniq: Vec<Vec<u8>> = Vec::new();
            for n in names {
                if !uniq.contains(&n) {
                    uniq.push(n);
                }
            }
            HeaderSpec { format, col_seq, col_beg, col_end, meta, skip, names: uniq }
        })
        .boxed()
}

fn syn_recs(maxpos: u64, leaf: u64) -> BoxedStrategy<Vec<SynRec>> {
    // starts clustered around a few anchors so that long-before-short and shared leaves occur
    let rec = (0u8..3, 0u64..6, prop_oneof![3 => 0u64..40, 1 => 0u64..400], prop_oneof![4 => 1u64..30, 2 => 1u64..400, 2 => 1u64..5000], any::<bool>(), 1u16..2000).prop_map(move |(rid, anchor, off, len_units, mapped, vlen)| {
        let unit = (leaf / 16).max(1);
        let start = (anchor * leaf * 9 / 2 + off * unit + 1).min(maxpos);
        let len = (len_units * unit).min(maxpos - start + 1).max(1);
        SynRec { rid, start, len, mapped, vlen }
    });
    proptest::collection::vec(rec, 0..24).boxed()
}

fn rt_strategy(_tier: Tier) -> BoxedStrategy<RtCase> {
    let kind = prop_oneof![
        2 => Just(Kind::Bai),
        2 => Just(Kind::Tabix),
        4 => (prop_oneof![3 => Just((14u8, 5u8)), 1 => Just((14u8, 6u8)), 1 => Just((12u8, 5u8)), 1 => Just((10u8, 4u8)), 1 => Just((16u8, 4u8)), 1 => Just((1u8, 1u8)), 1 => Just((3u8, 0u8)), 1 => Just((5u8, 8u8)), 1 => Just((2u8, 10u8))], any::<bool>())
            .prop_map(|((min_shift, depth), with_header)| Kind::Csi { min_shift, depth, with_header }),
    ];
    kind.prop_flat_map(|kind| {
        let (ms, d) = match kind {
            Kind::Csi { min_shift, depth, .. } => (min_shift as u32, depth as u32),
            _ => (14, 5),
        };
        let maxpos = binning::n_positions(ms, d) - 1;
        let leaf = 1u64 << ms;
        let refs = proptest::collection::vec(ref_spec(), 0..4);
        let source = match kind {
            Kind::Csi { .. } => prop_oneof![
                2 => refs.clone().prop_map(|refs| Source::Arbitrary { refs }),
                2 => refs.prop_map(|refs| Source::Descending { refs }),
                3 => (0u8..4, syn_recs(maxpos, leaf), 0u8..4).prop_map(|(n_ref, recs, unplaced)| Source::Indexed { n_ref, recs, unplaced }),
            ]
            .boxed(),
            _ => prop_oneof![
                3 => refs.prop_map(|refs| Source::Arbitrary { refs }),
                2 => (0u8..4, syn_recs(maxpos, leaf), 0u8..4).prop_map(|(n_ref, recs, unplaced)| Source::Indexed { n_ref, recs, unplaced }),
            ]
            .boxed(),
        };
        let region_pos = prop_oneof![3 => edge_pos(ms, d), 2 => (0u64..6, 0u64..640).prop_map(move |(a, o)| (a * leaf * 9 / 2 + o * (leaf / 16).max(1) + 1).min(maxpos))];
        let battery = proptest::collection::vec((0u8..4, proptest::option::weighted(0.85, region_pos.clone()), proptest::option::weighted(0.85, region_pos)), 0..10);
        (Just(kind), source, header_spec(), proptest::option::weighted(0.8, prop_oneof![0u64..10, any::<u64>()]), battery).prop_map(|(kind, source, header, n_no_coor, battery)| {
            let battery = battery
                .into_iter()
                .map(|(r, s, e)| match (s, e) {
                    (Some(a), Some(b)) => (r, Some(a.min(b)), Some(a.max(b))),
                    other => (r, other.0, other.1),
                })
                .collect();
            RtCase { kind, source, header, n_no_coor, battery }
        })
    })
    .boxed()
}

/// Distinct valid bin ids for a geometry from monotone selectors.
fn bin_id(sel: u32, depth: u8) -> usize {
    let n = binning::n_bins(depth as u32);
    (((sel as u64) * n) >> 32) as usize
}

fn build_header(h: &HeaderSpec) -> TbxHeader {
    let format = match h.format {
        0 => Format::Generic(CoordinateSystem::Gff),
        1 => Format::Generic(CoordinateSystem::Bed),
        2 => Format::Sam,
        _ => Format::Vcf,
    };
    let mut names = csi::binning_index::index::header::ReferenceSequenceNames::new();
    for n in &h.names {
        names.insert(bstr::BString::from(n.clone()));
    }
    TbxHeader::builder()
        .set_format(format)
        .set_reference_sequence_name_index(h.col_seq as usize)
        .set_start_position_index(h.col_beg as usize)
        .set_end_position_index(h.col_end.map(|x| x as usize))
        .set_line_comment_prefix(h.meta)
        .set_line_skip_count(h.skip)
        .set_reference_sequence_names(names)
        .build()
}

fn build_bins(r: &RefSpec, depth: u8) -> (indexmap::IndexMap<usize, Bin>, Vec<(usize, u64)>) {
    let mut bins = indexmap::IndexMap::new();
    let mut loffs = Vec::new();
    for b in &r.bins {
        let id = bin_id(b.id_sel, depth);
        if bins.contains_key(&id) {
            continue;
        }
        bins.insert(id, Bin::new(b.chunks.iter().map(|&(s, e)| Chunk::new(vp(s), vp(e))).collect()));
        loffs.push((id, b.loffset));
    }
    (bins, loffs)
}

fn build_metadata(r: &RefSpec) -> Option<Metadata> {
    r.metadata.map(|(a, b, c, d)| Metadata::new(vp(a), vp(b), c, d))
}

/// Number of reference sequences the index is built with: the generated 0..3, or — one case in
/// sixteen — just beyond 65 536 (all the further ones empty): counts past the 16-bit range, which is
/// where a reader that caps what it preallocates must not cap what it reads.
fn built_refs(n_ref: u8, recs: &[SynRec]) -> usize {
    if n_ref >= 1 && recs.len() % 16 == 7 { 65_536 + n_ref as usize } else { n_ref as usize }
}

fn sorted_syn(recs: &[SynRec], n_ref: u8) -> Vec<SynRec> {
    let mut v: Vec<SynRec> = recs.iter().filter(|r| (r.rid as usize) < n_ref as usize).cloned().collect();
    v.sort_by_key(|r| (r.rid, r.start));
    v
}

/// Virtual-offset chunks for a sorted synthetic record list: consecutive, starting at 1 << 16.
fn syn_chunks(recs: &[SynRec]) -> Vec<Chunk> {
    let mut at = 1u64 << 16;
    recs.iter()
        .map(|r| {
            let s = at;
            at += r.vlen.max(1) as u64 * 7;
            Chunk::new(vp(s), vp(at))
        })
        .collect()
}

fn linear_index_of(c: &RtCase, with_header: bool) -> Result<csi::binning_index::Index<LinearIndex>, Vec<Fail>> {
    match &c.source {
        Source::Arbitrary { refs } | Source::Descending { refs } => {
            let rs: Vec<ReferenceSequence<LinearIndex>> = refs
                .iter()
                .map(|r| {
                    let (bins, _) = build_bins(r, 5);
                    ReferenceSequence::new(bins, r.linear.iter().map(|&x| vp(x)).collect(), build_metadata(r))
                })
                .collect();
            let mut b = csi::binning_index::Index::<LinearIndex>::builder().set_reference_sequences(rs);
            if with_header {
                b = b.set_header(build_header(&c.header));
            }
            if let Some(n) = c.n_no_coor {
                b = b.set_unplaced_unmapped_record_count(n);
            }
            Ok(b.build())
        }
        Source::Indexed { n_ref, recs, unplaced } => {
            let recs = sorted_syn(recs, *n_ref);
            let chunks = syn_chunks(&recs);
            let mut ix = Indexer::<LinearIndex>::default();
            if with_header {
                ix = ix.set_header(build_header(&c.header));
            }
            for (r, ch) in recs.iter().zip(&chunks) {
                ix.add_record(Some((r.rid as usize, pos(r.start), pos(r.start + r.len - 1), r.mapped)), *ch).map_err(|e| err1("c17.rt.indexer-error", format!("Indexer<LinearIndex>::add_record: {e}")))?;
            }
            let tail = chunks.last().map(|c| c.end()).unwrap_or(vp(1 << 16));
            for _ in 0..*unplaced {
                ix.add_record(None, Chunk::new(tail, tail)).map_err(|e| err1("c17.rt.indexer-error", format!("add_record(None): {e}")))?;
            }
            Ok(ix.build(built_refs(*n_ref, &recs)))
        }
    }
}

fn csi_index_of(c: &RtCase, ms: u8, d: u8, with_header: bool) -> Result<csi::Index, Vec<Fail>> {
    match &c.source {
        Source::Arbitrary { refs } | Source::Descending { refs } => {
            let descending = matches!(c.source, Source::Descending { .. });
            let rs: Vec<ReferenceSequence<BinnedIndex>> = refs
                .iter()
                .map(|r| {
                    let (bins, loffs) = build_bins(r, d);
                    let index: BinnedIndex = loffs
                        .iter()
                        .map(|&(id, l)| {
                            let v = if descending {
                                // deeper level ⇒ strictly smaller offset than any shallower bin
                                let lvl = binning::bin_level(id as u64, d as u32).unwrap_or(0) as u64;
                                (u64::from(d) - lvl) * (1 << 32) + (l & 0xffff_ffff)
                            } else {
                                l
                            };
                            (id, vp(v))
                        })
                        .collect();
                    ReferenceSequence::new(bins, index, build_metadata(r))
                })
                .collect();
            let mut b = csi::Index::builder().set_min_shift(ms).set_depth(d).set_reference_sequences(rs);
            if with_header {
                b = b.set_header(build_header(&c.header));
            }
            if let Some(n) = c.n_no_coor {
                b = b.set_unplaced_unmapped_record_count(n);
            }
            Ok(b.build())
        }
        Source::Indexed { n_ref, recs, unplaced } => {
            let recs = sorted_syn(recs, *n_ref);
            let chunks = syn_chunks(&recs);
            let mut ix = Indexer::<BinnedIndex>::new(ms, d);
            if with_header {
                ix = ix.set_header(build_header(&c.header));
            }
            for (r, ch) in recs.iter().zip(&chunks) {
                ix.add_record(Some((r.rid as usize, pos(r.start), pos(r.start + r.len - 1), r.mapped)), *ch).map_err(|e| err1("c17.rt.indexer-error", format!("Indexer<BinnedIndex>::add_record: {e}")))?;
            }
            let tail = chunks.last().map(|c| c.end()).unwrap_or(vp(1 << 16));
            for _ in 0..*unplaced {
                ix.add_record(None, Chunk::new(tail, tail)).map_err(|e| err1("c17.rt.indexer-error", format!("add_record(None): {e}")))?;
            }
            Ok(ix.build(built_refs(*n_ref, &recs)))
        }
    }
}

// ---- independent byte-level walkers of the three binning index formats -------------------------

struct Cur<'a> {
    b: &'a [u8],
    at: usize,
}

impl<'a> Cur<'a> {
    fn take(&mut self, n: usize) -> Result<&'a [u8], String> {
        if self.at + n > self.b.len() {
            return Err(format!("walker: need {n} bytes at offset {}, file has {}", self.at, self.b.len()));
        }
        let s = &self.b[self.at..self.at + n];
        self.at += n;
        Ok(s)
    }
    fn i32(&mut self) -> Result<i32, String> {
        Ok(i32::from_le_bytes(self.take(4)?.try_into().map_err(|_| "slice")?))
    }
    fn u32(&mut self) -> Result<u32, String> {
        Ok(u32::from_le_bytes(self.take(4)?.try_into().map_err(|_| "slice")?))
    }
    fn u64(&mut self) -> Result<u64, String> {
        Ok(u64::from_le_bytes(self.take(8)?.try_into().map_err(|_| "slice")?))
    }
    fn rest(&self) -> usize {
        self.b.len() - self.at
    }
}

#[derive(Debug, Default, PartialEq, Clone)]
struct RawBin {
    id: u32,
    loffset: Option<u64>,
    chunks: Vec<(u64, u64)>,
}

#[derive(Debug, Default, PartialEq, Clone)]
struct RawRef {
    bins: Vec<RawBin>,
    linear: Option<Vec<u64>>,
}

#[derive(Debug, Default, PartialEq, Clone)]
struct RawHeader {
    format: i32,
    col_seq: i32,
    col_beg: i32,
    col_end: i32,
    meta: i32,
    skip: i32,
    names_blob: Vec<u8>,
}

#[derive(Debug, Default, PartialEq, Clone)]
struct RawIndex {
    min_shift: Option<i32>,
    depth: Option<i32>,
    header: Option<RawHeader>,
    refs: Vec<RawRef>,
    n_no_coor: Option<u64>,
}

fn walk_tbx_header(c: &mut Cur) -> Result<RawHeader, String> {
    let format = c.i32()?;
    let col_seq = c.i32()?;
    let col_beg = c.i32()?;
    let col_end = c.i32()?;
    let meta = c.i32()?;
    let skip = c.i32()?;
    let l_nm = c.i32()?;
    if l_nm < 0 {
        return Err(format!("walker: negative l_nm {l_nm}"));
    }
    let names_blob = c.take(l_nm as usize)?.to_vec();
    Ok(RawHeader { format, col_seq, col_beg, col_end, meta, skip, names_blob })
}

fn walk_bins(c: &mut Cur, with_loffset: bool) -> Result<Vec<RawBin>, String> {
    let n_bin = c.i32()?;
    if n_bin < 0 {
        return Err(format!("walker: negative n_bin {n_bin}"));
    }
    let mut bins = Vec::new();
    for _ in 0..n_bin {
        let id = c.u32()?;
        let loffset = if with_loffset { Some(c.u64()?) } else { None };
        let n_chunk = c.i32()?;
        if n_chunk < 0 {
            return Err(format!("walker: negative n_chunk {n_chunk}"));
        }
        let mut chunks = Vec::new();
        for _ in 0..n_chunk {
            chunks.push((c.u64()?, c.u64()?));
        }
        bins.push(RawBin { id, loffset, chunks });
    }
    Ok(bins)
}

fn walk_linear(c: &mut Cur) -> Result<Vec<u64>, String> {
    let n = c.i32()?;
    if n < 0 {
        return Err(format!("walker: negative n_intv {n}"));
    }
    (0..n).map(|_| c.u64()).collect()
}

fn walk_tail(c: &mut Cur) -> Result<Option<u64>, String> {
    match c.rest() {
        0 => Ok(None),
        8 => Ok(Some(c.u64()?)),
        n => Err(format!("walker: {n} trailing bytes after the last reference (expected 0 or 8)")),
    }
}

/// BAI per SAM specification §5.2.
fn walk_bai(bytes: &[u8]) -> Result<RawIndex, String> {
    let mut c = Cur { b: bytes, at: 0 };
    if c.take(4)? != b"BAI\x01" {
        return Err("walker: BAI magic".into());
    }
    let n_ref = c.i32()?;
    let mut refs = Vec::new();
    for _ in 0..n_ref {
        let bins = walk_bins(&mut c, false)?;
        let linear = walk_linear(&mut c)?;
        refs.push(RawRef { bins, linear: Some(linear) });
    }
    let n_no_coor = walk_tail(&mut c)?;
    Ok(RawIndex { min_shift: None, depth: None, header: None, refs, n_no_coor })
}

/// Tabix per the tabix specification (payload after BGZF decompression).
fn walk_tbi(bytes: &[u8]) -> Result<RawIndex, String> {
    let mut c = Cur { b: bytes, at: 0 };
    if c.take(4)? != b"TBI\x01" {
        return Err("walker: TBI magic".into());
    }
    let n_ref = c.i32()?;
    let header = walk_tbx_header(&mut c)?;
    let mut refs = Vec::new();
    for _ in 0..n_ref {
        let bins = walk_bins(&mut c, false)?;
        let linear = walk_linear(&mut c)?;
        refs.push(RawRef { bins, linear: Some(linear) });
    }
    let n_no_coor = walk_tail(&mut c)?;
    Ok(RawIndex { min_shift: None, depth: None, header: Some(header), refs, n_no_coor })
}

/// CSI per CSIv1 (payload after BGZF decompression).
fn walk_csi(bytes: &[u8]) -> Result<RawIndex, String> {
    let mut c = Cur { b: bytes, at: 0 };
    if c.take(4)? != b"CSI\x01" {
        return Err("walker: CSI magic".into());
    }
    let min_shift = c.i32()?;
    let depth = c.i32()?;
    let l_aux = c.i32()?;
    if l_aux < 0 {
        return Err(format!("walker: negative l_aux {l_aux}"));
    }
    let aux = c.take(l_aux as usize)?;
    let header = if l_aux > 0 {
        let mut a = Cur { b: aux, at: 0 };
        let h = walk_tbx_header(&mut a)?;
        if a.rest() != 0 {
            return Err(format!("walker: {} unused aux bytes", a.rest()));
        }
        Some(h)
    } else {
        None
    };
    let n_ref = c.i32()?;
    let mut refs = Vec::new();
    for _ in 0..n_ref {
        let bins = walk_bins(&mut c, true)?;
        refs.push(RawRef { bins, linear: None });
    }
    let n_no_coor = walk_tail(&mut c)?;
    Ok(RawIndex { min_shift: Some(min_shift), depth: Some(depth), header, refs, n_no_coor })
}

fn expected_raw_header(h: &HeaderSpec) -> RawHeader {
    let format = match h.format {
        0 => 0,
        1 => 0x10000,
        2 => 1,
        _ => 2,
    };
    let col_end = match h.format {
        2 | 3 => 0,
        _ => h.col_end.unwrap_or(h.col_beg) as i32 + 1,
    };
    let mut blob = Vec::new();
    for n in &h.names {
        blob.extend_from_slice(n);
        blob.push(0);
    }
    RawHeader { format, col_seq: h.col_seq as i32 + 1, col_beg: h.col_beg as i32 + 1, col_end, meta: h.meta as i32, skip: h.skip as i32, names_blob: blob }
}

/// What the file must contain for reference `r` given the in-memory value (bins in any order;
/// metadata pseudo-bin = number of bins of the geometry + 1 with two pseudo-chunks).
fn expected_raw_bins<I>(r: &ReferenceSequence<I>, depth: u8) -> BTreeMap<u32, Vec<(u64, u64)>>
where
    I: csi::binning_index::index::reference_sequence::Index,
{
    let mut m = BTreeMap::new();
    for (id, bin) in r.bins() {
        m.insert(*id as u32, bin.chunks().iter().map(raw).collect());
    }
    if let Some(md) = r.metadata() {
        let id = binning::n_bins(depth as u32) as u32 + 1;
        m.insert(id, vec![(u64::from(md.start_position()), u64::from(md.end_position())), (md.mapped_record_count(), md.unmapped_record_count())]);
    }
    m
}

fn compare_raw_refs<I>(fails: &mut Fails, fmt: &str, raw_ix: &RawIndex, refs: &[ReferenceSequence<I>], depth: u8)
where
    I: csi::binning_index::index::reference_sequence::Index,
{
    if raw_ix.refs.len() != refs.len() {
        fails.push(format!("c17.{fmt}.bytes.n_ref"), format!("file holds {} references, index has {}", raw_ix.refs.len(), refs.len()));
        return;
    }
    for (i, (rr, r)) in raw_ix.refs.iter().zip(refs).enumerate() {
        let mut got = BTreeMap::new();
        let mut dup = false;
        for b in &rr.bins {
            dup |= got.insert(b.id, b.chunks.clone()).is_some();
        }
        if dup {
            fails.push(format!("c17.{fmt}.bytes.duplicate-bin"), format!("reference {i}: a bin id is written twice: {:?}", rr.bins.iter().map(|b| b.id).collect::<Vec<_>>()));
        }
        let want = expected_raw_bins(r, depth);
        if got != want {
            fails.push(format!("c17.{fmt}.bytes.bins"), format!("reference {i}: bins in the file {} ≠ bins of the index {}", trunc(&format!("{got:?}"), 500), trunc(&format!("{want:?}"), 500)));
        }
    }
}

fn inflate_bgzf(bytes: &[u8]) -> Result<Vec<u8>, Vec<Fail>> {
    let members = bgzf_walk::walk(bytes).map_err(|e| err1("c17.rt.bgzf-malformed", format!("index file is not well-formed BGZF: {e}")))?;
    Ok(bgzf_walk::concat(&members))
}

/// Query battery: for every (reference, interval) the chunk list or the error kind.
fn battery_answers<X: BinningIndex>(ix: &X, n_ref: usize, battery: &[(u8, Option<u64>, Option<u64>)]) -> Vec<Result<Vec<(u64, u64)>, String>> {
    battery
        .iter()
        .map(|&(r, s, e)| {
            let rid = if n_ref == 0 { 0 } else { (r as usize) % n_ref };
            ix.query(rid, interval_of((s, e))).map(|v| v.iter().map(raw).collect()).map_err(|e| format!("{:?}", e.kind()))
        })
        .collect()
}

fn check_rt(c: &RtCase) -> Verdict {
    let mut fails = Fails::new();
    let names_have_nul = c.header.names.iter().any(|n| n.contains(&0));
    let mut labels: Vec<&'static str> = Vec::new();
    let src_label = match &c.source {
        Source::Arbitrary { .. } => "source-arbitrary",
        Source::Descending { .. } => "source-descending-loffsets",
        Source::Indexed { .. } => "source-indexer",
    };
    labels.push(src_label);
    let nontrivial;

    match &c.kind {
        Kind::Bai => {
            labels.push("bai");
            let index = linear_index_of(c, false)?;
            let mut buf = Vec::new();
            noodles_bam::bai::io::Writer::new(&mut buf).write_index(&index).map_err(|e| err1("c17.bai.write-error", format!("bai write_index: {e}")))?;
            let back = noodles_bam::bai::io::Reader::new(&buf[..]).read_index().map_err(|e| err1("c17.bai.read-error", format!("bai read_index of noodles' own output: {e}")))?;
            if back != index {
                fails.push("c17.bai.roundtrip", format!("BAI read back differs: wrote {} read {}", trunc(&format!("{index:?}"), 700), trunc(&format!("{back:?}"), 700)));
            }
            match walk_bai(&buf) {
                Ok(rawix) => {
                    compare_raw_refs(&mut fails, "bai", &rawix, index.reference_sequences(), 5);
                    for (i, (rr, r)) in rawix.refs.iter().zip(index.reference_sequences()).enumerate() {
                        let lin: Vec<u64> = r.index().iter().map(|&v| u64::from(v)).collect();
                        if rr.linear.as_deref() != Some(&lin[..]) {
                            fails.push("c17.bai.bytes.linear", format!("reference {i}: linear index in the file {:?} ≠ {:?}", rr.linear, lin));
                        }
                    }
                    if rawix.n_no_coor != index.unplaced_unmapped_record_count() {
                        fails.push("c17.bai.bytes.n_no_coor", format!("n_no_coor in the file {:?}, index has {:?}", rawix.n_no_coor, index.unplaced_unmapped_record_count()));
                    }
                }
                Err(e) => fails.push("c17.bai.bytes.malformed", e),
            }
            nontrivial = index.reference_sequences().iter().any(|r| !r.bins().is_empty());
            if index.reference_sequences().iter().any(|r| r.metadata().is_some()) {
                labels.push("metadata-bin");
            }
        }
        Kind::Tabix => {
            labels.push("tabix");
            // half of the indexer-built cases go through tabix's own name-based indexer
            let via_tabix_indexer = matches!(c.source, Source::Indexed { .. }) && c.header.meta & 1 == 0;
            let index = if let (true, Source::Indexed { n_ref, recs, .. }) = (via_tabix_indexer, &c.source) {
                let recs = sorted_syn(recs, *n_ref);
                let chunks = syn_chunks(&recs);
                let mut ix = noodles_tabix::index::Indexer::default();
                ix.set_header(build_header(&c.header));
                for (r, ch) in recs.iter().zip(&chunks) {
                    ix.add_record(&format!("sq{}", r.rid), pos(r.start), pos(r.start + r.len - 1), *ch).map_err(|e| err1("c17.rt.indexer-error", format!("tabix Indexer::add_record: {e}")))?;
                }
                labels.push("tabix-name-indexer");
                ix.build()
            } else {
                linear_index_of(c, true)?
            };
            // the names the file must hold: those of the value being written
            let names_in_value: Vec<Vec<u8>> = index.header().map(|h| h.reference_sequence_names().iter().map(|n| n.to_vec()).collect()).unwrap_or_default();
            if via_tabix_indexer {
                // the name-based indexer replaces the header's names by the names it saw, in order
                let mut seen: Vec<Vec<u8>> = Vec::new();
                if let Source::Indexed { n_ref, recs, .. } = &c.source {
                    for r in sorted_syn(recs, *n_ref) {
                        let n = format!("sq{}", r.rid).into_bytes();
                        if !seen.contains(&n) {
                            seen.push(n);
                        }
                    }
                }
                if names_in_value != seen {
                    fails.push("c17.tabix.indexer-names", format!("tabix Indexer produced names {:?}, records named {:?}", names_in_value, seen));
                }
                if index.reference_sequences().len() != seen.len() {
                    fails.push("c17.tabix.indexer-names", format!("tabix Indexer produced {} reference sequences for {} names", index.reference_sequences().len(), seen.len()));
                }
            }
            let names_have_nul = names_in_value.iter().any(|n| n.contains(&0));
            let mut w = noodles_tabix::io::Writer::new(Vec::new());
            match w.write_index(&index) {
                Err(e) => {
                    if names_have_nul {
                        // a NUL cannot be represented in the NUL-terminated name list: rejection is right
                        return Ok(Pass::new(false, key_of(c)).label("tabix").label("nul-in-name-rejected"));
                    }
                    return fail1("c17.tabix.write-error", format!("tabix write_index: {e}"));
                }
                Ok(()) => {}
            }
            w.try_finish().map_err(|e| err1("c17.tabix.write-error", format!("try_finish: {e}")))?;
            let buf = w.into_inner().into_inner();
            let back = noodles_tabix::io::Reader::new(&buf[..]).read_index().map_err(|e| err1("c17.tabix.read-error", format!("tabix read_index of noodles' own output: {e}")))?;
            if back != index {
                let sig = if back.header() != index.header() { "c17.tabix.roundtrip.header" } else { "c17.tabix.roundtrip" };
                fails.push(sig, format!("tabix read back differs: wrote {} read {}", trunc(&format!("{index:?}"), 700), trunc(&format!("{back:?}"), 700)));
            }
            let payload = inflate_bgzf(&buf)?;
            match walk_tbi(&payload) {
                Ok(rawix) => {
                    compare_raw_refs(&mut fails, "tabix", &rawix, index.reference_sequences(), 5);
                    for (i, (rr, r)) in rawix.refs.iter().zip(index.reference_sequences()).enumerate() {
                        let lin: Vec<u64> = r.index().iter().map(|&v| u64::from(v)).collect();
                        if rr.linear.as_deref() != Some(&lin[..]) {
                            fails.push("c17.tabix.bytes.linear", format!("reference {i}: linear index in the file {:?} ≠ {:?}", rr.linear, lin));
                        }
                    }
                    if rawix.n_no_coor != index.unplaced_unmapped_record_count() {
                        fails.push("c17.tabix.bytes.n_no_coor", format!("n_no_coor in the file {:?}, index has {:?}", rawix.n_no_coor, index.unplaced_unmapped_record_count()));
                    }
                    let mut want = expected_raw_header(&c.header);
                    if via_tabix_indexer {
                        want.names_blob = names_in_value.iter().flat_map(|n| n.iter().copied().chain(std::iter::once(0u8))).collect();
                    }
                    if rawix.header.as_ref() != Some(&want) {
                        fails.push("c17.tabix.bytes.header", format!("header in the file {:?} ≠ expected {:?}", rawix.header, want));
                    }
                }
                Err(e) => fails.push("c17.tabix.bytes.malformed", e),
            }
            nontrivial = !c.header.names.is_empty() || index.reference_sequences().iter().any(|r| !r.bins().is_empty());
            if c.header.names.iter().any(|n| n.iter().any(|&b| b >= 0x80 || b < 0x20)) {
                labels.push("non-ascii-name");
            }
            if c.header.names.iter().any(|n| n.is_empty()) {
                labels.push("empty-name");
            }
            if names_have_nul {
                labels.push("nul-in-name-accepted");
            }
        }
        Kind::Csi { min_shift, depth, with_header } => {
            labels.push("csi");
            let (ms, d) = (*min_shift, *depth);
            let index = csi_index_of(c, ms, d, *with_header)?;
            let mut w = csi::io::Writer::new(Vec::new());
            match w.write_index(&index) {
                Err(e) => {
                    if *with_header && names_have_nul {
                        return Ok(Pass::new(false, key_of(c)).label("csi").label("nul-in-name-rejected"));
                    }
                    return fail1("c17.csi.write-error", format!("csi write_index: {e}"));
                }
                Ok(()) => {}
            }
            let buf = w.into_inner().finish().map_err(|e| err1("c17.csi.write-error", format!("finish: {e}")))?;
            let back = csi::io::Reader::new(&buf[..]).read_index().map_err(|e| err1("c17.csi.read-error", format!("csi read_index of noodles' own output: {e}")))?;

            // everything but the per-bin offsets must be equal
            if back.min_shift() != index.min_shift() || back.depth() != index.depth() {
                fails.push("c17.csi.roundtrip.geometry", format!("geometry ({},{}) read back as ({},{})", index.min_shift(), index.depth(), back.min_shift(), back.depth()));
            }
            if back.header() != index.header() {
                fails.push("c17.csi.roundtrip.header", format!("header {:?} read back as {:?}", index.header(), back.header()));
            }
            if back.unplaced_unmapped_record_count() != index.unplaced_unmapped_record_count() {
                fails.push("c17.csi.roundtrip.n_no_coor", format!("unplaced count {:?} read back as {:?}", index.unplaced_unmapped_record_count(), back.unplaced_unmapped_record_count()));
            }
            let n_ref = index.reference_sequences().len();
            if back.reference_sequences().len() != n_ref {
                fails.push("c17.csi.roundtrip.n_ref", format!("{} references read back as {}", n_ref, back.reference_sequences().len()));
            } else {
                let mut loffset_changed = false;
                for (i, (a, b)) in index.reference_sequences().iter().zip(back.reference_sequences()).enumerate() {
                    if a.bins() != b.bins() {
                        fails.push("c17.csi.roundtrip.bins", format!("reference {i}: bins {} read back as {}", trunc(&format!("{:?}", a.bins()), 500), trunc(&format!("{:?}", b.bins()), 500)));
                    }
                    if a.metadata() != b.metadata() {
                        fails.push("c17.csi.roundtrip.metadata", format!("reference {i}: metadata {:?} read back as {:?}", a.metadata(), b.metadata()));
                    }
                    // offsets: same key set as the bins; value never larger than what was held in memory
                    let keys_a: std::collections::BTreeSet<usize> = a.bins().keys().copied().collect();
                    let keys_b: std::collections::BTreeSet<usize> = b.index().keys().copied().collect();
                    if keys_a != keys_b {
                        fails.push("c17.csi.roundtrip.loffset-keys", format!("reference {i}: per-bin offsets read back for bins {keys_b:?}, bins are {keys_a:?}"));
                    }
                    for (id, v) in b.index() {
                        match a.index().get(id) {
                            Some(orig) if v > orig => {
                                fails.push("c17.csi.roundtrip.loffset-increased", format!("reference {i} bin {id}: loffset {} read back as the larger {}", u64::from(*orig), u64::from(*v)));
                            }
                            Some(orig) if v != orig => loffset_changed = true,
                            _ => {}
                        }
                    }
                }
                let descending = matches!(c.source, Source::Descending { .. });
                if loffset_changed {
                    labels.push("loffset-rewritten");
                    if descending {
                        // no bin has an ancestor with a smaller offset here: nothing justifies a rewrite
                        fails.push(
                            "c17.csi.roundtrip.loffset",
                            format!(
                                "per-bin offsets change across write→read although no ancestor holds a smaller offset: wrote {} read {}",
                                trunc(&format!("{:?}", index.reference_sequences().iter().map(|r| r.index().clone()).collect::<Vec<_>>()), 400),
                                trunc(&format!("{:?}", back.reference_sequences().iter().map(|r| r.index().clone()).collect::<Vec<_>>()), 400)
                            ),
                        );
                    }
                } else if fails.is_empty() && back != index {
                    fails.push("c17.csi.roundtrip", "CSI read back differs although every compared part is equal".to_string());
                }

                // query battery: same answers, or (offsets rewritten) at least no lost coverage
                // (a query allocates one bit per bin of the geometry: keep the battery to depth ≤ 6)
                let battery: &[(u8, Option<u64>, Option<u64>)] = if d <= 6 { &c.battery } else { &[] };
                let qa = battery_answers(&index, n_ref, battery);
                let qb = battery_answers(&back, n_ref, battery);
                for (k, (x, y)) in qa.iter().zip(&qb).enumerate() {
                    match (x, y) {
                        (Ok(x), Ok(y)) => {
                            if x != y {
                                if !covers(&coverage(y), &coverage(x)) {
                                    fails.push("c17.csi.roundtrip.query-lost-coverage", format!("battery {:?}: answer {x:?} before, {y:?} after write→read", c.battery[k]));
                                } else if loffset_changed {
                                    fails.push("c17.csi.roundtrip.query-differs.loffset-rewritten", format!("battery {:?}: answer {x:?} before, {y:?} after write→read", c.battery[k]));
                                } else {
                                    fails.push("c17.csi.roundtrip.query-differs", format!("battery {:?}: answer {x:?} before, {y:?} after write→read", c.battery[k]));
                                }
                            }
                        }
                        (Err(x), Err(y)) if x == y => {}
                        _ => fails.push("c17.csi.roundtrip.query-error-differs", format!("battery {:?}: {x:?} before, {y:?} after", c.battery[k])),
                    }
                }
                if !battery.is_empty() && n_ref > 0 {
                    labels.push("battery-run");
                }

                // second generation must be a fixpoint
                let mut w2 = csi::io::Writer::new(Vec::new());
                if w2.write_index(&back).is_ok() {
                    if let Ok(buf2) = w2.into_inner().finish() {
                        match csi::io::Reader::new(&buf2[..]).read_index() {
                            Ok(back2) => {
                                if back2 != back {
                                    fails.push("c17.csi.roundtrip.second-generation", format!("read(write(read(write(I)))) ≠ read(write(I)): {} vs {}", trunc(&format!("{back:?}"), 500), trunc(&format!("{back2:?}"), 500)));
                                }
                            }
                            Err(e) => fails.push("c17.csi.read-error", format!("second generation read: {e}")),
                        }
                    }
                }
            }

            let payload = inflate_bgzf(&buf)?;
            match walk_csi(&payload) {
                Ok(rawix) => {
                    if rawix.min_shift != Some(ms as i32) || rawix.depth != Some(d as i32) {
                        fails.push("c17.csi.bytes.geometry", format!("file says ({:?},{:?}), index is ({ms},{d})", rawix.min_shift, rawix.depth));
                    }
                    compare_raw_refs(&mut fails, "csi", &rawix, index.reference_sequences(), d);
                    if rawix.n_no_coor != index.unplaced_unmapped_record_count() {
                        fails.push("c17.csi.bytes.n_no_coor", format!("n_no_coor in the file {:?}, index has {:?}", rawix.n_no_coor, index.unplaced_unmapped_record_count()));
                    }
                    let want = if *with_header { Some(expected_raw_header(&c.header)) } else { None };
                    if rawix.header != want {
                        fails.push("c17.csi.bytes.header", format!("aux header in the file {:?} ≠ expected {:?}", rawix.header, want));
                    }
                    // a written loffset must never exceed the bin's own first chunk start when the index
                    // came from the indexer (it would prune the bin's own records)
                    if matches!(c.source, Source::Indexed { .. }) {
                        for (i, rr) in rawix.refs.iter().enumerate() {
                            for b in &rr.bins {
                                if b.id as u64 >= binning::n_bins(d as u32) {
                                    continue;
                                }
                                if let (Some(l), Some(first)) = (b.loffset, b.chunks.first()) {
                                    if l > first.0 {
                                        fails.push("c17.csi.bytes.loffset-after-first-chunk", format!("reference {i} bin {}: loffset {l} > start of its first chunk {}", b.id, first.0));
                                    }
                                }
                            }
                        }
                    }
                }
                Err(e) => fails.push("c17.csi.bytes.malformed", e),
            }
            nontrivial = index.reference_sequences().iter().any(|r| !r.bins().is_empty());
            if index.reference_sequences().iter().any(|r| r.metadata().is_some()) {
                labels.push("metadata-bin");
            }
            if (ms, d) != (14, 5) {
                labels.push("non-default-geometry");
            }
            if *with_header {
                labels.push("csi-with-aux-header");
            }
        }
    }
    if c.n_no_coor.is_none() && !matches!(c.source, Source::Indexed { .. }) {
        labels.push("no-n_no_coor");
    }
    let mut p = Pass::new(nontrivial, key_of(c));
    for l in labels {
        p = p.label(l);
    }
    fails.finish(p)
}

// ------------------------------------------------------------------------------------------------
// (c') gzi / fai / crai
// ------------------------------------------------------------------------------------------------

#[derive(Clone, Debug, Serialize, Deserialize)]
pub enum FlatCase {
    Gzi(Vec<(u64, u64)>),
    /// (name, length, offset, line_bases ≥ 1, line_width ≥ 1)
    Fai(Vec<(String, u64, u64, u64, u64)>),
    /// (reference id or None, start (0 = missing), span, offset, landmark, slice length)
    Crai(Vec<(Option<u32>, u64, u64, u64, u64, u64)>),
}

fn big_u64() -> BoxedStrategy<u64> {
    prop_oneof![3 => 0u64..100_000, 1 => any::<u64>(), 1 => Just(u64::MAX), 1 => Just(0u64), 1 => (0u32..64).prop_map(|k| 1u64 << k)].boxed()
}

fn flat_strategy(_tier: Tier) -> BoxedStrategy<FlatCase> {
    let gzi = prop_oneof![
        3 => proptest::collection::vec((1u64..70_000, 1u64..65_537), 0..12).prop_map(|v| {
            let (mut c, mut u) = (0u64, 0u64);
            v.into_iter().map(|(dc, du)| { c += dc; u += du; (c, u) }).collect()
        }),
        1 => proptest::collection::vec((big_u64(), big_u64()), 0..8),
    ]
    .prop_map(FlatCase::Gzi);
    // FASTA names: non-empty, no whitespace; the fai reader is line/tab based
    let name = prop_oneof![4 => "[!-~]{1,16}", 1 => "[a-zA-Z0-9_.|:*-]{1,40}", 1 => "[!-~¡-ÿĀ-ſ一-丐]{1,8}"];
    let fai = proptest::collection::vec((name, big_u64(), big_u64(), prop_oneof![1u64..200, big_u64().prop_map(|x| x.max(1))], prop_oneof![1u64..202, big_u64().prop_map(|x| x.max(1))]), 0..8).prop_map(FlatCase::Fai);
    let crai = proptest::collection::vec(
        (
            proptest::option::weighted(0.8, prop_oneof![3 => 0u32..30, 1 => Just(i32::MAX as u32), 1 => 0u32..=(i32::MAX as u32)]),
            prop_oneof![1 => Just(0u64), 4 => 1u64..300_000_000, 1 => Just((1u64 << 31) - 1), 1 => big_u64().prop_map(|x| x.min(usize::MAX as u64))],
            prop_oneof![3 => 0u64..100_000, 1 => big_u64().prop_map(|x| x.min(usize::MAX as u64))],
            big_u64(),
            big_u64(),
            big_u64(),
        ),
        0..10,
    )
    .prop_map(FlatCase::Crai);
    prop_oneof![gzi, fai, crai].boxed()
}

fn check_flat(c: &FlatCase) -> Verdict {
    match c {
        FlatCase::Gzi(v) => {
            let index = bgzf::gzi::Index::from(v.clone());
            let mut buf = Vec::new();
            bgzf::gzi::io::Writer::new(&mut buf).write_index(&index).map_err(|e| err1("c17.gzi.write-error", format!("{e}")))?;
            // independent layout check: u64 count, then (compressed, uncompressed) pairs, little endian
            let mut want = Vec::new();
            want.extend_from_slice(&(v.len() as u64).to_le_bytes());
            for (a, b) in v {
                want.extend_from_slice(&a.to_le_bytes());
                want.extend_from_slice(&b.to_le_bytes());
            }
            ensure!(buf == want, "c17.gzi.bytes", "gzi bytes differ from the bgzip -i layout: {:?} vs {:?}", trunc(&format!("{buf:?}"), 300), trunc(&format!("{want:?}"), 300));
            let back = bgzf::gzi::io::Reader::new(&buf[..]).read_index().map_err(|e| err1("c17.gzi.read-error", format!("{e}")))?;
            ensure_eq!(back, index, "c17.gzi.roundtrip", "gzi index");
            Ok(Pass::new(!v.is_empty(), key_of(c)).label("gzi").label_if(v.is_empty(), "gzi-empty"))
        }
        FlatCase::Fai(v) => {
            use std::num::NonZero;
            let records: Vec<noodles_fasta::fai::Record> = v
                .iter()
                .map(|(n, len, off, lb, lw)| noodles_fasta::fai::Record::new(n.as_bytes().to_vec(), *len, *off, NonZero::new((*lb).max(1)).unwrap_or(NonZero::<u64>::MIN), NonZero::new((*lw).max(1)).unwrap_or(NonZero::<u64>::MIN)))
                .collect();
            let index = noodles_fasta::fai::Index::from(records);
            let mut buf = Vec::new();
            noodles_fasta::fai::io::Writer::new(&mut buf).write_index(&index).map_err(|e| err1("c17.fai.write-error", format!("{e}")))?;
            let mut want = Vec::new();
            for (n, len, off, lb, lw) in v {
                want.extend_from_slice(format!("{n}\t{len}\t{off}\t{}\t{}\n", (*lb).max(1), (*lw).max(1)).as_bytes());
            }
            ensure!(buf == want, "c17.fai.bytes", "fai text differs from NAME\\tLENGTH\\tOFFSET\\tLINEBASES\\tLINEWIDTH: {:?} vs {:?}", String::from_utf8_lossy(&buf), String::from_utf8_lossy(&want));
            let back = noodles_fasta::fai::io::Reader::new(&buf[..]).read_index().map_err(|e| err1("c17.fai.read-error", format!("{e}")))?;
            ensure_eq!(back, index, "c17.fai.roundtrip", "fai index");
            Ok(Pass::new(!v.is_empty(), key_of(c)).label("fai").label_if(v.iter().any(|r| !r.0.is_ascii()), "fai-non-ascii-name"))
        }
        FlatCase::Crai(v) => {
            let records: Vec<noodles_cram::crai::Record> = v
                .iter()
                .map(|(rid, start, span, off, lm, sl)| noodles_cram::crai::Record::new(rid.map(|x| x as usize), Position::new(*start as usize), *span as usize, *off, *lm, *sl))
                .collect();
            let mut w = noodles_cram::crai::io::Writer::new(Vec::new());
            w.write_index(&records).map_err(|e| err1("c17.crai.write-error", format!("{e}")))?;
            let buf = w.finish().map_err(|e| err1("c17.crai.write-error", format!("finish: {e}")))?;
            // independent: gunzip, six tab-separated decimal columns in the order of the CRAM spec §12:
            // seq id, alignment start, alignment span, container offset, slice offset, slice size
            let mut text = String::new();
            {
                use std::io::Read;
                let mut dec = flate2::read::MultiGzDecoder::new(&buf[..]);
                dec.read_to_string(&mut text).map_err(|e| err1("c17.crai.bytes", format!("crai output is not gzip text: {e}")))?;
            }
            let mut want = String::new();
            for (rid, start, span, off, lm, sl) in v {
                let id: i64 = rid.map(|x| x as i64).unwrap_or(-1);
                want.push_str(&format!("{id}\t{start}\t{span}\t{off}\t{lm}\t{sl}\n"));
            }
            ensure!(text == want, "c17.crai.bytes", "crai text {:?} ≠ expected {:?}", trunc(&text, 400), trunc(&want, 400));
            let mut fails = Fails::new();
            match noodles_cram::crai::io::Reader::new(&buf[..]).read_index() {
                Ok(back) => {
                    if back != records {
                        fails.push("c17.crai.roundtrip", format!("crai read_index gives {} for {}", trunc(&format!("{back:?}"), 500), trunc(&format!("{records:?}"), 500)));
                    }
                }
                Err(e) => {
                    let sig = if records.len() >= 2 { "c17.crai.read_index.multi-record" } else { "c17.crai.read-error" };
                    fails.push(sig, format!("crai read_index rejects noodles' own output of {} records: {e}", records.len()));
                }
            }
            // the record-at-a-time path
            {
                let mut r = noodles_cram::crai::io::Reader::new(&buf[..]);
                let mut back = Vec::new();
                let mut rec = noodles_cram::crai::Record::default();
                loop {
                    match r.read_record(&mut rec) {
                        Ok(0) => break,
                        Ok(_) => back.push(rec.clone()),
                        Err(e) => {
                            fails.push("c17.crai.read_record-error", format!("crai read_record after {} records: {e}", back.len()));
                            break;
                        }
                    }
                }
                if fails.0.iter().all(|f| f.sig != "c17.crai.read_record-error") && back != records {
                    fails.push("c17.crai.roundtrip.read_record", format!("crai read_record sequence gives {} for {}", trunc(&format!("{back:?}"), 500), trunc(&format!("{records:?}"), 500)));
                }
            }
            fails.finish(Pass::new(!v.is_empty(), key_of(c)).label("crai").label_if(v.iter().any(|r| r.0.is_none()), "crai-unmapped-entry").label_if(v.iter().any(|r| r.1 == 0), "crai-missing-start").label_if(v.len() >= 2, "crai-multi-record"))
        }
    }
}

pub fn property() -> Property {
    Property {
        id: "C17",
        level: "exploration",
        rule: "all feature/region interval pairs of the small geometries (exhaustive, M_b[e] reformulation); edge-dense sampled pairs at the large geometries through Indexer+query; generated chunk lists × min_offset; arbitrary structurally valid and indexer-built BAI/CSI/tabix/gzi/fai/crai indexes",
        assumptions: vec![
            "oracle::binning (transcription of the CSI/SAM specification routines, cross-checked against a definition-based formulation) is correct".into(),
            "the harness's byte-level walkers encode the BAI/tabix/CSI layouts of the specifications correctly".into(),
            "miniz_oxide/crc32fast (BGZF walker) and flate2 (crai gunzip) are correct".into(),
            "the verif hook re-exports reg2bin/reg2bins unchanged (the sampled public-path sub-check does not rely on it)".into(),
        ],
        subs: vec![
            EnumSub {
                name: "containment",
                rule: "every region [s,e] of the geometry × every bin b: if some feature of bin b (per noodles' reg2bin) intersects the region then reg2bins lists b; every interval's reg2bin equals the specification routine; one evaluation = one (region, bin) bit test or one reg2bin comparison",
                run: run_containment,
                replay: replay_pair,
                shards: (16, 16),
                opts: SubOpts { exhaustive: true, ..SubOpts::default() },
            }
            .boxed(),
            sub("pairs_public", "intersecting (feature, region) pairs, edge-dense, five geometries; every pair evaluated on a BinnedIndex and a LinearIndex; all non-trivial", pub_pairs_strategy, check_pub_pairs, 60_000, 1_200_000).boxed(),
            sub("chunks", "non-trivial = ≥2 chunks with an overlapping, touching or nested pair", chunks_strategy, check_chunks, 300_000, 4_000_000).boxed(),
            sub("rt_binning", "non-trivial = at least one reference with a bin (tabix: or a name)", rt_strategy, check_rt, 300_000, 3_000_000).boxed(),
            sub("rt_flat", "non-trivial = non-empty index", flat_strategy, check_flat, 100_000, 1_500_000).boxed(),
        ],
        max_parallel: 16,
    }
}
