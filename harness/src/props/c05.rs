//! C05 — BAM record encode/decode are inverse; reject-not-wrap; the stored bin is the spec's
//! `reg2bin`; >65 535 CIGAR ops travel through the `CG` convention; the lazy field views of a raw
//! record agree with its eager decode.

use crate::engine::*;
use crate::r#gen::aln::{self, AlnDoc, AlnHeader, AlnRecord, AuxValue, B, CigarSpec, HeaderParams, Mode, Norm, QualSpec, SeqSpec, Tag, Target};
use crate::ensure_eq;
use crate::oracle::{bam_raw, bgzf_walk};
use noodles_bam as bam;
use noodles_sam as sam;
use proptest::prelude::*;
use sam::alignment::RecordBuf;
use sam::alignment::io::Write as _;
use serde::{Deserialize, Serialize};

fn f(sig: &str, msg: impl Into<String>) -> Vec<Fail> {
    vec![Fail::new(sig, msg)]
}

// ---------------------------------------------------------------------------------------------
// shared pieces (also used by C06)
// ---------------------------------------------------------------------------------------------

/// Write `header` and `records` through `bam::io::Writer::new` (BGZF). Every record must be accepted.
pub fn write_bam(header: &sam::Header, records: &[RecordBuf], sig_prefix: &str) -> Result<Vec<u8>, Vec<Fail>> {
    let mut w = bam::io::Writer::new(Vec::new());
    w.write_header(header).map_err(|e| f(&format!("{sig_prefix}.header-rejected"), format!("BAM write_header: {e}")))?;
    for (i, r) in records.iter().enumerate() {
        w.write_alignment_record(header, r).map_err(|e| f(&format!("{sig_prefix}.valid-rejected"), format!("BAM writer rejects valid record #{i}: {e} ({:?})", describe_err(&e))))?;
    }
    w.try_finish().map_err(|e| f(&format!("{sig_prefix}.finish-error"), format!("BAM try_finish: {e}")))?;
    Ok(w.into_inner().into_inner())
}

fn describe_err(e: &std::io::Error) -> String {
    let mut s = format!("{e}");
    let mut src = std::error::Error::source(e);
    while let Some(x) = src {
        s.push_str(&format!(" <- {x}"));
        src = x.source();
    }
    s
}

/// Read header and all records eagerly, re-using one `RecordBuf` (as callers do).
pub fn read_bam_eager(bytes: &[u8], sig_prefix: &str) -> Result<(sam::Header, Vec<AlnRecord>), Vec<Fail>> {
    let mut r = bam::io::Reader::new(bytes);
    let h = r.read_header().map_err(|e| f(&format!("{sig_prefix}.read-header-error"), format!("BAM read_header: {}", describe_err(&e))))?;
    let mut rec = RecordBuf::default();
    let mut out = Vec::new();
    loop {
        match r.read_record_buf(&h, &mut rec) {
            Ok(0) => break,
            Ok(_) => out.push(AlnRecord::from_noodles(&rec)),
            Err(e) => return Err(f(&format!("{sig_prefix}.read-error"), format!("BAM read_record_buf #{}: {}", out.len(), describe_err(&e)))),
        }
    }
    Ok((h, out))
}

/// Push one failure per differing field, `"<prefix>.<field>"`; aux differences that are only a
/// matter of order get `"<prefix>.aux-order"`.
pub fn push_record_diffs(fails: &mut Fails, prefix: &str, what: &str, got: &AlnRecord, want: &AlnRecord) {
    for (field, msg) in got.diff(want) {
        let mut sig = format!("{prefix}.{field}");
        if field == "aux" {
            let (mut a, mut b) = (got.aux.clone(), want.aux.clone());
            a.sort_by_key(|x| x.0);
            b.sort_by_key(|x| x.0);
            if a == b {
                sig = format!("{prefix}.aux-order");
            }
        }
        fails.push(sig, format!("{what}: {field}: got {msg} (got vs want)"));
    }
}

// ---------------------------------------------------------------------------------------------
// oracle pieces
// ---------------------------------------------------------------------------------------------

/// Compare the raw record (independent decode) with the model. `want` is explicit and unfolded.
fn check_raw(fails: &mut Fails, path: &str, i: usize, want: &AlnRecord, raw: &bam_raw::RawRecord) -> Option<i64> {
    let what = format!("raw record #{i}{path}");
    let mut overflow = false;
    macro_rules! eq {
        ($sig:expr, $got:expr, $want:expr, $name:expr) => {{
            let (g, w) = (&$got, &$want);
            if g != w {
                fails.push($sig, format!("{what}: {} = {} but the record has {}", $name, trunc(&format!("{:?}", g), 300), trunc(&format!("{:?}", w), 300)));
            }
        }};
    }
    eq!("c05.raw.ref-id", raw.ref_id as i64, want.ref_id.map(|x| x as i64).unwrap_or(-1), "refID");
    eq!("c05.raw.pos", raw.pos as i64, want.pos.map(|x| x as i64 - 1).unwrap_or(-1), "pos");
    eq!("c05.raw.mapq", raw.mapq, want.mapq.unwrap_or(255), "mapq");
    eq!("c05.raw.flag", raw.flag, want.flags, "flag");
    eq!("c05.raw.next-ref-id", raw.next_ref_id as i64, want.mate_ref_id.map(|x| x as i64).unwrap_or(-1), "next_refID");
    eq!("c05.raw.next-pos", raw.next_pos as i64, want.mate_pos.map(|x| x as i64 - 1).unwrap_or(-1), "next_pos");
    eq!("c05.raw.tlen", raw.tlen, want.tlen, "tlen");
    match raw.name() {
        Ok(n) => {
            eq!("c05.raw.name", n.map(B), want.name.clone(), "read_name");
        }
        Err(e) => fails.push("c05.raw.name", format!("{what}: {e} (l_read_name={}, bytes {:?})", raw.l_read_name, B(raw.read_name.clone()))),
    }
    let bases = want.bases();
    let folded: Vec<u8> = bases.iter().map(|b| aln::fold_base(*b)).collect();
    eq!("c05.raw.l-seq", raw.l_seq as usize, bases.len(), "l_seq");
    if raw.l_seq as usize == bases.len() {
        eq!("c05.raw.seq", B(raw.bases()), B(folded), "seq (unpacked, high nibble first)");
    }
    let quals = want.quals();
    if quals.is_empty() {
        if !raw.qual.iter().all(|q| *q == 0xff) {
            fails.push("c05.raw.qual", format!("{what}: qualities are missing but qual is not all 0xFF: {:?}", trunc(&format!("{:?}", raw.qual), 200)));
        }
    } else {
        eq!("c05.raw.qual", raw.qual, quals, "qual");
    }
    // CIGAR (c)
    let ops = want.cigar_ops();
    let cg = raw.aux_by_tag(b"CG");
    match raw.cigar_ops() {
        Err(e) => fails.push("c05.raw.cigar", format!("{what}: {e}")),
        Ok(raw_ops) => {
            if ops.len() <= 65535 {
                eq!("c05.raw.n-cigar-op", raw.n_cigar_op as usize, ops.len(), "n_cigar_op");
                eq!("c05.raw.cigar", raw_ops, ops, "cigar");
                if !cg.is_empty() {
                    fails.push("c05.raw.cg-unexpected", format!("{what}: a CG field is present although the CIGAR has {} ops", ops.len()));
                }
            } else {
                overflow = true;
                let placeholder = vec![(4u8, bases.len() as u64), (3u8, want.ref_span())];
                if raw_ops != placeholder {
                    fails.push("c05.raw.cg-placeholder", format!("{what}: {} ops: stored CIGAR is {:?}, the specification prescribes kSmN = {:?}", ops.len(), trunc(&format!("{raw_ops:?}"), 200), placeholder));
                }
                let words: Vec<i64> = ops.iter().map(|(k, l)| ((l << 4) | *k as u64) as i64).collect();
                if cg.len() != 1 {
                    fails.push("c05.raw.cg-field", format!("{what}: {} ops: {} CG fields in the raw record", ops.len(), cg.len()));
                } else {
                    let a = cg[0];
                    if a.ty != b'B' || a.subtype != Some(b'I') {
                        fails.push("c05.raw.cg-field", format!("{what}: CG has type {}:{:?}, want B:I", a.ty as char, a.subtype.map(|c| c as char)));
                    } else if a.count != Some(ops.len() as u32) || a.value != bam_raw::RawAuxValue::IntArray(words) {
                        fails.push("c05.raw.cg-field", format!("{what}: CG array (count {:?}) does not hold the {} real operations", a.count, ops.len()));
                    }
                }
            }
        }
    }
    // aux, CG aside
    let got: Vec<(Tag, String)> = raw.aux.iter().filter(|a| &a.tag != b"CG" || !overflow).map(|a| (Tag(a.tag), raw_aux_canonical(a))).collect();
    let wanted: Vec<(Tag, String)> = want.aux.iter().map(|(t, v)| (*t, v.canonical())).collect();
    if got != wanted {
        let (mut a, mut b) = (got.clone(), wanted.clone());
        a.sort();
        b.sort();
        let sig = if a == b { "c05.raw.aux-order" } else { "c05.raw.aux" };
        fails.push(sig, format!("{what}: aux fields {} but the record has {}", trunc(&format!("{got:?}"), 400), trunc(&format!("{wanted:?}"), 400)));
    }
    // bin (d): asserted where the specification is unambiguous
    let span = want.ref_span();
    let unmapped_flag = want.flags & 4 != 0;
    let expected_bin = match want.pos {
        None => {
            if unmapped_flag || span <= 1 {
                Some(4680i64)
            } else {
                None
            }
        }
        Some(p) => {
            let pos0 = p as i64 - 1;
            let end0 = pos0 + span.max(1) as i64;
            if end0 <= 1 << 29 && (!unmapped_flag || span <= 1) { Some(bam_raw::record_bin(pos0, span)) } else { None }
        }
    };
    if let Some(b) = expected_bin {
        if raw.bin as i64 != b {
            fails.push("c05.raw.bin", format!("{what}: bin = {} but reg2bin({:?}-1, +max(1,{span})) = {b}", raw.bin, want.pos));
        }
    }
    expected_bin
}

/// Same rendering as `AuxValue::canonical`, from the independently decoded raw field.
fn raw_aux_canonical(a: &bam_raw::RawAux) -> String {
    use bam_raw::RawAuxValue as V;
    match (&a.value, a.ty) {
        (V::Int(n), b'A') => AuxValue::Char(*n as u8).canonical(),
        (V::Int(n), t) => format!("{}:{n}", t as char),
        (V::Float(b), _) => format!("f:0x{b:08x}"),
        (V::Text(s), t) => format!("{}:{}", t as char, s.escape_ascii()),
        (V::IntArray(v), _) => {
            let mut s = format!("B:{}", a.subtype.unwrap_or(b'?') as char);
            for x in v {
                s.push_str(&format!(",{x}"));
            }
            s
        }
        (V::FloatArray(v), _) => {
            let mut s = "B:f".to_string();
            for b in v {
                s.push_str(&format!(",0x{b:08x}"));
            }
            s
        }
    }
}

fn flat<T>(fails: &mut Fails, what: &str, field: &str, x: Option<std::io::Result<T>>) -> Option<Option<T>> {
    match x {
        None => Some(None),
        Some(Ok(v)) => Some(Some(v)),
        Some(Err(e)) => {
            fails.push(format!("c05.lazy.error.{field}"), format!("{what}: lazy {field} returns Err({e}) on a record the eager decoder accepts"));
            None
        }
    }
}

/// (e): every accessor of the lazy record against the eager decode `e` of the same bytes.
fn check_lazy(fails: &mut Fails, i: usize, header: &sam::Header, lazy: &bam::Record, e: &AlnRecord, mid_sel: u16, reused: &mut RecordBuf) {
    let what = format!("record #{i}");
    macro_rules! eq {
        ($field:expr, $got:expr, $want:expr) => {{
            let (g, w) = (&$got, &$want);
            if g != w {
                fails.push(format!("c05.lazy.{}", $field), format!("{what}: lazy {} = {} but eager decode = {}", $field, trunc(&format!("{:?}", g), 300), trunc(&format!("{:?}", w), 300)));
            }
        }};
    }
    if let Some(v) = flat(fails, &what, "reference_sequence_id", lazy.reference_sequence_id()) {
        eq!("reference_sequence_id", v.map(|x| x as u64), e.ref_id);
    }
    if let Some(v) = flat(fails, &what, "alignment_start", lazy.alignment_start()) {
        eq!("alignment_start", v.map(|p| p.get() as u64), e.pos);
    }
    eq!("mapping_quality", lazy.mapping_quality().map(u8::from), e.mapq);
    eq!("flags", u16::from(lazy.flags()), e.flags);
    if let Some(v) = flat(fails, &what, "mate_reference_sequence_id", lazy.mate_reference_sequence_id()) {
        eq!("mate_reference_sequence_id", v.map(|x| x as u64), e.mate_ref_id);
    }
    if let Some(v) = flat(fails, &what, "mate_alignment_start", lazy.mate_alignment_start()) {
        eq!("mate_alignment_start", v.map(|p| p.get() as u64), e.mate_pos);
    }
    eq!("template_length", lazy.template_length(), e.tlen);
    eq!("name", lazy.name().map(|n| B(n.to_vec())), e.name);
    // CIGAR
    let eops = e.cigar_ops();
    let cigar = lazy.cigar();
    match cigar.iter().collect::<std::io::Result<Vec<_>>>() {
        Ok(ops) => {
            let ops: Vec<(u8, u64)> = ops.iter().map(|op| (aln::code_of(op.kind()), op.len() as u64)).collect();
            eq!("cigar", ops, eops);
        }
        Err(err) => fails.push("c05.lazy.error.cigar", format!("{what}: lazy cigar iteration fails: {err}")),
    }
    eq!("cigar.len", cigar.len(), eops.len());
    eq!("cigar.is_empty", cigar.is_empty(), eops.is_empty());
    // sequence
    let ebases = e.bases();
    let seq = lazy.sequence();
    eq!("sequence.len", seq.len(), ebases.len());
    eq!("sequence.is_empty", seq.is_empty(), ebases.is_empty());
    eq!("sequence.iter", B(seq.iter().collect()), B(ebases.clone()));
    eq!("sequence.iter.len", seq.iter().len(), ebases.len());
    eq!("sequence.iter.rev", B(seq.iter().rev().collect()), B(ebases.iter().rev().copied().collect()));
    let n = ebases.len();
    let probe: Vec<usize> = if n <= 400 { (0..n).collect() } else { (0..200).chain(n - 200..n).collect() };
    for &k in &probe {
        if seq.get(k) != Some(ebases[k]) {
            fails.push("c05.lazy.sequence.get", format!("{what}: lazy sequence.get({k}) = {:?}, eager base = {:?} (l_seq {n})", seq.get(k).map(|b| b as char), ebases[k] as char));
            break;
        }
    }
    eq!("sequence.get-past-end", seq.get(n), None::<u8>);
    let mid = pick_idx(mid_sel, n + 1);
    match seq.split_at_checked(mid) {
        None => fails.push("c05.lazy.sequence.split", format!("{what}: split_at_checked({mid}) is None for l_seq {n}")),
        Some((l, r)) => {
            eq!("subsequence.len", (l.len(), r.len()), (mid, n - mid));
            let lg: Vec<u8> = (0..l.len()).filter_map(|k| l.get(k)).collect();
            let rg: Vec<u8> = (0..r.len()).filter_map(|k| r.get(k)).collect();
            eq!("subsequence.get", (B(lg), B(rg)), (B(ebases[..mid].to_vec()), B(ebases[mid..].to_vec())));
        }
    }
    if seq.split_at_checked(n + 1).is_some() {
        fails.push("c05.lazy.sequence.split", format!("{what}: split_at_checked({}) is Some for l_seq {n}", n + 1));
    }
    // qualities
    let equals = e.quals();
    let q = lazy.quality_scores();
    eq!("quality_scores.len", q.len(), equals.len());
    eq!("quality_scores.is_empty", q.is_empty(), equals.is_empty());
    eq!("quality_scores.iter", q.iter().collect::<Vec<u8>>(), equals);
    eq!("quality_scores.as_bytes", q.as_bytes().to_vec(), equals);
    // data
    let data = lazy.data();
    let mut got = Vec::new();
    let mut data_ok = true;
    for r in data.iter() {
        match r.and_then(|(t, v)| AuxValue::from_lazy(&v).map(|v| (Tag(*AsRef::<[u8; 2]>::as_ref(&t)), v))) {
            Ok(x) => got.push(x),
            Err(err) => {
                fails.push("c05.lazy.error.data", format!("{what}: lazy data iteration fails: {err}"));
                data_ok = false;
                break;
            }
        }
    }
    if data_ok {
        if got != e.aux {
            let extra_cg = got.iter().any(|(t, _)| &t.0 == b"CG") && !e.aux.iter().any(|(t, _)| &t.0 == b"CG");
            let without: Vec<_> = got.iter().filter(|(t, _)| &t.0 != b"CG").cloned().collect();
            if extra_cg && without == e.aux {
                fails.push("c05.lazy.data.cg-visible", format!("{what}: lazy data() still lists the CG field ({} ops) that the eager decoder consumes while restoring the CIGAR", eops.len()));
            } else {
                fails.push("c05.lazy.data", format!("{what}: lazy data = {} but eager decode = {}", trunc(&format!("{got:?}"), 400), trunc(&format!("{:?}", e.aux), 400)));
            }
        }
        eq!("data.is_empty", data.is_empty(), got.is_empty());
        for (t, v) in &e.aux {
            match data.get(&t.0) {
                Some(Ok(l)) => match AuxValue::from_lazy(&l) {
                    Ok(l) => {
                        if &l != v {
                            fails.push("c05.lazy.data.get", format!("{what}: lazy data.get({t:?}) = {l:?}, eager = {v:?}"));
                        }
                    }
                    Err(err) => fails.push("c05.lazy.error.data", format!("{what}: lazy data.get({t:?}) array iteration fails: {err}")),
                },
                other => fails.push("c05.lazy.data.get", format!("{what}: lazy data.get({t:?}) = {:?}, eager = {v:?}", other.map(|r| r.map(|_| "value")))),
            }
        }
        if !e.aux.iter().any(|(t, _)| &t.0 == b"zz") && !got.iter().any(|(t, _)| &t.0 == b"zz") && data.get(b"zz").is_some() {
            fails.push("c05.lazy.data.get", format!("{what}: lazy data.get(zz) finds a field that does not exist"));
        }
    }
    // derived values through the alignment-record trait
    let eager_buf = e.to_noodles();
    if let Ok(eb) = &eager_buf {
        use sam::alignment::Record as _;
        if let Some(v) = flat(fails, &what, "alignment_end", sam::alignment::Record::alignment_end(lazy)) {
            eq!("alignment_end", v.map(|p| p.get()), eb.alignment_end().map(|p| p.get()));
        }
        if let Some(v) = flat(fails, &what, "alignment_span", lazy.alignment_span()) {
            eq!("alignment_span", v, eb.alignment_span());
        }
    }
    // conversion
    match RecordBuf::try_from_alignment_record(header, lazy) {
        Ok(conv) => {
            let conv = AlnRecord::from_noodles(&conv);
            let cg_only = {
                let mut c = conv.clone();
                c.aux.retain(|(t, _)| &t.0 != b"CG");
                c.diff(e).is_empty() && conv.aux.len() != e.aux.len()
            };
            if cg_only {
                fails.push("c05.lazy.convert.cg-visible", format!("{what}: RecordBuf::try_from_alignment_record keeps the CG field ({} ops) that the eager decoder consumes", eops.len()));
            } else {
                for (field, msg) in conv.diff(e) {
                    fails.push(format!("c05.lazy.convert.{field}"), format!("{what}: try_from_alignment_record vs eager: {field}: {msg}"));
                }
            }
        }
        Err(err) => fails.push("c05.lazy.convert.error", format!("{what}: RecordBuf::try_from_alignment_record fails: {err}")),
    }
    // the same conversion into a RecordBuf that already held the previous record
    match reused.try_clone_from_alignment_record(header, lazy) {
        Ok(()) => {
            let mut conv = AlnRecord::from_noodles(reused);
            if !e.aux.iter().any(|(t, _)| &t.0 == b"CG") {
                conv.aux.retain(|(t, _)| &t.0 != b"CG"); // reported above as cg-visible
            }
            for (field, msg) in conv.diff(e) {
                fails.push(format!("c05.lazy.convert-reused.{field}"), format!("{what}: try_clone_from_alignment_record into a used RecordBuf vs eager: {field}: {msg}"));
            }
        }
        Err(err) => fails.push("c05.lazy.convert.error", format!("{what}: try_clone_from_alignment_record fails: {err}")),
    }
    let _ = format!("{lazy:?}");
}

struct DocOutcome {
    bin_asserted: usize,
    /// bit k set: a bin of level k (0 = the 512 Mb bin … 5 = 16 kb bins) was asserted; bit 6: 4680
    bin_levels: u8,
    blocks: usize,
}

fn bin_level_labels(mut p: Pass, levels: u8) -> Pass {
    for (k, l) in ["bin-level0(512Mb)", "bin-level1(64Mb)", "bin-level2(8Mb)", "bin-level3(1Mb)", "bin-level4(128kb)", "bin-level5(16kb)", "bin-4680"].iter().enumerate() {
        p = p.label_if(levels & (1 << k) != 0, l);
    }
    p
}

/// Which oracles `check_doc` runs.
#[derive(Clone, Copy)]
struct Oracles {
    /// independent raw decode + bin, and eager read = normalise(record)
    raw_eager: bool,
    /// lazy accessors = eager decode, conversion, lazy → writer → eager
    lazy: bool,
}

/// Oracles (a), (c), (d), (e) and the lazy pass-through on one document of valid records.
fn check_doc(doc: &AlnDoc, mid_sel: u16, which: Oracles, fails: &mut Fails) -> Result<DocOutcome, Vec<Fail>> {
    let header = doc.header.to_noodles().map_err(|e| f("c05.harness.model", e))?;
    let bufs: Vec<RecordBuf> = doc.records.iter().map(|r| r.to_noodles()).collect::<Result<_, _>>().map_err(|e| f("c05.harness.model", e))?;
    let bytes = write_bam(&header, &bufs, "c05")?;

    // independent framing
    let members = bgzf_walk::walk(&bytes).map_err(|e| f("c05.bgzf-malformed", e))?;
    let stream = bgzf_walk::concat(&members);
    let (raw_header, raw) = bam_raw::parse_stream(&stream).map_err(|e| f("c05.raw.framing", e))?;
    ensure_eq!(raw.len(), doc.records.len(), "c05.raw.count", "number of records in the raw stream");
    ensure_eq!(raw_header.refs.len(), doc.header.refs.len(), "c05.raw.n-ref", "n_ref");
    let mut bin_asserted = 0;
    let mut bin_levels = 0u8;
    if which.raw_eager {
        for (i, (want, rr)) in doc.records.iter().zip(&raw).enumerate() {
            if let Some(b) = check_raw(fails, "", i, want, rr) {
                bin_asserted += 1;
                bin_levels |= 1 << match b {
                    4680 if want.pos.is_none() => 6,
                    0 => 0,
                    1..=8 => 1,
                    9..=72 => 2,
                    73..=584 => 3,
                    585..=4680 => 4,
                    _ => 5,
                };
            }
        }
    }

    // (a) eager
    let (h2, eager) = read_bam_eager(&bytes, "c05")?;
    ensure_eq!(eager.len(), doc.records.len(), "c05.rt.count", "number of records read back");
    if which.raw_eager {
        for (i, (got, want)) in eager.iter().zip(&doc.records).enumerate() {
            push_record_diffs(fails, "c05.rt", &format!("record #{i} read back"), got, &want.normalized(Norm::BAM));
        }
    }
    if which.raw_eager {
        // the writer's generic code paths (a record type without the *_ref shortcuts)
        let mut w = bam::io::Writer::from(Vec::new());
        w.write_header(&header).map_err(|e| f("c05.header-rejected", format!("BAM write_header: {e}")))?;
        let mut ok = true;
        for (i, r) in bufs.iter().enumerate() {
            if let Err(e) = w.write_alignment_record(&header, &aln::GenericRecord(r)) {
                fails.push("c05.generic.valid-rejected", format!("BAM writer rejects valid record #{i} given as a generic alignment record: {}", describe_err(&e)));
                ok = false;
                break;
            }
        }
        if ok {
            let out = w.into_inner();
            if out != stream {
                // byte identity is not promised: decide by decoding, independently and with noodles
                match bam_raw::parse_stream(&out) {
                    Err(e) => fails.push("c05.raw.framing", format!("generic record path: {e}")),
                    Ok((_, raws)) => {
                        if raws.len() != doc.records.len() {
                            fails.push("c05.raw.count", format!("generic record path: {} raw records for {}", raws.len(), doc.records.len()));
                        } else {
                            for (i, (want, rr)) in doc.records.iter().zip(&raws).enumerate() {
                                check_raw(fails, " (generic record path)", i, want, rr);
                            }
                        }
                    }
                }
                let mut rr = bam::io::Reader::from(&out[..]);
                match rr.read_header() {
                    Err(e) => fails.push("c05.generic.read-error", format!("read_header: {e}")),
                    Ok(hg) => {
                        let mut rec = RecordBuf::default();
                        for (i, want) in doc.records.iter().enumerate() {
                            match rr.read_record_buf(&hg, &mut rec) {
                                Ok(n) if n > 0 => push_record_diffs(fails, "c05.generic.rt", &format!("record #{i} written through the generic record path"), &AlnRecord::from_noodles(&rec), &want.normalized(Norm::BAM)),
                                Ok(_) => {
                                    fails.push("c05.generic.count", format!("stream ends at record #{i}"));
                                    break;
                                }
                                Err(e) => {
                                    fails.push("c05.generic.read-error", format!("record #{i}: {}", describe_err(&e)));
                                    break;
                                }
                            }
                        }
                    }
                }
            }
        }
    }
    if !which.lazy {
        return Ok(DocOutcome { bin_asserted, bin_levels, blocks: members.len() });
    }

    // (e) lazy, one re-used bam::Record; and the pass-through writer
    let mut r = bam::io::Reader::new(&bytes[..]);
    let h3 = r.read_header().map_err(|e| f("c05.read-header-error", format!("second read_header: {e}")))?;
    let mut lazy = bam::Record::default();
    let mut reused = RecordBuf::default();
    let mut pass = bam::io::Writer::from(Vec::new());
    let mut pass_ok = pass.write_header(&h3).is_ok();
    for (i, e) in eager.iter().enumerate() {
        match r.read_record(&mut lazy) {
            Ok(0) => return Err(f("c05.lazy.count", format!("read_record reports EOF at record #{i} of {}", eager.len()))),
            Ok(_) => {}
            Err(err) => return Err(f("c05.lazy.read-error", format!("read_record #{i}: {err}"))),
        }
        check_lazy(fails, i, &h2, &lazy, e, mid_sel, &mut reused);
        if pass_ok {
            if let Err(err) = pass.write_alignment_record(&h3, &lazy) {
                fails.push("c05.passthrough.write-error", format!("record #{i}: writing the lazy bam::Record back fails: {}", describe_err(&err)));
                pass_ok = false;
            }
        }
    }
    match r.read_record(&mut lazy) {
        Ok(0) => {}
        other => fails.push("c05.lazy.count", format!("read_record after the last record returns {other:?}")),
    }
    if pass_ok {
        let out = pass.into_inner();
        let mut rr = bam::io::Reader::from(&out[..]);
        match rr.read_header() {
            Err(e) => fails.push("c05.passthrough.read-error", format!("read_header of the passed-through stream: {e}")),
            Ok(h4) => {
                let mut rec = RecordBuf::default();
                for (i, e) in eager.iter().enumerate() {
                    match rr.read_record_buf(&h4, &mut rec) {
                        Ok(n) if n > 0 => {
                            let got = AlnRecord::from_noodles(&rec);
                            for (field, msg) in got.diff(e) {
                                fails.push(format!("c05.passthrough.{field}"), format!("record #{i} after lazy read → write → eager read: {field}: {msg}"));
                            }
                        }
                        Ok(_) => {
                            fails.push("c05.passthrough.count", format!("passed-through stream ends at record #{i}"));
                            break;
                        }
                        Err(err) => {
                            let ops = e.cigar.n_ops();
                            let sig = if ops > 65535 { "c05.passthrough.read-error.cg" } else { "c05.passthrough.read-error" };
                            fails.push(sig, format!("record #{i} ({ops} CIGAR ops) after lazy read → write: eager read fails: {}", describe_err(&err)));
                            break;
                        }
                    }
                }
            }
        }
    }
    Ok(DocOutcome { bin_asserted, bin_levels, blocks: members.len() })
}

fn labels(mut p: Pass, doc: &AlnDoc) -> Pass {
    let rs = &doc.records;
    let any = |g: &dyn Fn(&AlnRecord) -> bool| rs.iter().any(|r| g(r));
    p = p
        .label_if(doc.header.refs.is_empty(), "no-dictionary")
        .label_if(doc.header.refs.len() > 255, "refs>255")
        .label_if(any(&|r| r.name.is_none()), "name-missing")
        .label_if(any(&|r| r.name.as_ref().is_some_and(|n| n.len() >= 250)), "name>=250")
        .label_if(any(&|r| r.name.as_ref().is_some_and(|n| n.len() == 254)), "name=254")
        .label_if(any(&|r| r.bases().len() % 2 == 1), "odd-seq")
        .label_if(any(&|r| r.bases().is_empty()), "seq-missing")
        .label_if(any(&|r| !r.bases().is_empty() && r.quals().is_empty()), "qual-missing")
        .label_if(any(&|r| r.bases().iter().any(|b| b.is_ascii_lowercase())), "bases-lowercase")
        .label_if(any(&|r| r.bases().iter().any(|b| !aln::BAM_BASES.contains(&b.to_ascii_uppercase()))), "bases-non-iupac")
        .label_if(any(&|r| r.cigar.n_ops() == 0), "cigar-empty")
        .label_if(any(&|r| r.cigar.n_ops() >= 2), "cigar>=2")
        .label_if(any(&|r| r.cigar.n_ops() > 65535), "cigar>65535")
        .label_if(any(&|r| r.cigar.n_ops() == 65535), "cigar=65535")
        .label_if(any(&|r| r.cigar_ops().iter().any(|(_, l)| *l >= (1 << 28) - 2)), "op-len~2^28")
        .label_if(any(&|r| r.cigar_ops().iter().any(|(_, l)| *l == 0)), "op-len-0")
        .label_if(any(&|r| r.pos.is_some_and(|p| p >= (1 << 31) - 2)), "pos~2^31")
        .label_if(any(&|r| r.pos.is_some_and(|p| p >= 1 << 29)), "pos>=2^29")
        .label_if(any(&|r| r.pos.is_some_and(|p| (p - 1) >> 14 != (r.end().unwrap_or(p) - 1) >> 14)), "span-crosses-16k")
        .label_if(any(&|r| r.pos.is_none()), "pos-missing")
        .label_if(any(&|r| r.mapq.is_none()), "mapq-255")
        .label_if(any(&|r| r.flags & 0x800 != 0), "flag-0x800")
        .label_if(any(&|r| r.tlen == i32::MIN || r.tlen == i32::MAX), "tlen-extreme")
        .label_if(any(&|r| r.aux.is_empty()), "aux-none")
        .label_if(any(&|r| r.aux.len() >= 4), "aux>=4");
    for r in rs {
        for (_, v) in &r.aux {
            p = p.label(match v {
                AuxValue::Char(_) => "aux:A",
                AuxValue::I8(_) => "aux:c",
                AuxValue::U8(_) => "aux:C",
                AuxValue::I16(_) => "aux:s",
                AuxValue::U16(_) => "aux:S",
                AuxValue::I32(_) => "aux:i",
                AuxValue::U32(_) => "aux:I",
                AuxValue::Int(_) => "aux:int",
                AuxValue::F32(_) => "aux:f",
                AuxValue::Str(_) => "aux:Z",
                AuxValue::Hex(_) => "aux:H",
                AuxValue::ArrI8(_) => "aux:B:c",
                AuxValue::ArrU8(_) => "aux:B:C",
                AuxValue::ArrI16(_) => "aux:B:s",
                AuxValue::ArrU16(_) => "aux:B:S",
                AuxValue::ArrI32(_) => "aux:B:i",
                AuxValue::ArrU32(_) => "aux:B:I",
                AuxValue::ArrF32(_) => "aux:B:f",
            });
            p = p.label_if(v.array_len() == Some(0), "aux:B-empty").label_if(v.array_len().is_some_and(|n| n >= 256), "aux:B>=256").label_if(v.has_nonfinite_float(), "aux:nonfinite-float");
        }
    }
    p.labels.sort();
    p.labels.dedup();
    p
}

fn nontrivial(doc: &AlnDoc) -> bool {
    doc.records.iter().any(|r| !r.aux.is_empty() || r.cigar.n_ops() >= 2 || r.bases().len() % 2 == 1)
}

// ---------------------------------------------------------------------------------------------
// sub-check 1: round trip / raw / bin / lazy
// ---------------------------------------------------------------------------------------------

#[derive(Clone, Debug, Serialize, Deserialize)]
pub struct Case {
    pub doc: AlnDoc,
    /// selector for `sequence().split_at_checked`
    pub mid_sel: u16,
}

fn strategy(tier: Tier) -> BoxedStrategy<Case> {
    let hp = HeaderParams::for_tier(tier);
    (aln::document_n(&hp, &Mode::bam(), 1, 3), any::<u16>()).prop_map(|(doc, mid_sel)| Case { doc, mid_sel }).boxed()
}

fn check(c: &Case) -> Verdict {
    for r in &c.doc.records {
        if let Some(why) = aln::invalid_reason(r, c.doc.header.n_ref(), Target::Bam) {
            return fail1("c05.harness.generator", format!("generated record outside the BAM domain: {why}"));
        }
    }
    let mut fails = Fails::new();
    let out = check_doc(&c.doc, c.mid_sel, Oracles { raw_eager: true, lazy: true }, &mut fails)?;
    let p = bin_level_labels(labels(Pass::new(nontrivial(&c.doc), key_of(c)).evals(c.doc.records.len() as u64), &c.doc).label_if(out.bin_asserted > 0, "bin-asserted").label_if(out.blocks > 2, "bgzf-blocks>=2"), out.bin_levels);
    fails.finish(p)
}

// ---------------------------------------------------------------------------------------------
// sub-check 2: >65 535 operations
// ---------------------------------------------------------------------------------------------

fn huge_strategy(tier: Tier) -> BoxedStrategy<Case> {
    let hp = HeaderParams::for_tier(tier);
    let mut mode = Mode::bam();
    mode.max_aux = 3;
    let n_ops = prop_oneof![2 => proptest::sample::select(vec![65_535u32, 65_536, 65_537, 70_000]), 3 => 65_536u32..=70_000];
    (aln::header_with(&hp), aln::record_proto(&mode), n_ops, any::<u32>(), 0u8..4, any::<u16>())
        .prop_map(|(header, mut r, n_ops, seed, shape, mid_sel)| {
            r.cigar = CigarSpec::Huge { n_ops, seed };
            match shape {
                0 => {
                    r.seq = SeqSpec::Bases(B::default());
                    r.qual = QualSpec::Scores(vec![]);
                }
                1 => {
                    r.seq = SeqSpec::Auto { seed };
                    r.qual = QualSpec::Scores(vec![]);
                }
                _ => {
                    r.seq = SeqSpec::Auto { seed };
                    r.qual = QualSpec::Auto { seed };
                }
            }
            let n = header.n_ref();
            Case { doc: AlnDoc { header, records: vec![r.resolve_refs(n)] }, mid_sel }
        })
        .boxed()
}

fn huge_check(c: &Case) -> Verdict {
    let mut fails = Fails::new();
    let out = check_doc(&c.doc, c.mid_sel, Oracles { raw_eager: true, lazy: false }, &mut fails)?;
    let p = bin_level_labels(labels(Pass::new(true, key_of(c)), &c.doc).label_if(out.bin_asserted > 0, "bin-asserted").label_if(out.blocks > 2, "bgzf-blocks>=2"), out.bin_levels);
    fails.finish(p)
}

fn huge_lazy_check(c: &Case) -> Verdict {
    let mut fails = Fails::new();
    check_doc(&c.doc, c.mid_sel, Oracles { raw_eager: false, lazy: true }, &mut fails)?;
    fails.finish(labels(Pass::new(true, key_of(c)), &c.doc))
}

// ---------------------------------------------------------------------------------------------
// sub-check: iteration over the halves of a split lazy sequence, every split point
// ---------------------------------------------------------------------------------------------

#[derive(Clone, Debug, Serialize, Deserialize)]
pub struct SubseqCase {
    pub bases: B,
}

fn subseq_strategy(_tier: Tier) -> BoxedStrategy<SubseqCase> {
    proptest::collection::vec(proptest::sample::select(aln::BAM_BASES.to_vec()), 0..=40).prop_map(|v| SubseqCase { bases: B(v) }).boxed()
}

fn subseq_check(c: &SubseqCase) -> Verdict {
    let rec = AlnRecord { seq: SeqSpec::Bases(c.bases.clone()), ..AlnRecord::default() };
    let header = sam::Header::default();
    let buf = rec.to_noodles().map_err(|e| f("c05.harness.model", e))?;
    let bytes = write_bam(&header, &[buf], "c05")?;
    let (_, eager) = read_bam_eager(&bytes, "c05")?;
    ensure_eq!(eager.len(), 1, "c05.rt.count", "records read back");
    let ebases = eager[0].bases();
    ensure_eq!(B(ebases.clone()), c.bases.clone(), "c05.rt.seq", "bases read back");
    let mut r = bam::io::Reader::new(&bytes[..]);
    r.read_header().map_err(|e| f("c05.read-header-error", format!("{e}")))?;
    let mut lazy = bam::Record::default();
    r.read_record(&mut lazy).map_err(|e| f("c05.lazy.read-error", format!("{e}")))?;
    let seq = lazy.sequence();
    let n = ebases.len();
    let mut fails = Fails::new();
    for mid in 0..=n {
        let Some((l, r)) = seq.split_at_checked(mid) else {
            fails.push("c05.lazy.sequence.split", format!("split_at_checked({mid}) is None for l_seq {n}"));
            continue;
        };
        let (li, ri): (Vec<u8>, Vec<u8>) = (l.iter().collect(), r.iter().collect());
        if li != ebases[..mid] || ri != ebases[mid..] {
            fails.push("c05.lazy.subsequence.iter", format!("split_at_checked({mid}) of {:?}: left.iter() = {:?}, right.iter() = {:?}", B(ebases.clone()), B(li), B(ri)));
        }
        let lg: Vec<u8> = (0..l.len()).filter_map(|k| l.get(k)).collect();
        let rg: Vec<u8> = (0..r.len()).filter_map(|k| r.get(k)).collect();
        if lg != ebases[..mid] || rg != ebases[mid..] || l.len() != mid || r.len() != n - mid {
            fails.push("c05.lazy.subsequence.get", format!("split_at_checked({mid}) of {:?}: get() gives {:?} / {:?}", B(ebases.clone()), B(lg), B(rg)));
        }
    }
    fails.finish(Pass::new(n >= 2, key_of(c)).evals(n as u64 + 1).label_if(n % 2 == 1, "odd-seq").label_if(n == 0, "seq-missing"))
}

// ---------------------------------------------------------------------------------------------
// sub-check 3: reject, never wrap
// ---------------------------------------------------------------------------------------------

/// One way to push a record outside what a BAM field can hold (or outside what the encoder
/// validates). `must_err` classes cannot be represented at all: acceptance is itself a violation.
#[derive(Clone, Debug, Serialize, Deserialize)]
pub enum Defect {
    /// name of `n` ≥ 255 bytes (l_read_name is one byte, NUL included)
    NameLen(u32),
    NameEmpty,
    NameStar,
    /// byte outside `[!-?A-~]` at a position selector
    NameByte(u8, u16),
    /// 1-based position 2^31 + k (pos − 1 does not fit an int32 for k ≥ 1)
    Pos(u64),
    MatePos(u64),
    /// reference id n_ref + k (also beyond 2^31)
    RefId(u64),
    MateRefId(u64),
    /// one operation of length 2^28 + k (28-bit field)
    OpLen(u64, u16),
    /// a score > 93 somewhere
    Qual(u8, u16),
    /// qualities one longer / shorter than the bases
    QualLen(bool),
    /// bases one longer / shorter than the CIGAR's read length
    SeqLen(bool),
    /// control byte in a Z value
    AuxStr(u8),
    /// odd-length or lower-case hex
    AuxHex(bool),
}

impl Defect {
    fn class(&self) -> &'static str {
        match self {
            Defect::NameLen(_) => "name-len",
            Defect::NameEmpty => "name-empty",
            Defect::NameStar => "name-star",
            Defect::NameByte(..) => "name-byte",
            Defect::Pos(_) => "pos",
            Defect::MatePos(_) => "mate-pos",
            Defect::RefId(_) => "ref-id",
            Defect::MateRefId(_) => "mate-ref-id",
            Defect::OpLen(..) => "op-len",
            Defect::Qual(..) => "qual",
            Defect::QualLen(_) => "qual-len",
            Defect::SeqLen(_) => "seq-len",
            Defect::AuxStr(_) => "aux-str",
            Defect::AuxHex(_) => "aux-hex",
        }
    }

    /// Apply to a valid record. Returns `(applied, must_err)`.
    fn apply(&self, r: &mut AlnRecord, n_ref: usize) -> (bool, bool) {
        match self {
            Defect::NameLen(n) => {
                let seed = r.name.clone().map(|b| b.0).unwrap_or_else(|| b"q".to_vec());
                r.name = Some(B((0..*n as usize).map(|i| seed[i % seed.len()]).collect()));
                (true, true)
            }
            Defect::NameEmpty => {
                r.name = Some(B::default());
                (true, false)
            }
            Defect::NameStar => {
                r.name = Some(B::new("*"));
                (true, false)
            }
            Defect::NameByte(b, sel) => {
                let mut n = r.name.clone().map(|b| b.0).unwrap_or_else(|| b"q".to_vec());
                let i = pick_idx(*sel, n.len());
                n[i] = *b;
                r.name = Some(B(n));
                // a NUL inside the name cannot be represented (the field is NUL-terminated)
                (true, *b == 0)
            }
            Defect::Pos(k) => {
                r.pos = Some((1 << 31) + k);
                (true, *k >= 1)
            }
            Defect::MatePos(k) => {
                r.mate_pos = Some((1 << 31) + k);
                (true, *k >= 1)
            }
            Defect::RefId(k) => {
                r.ref_id = Some(n_ref as u64 + k);
                (true, true)
            }
            Defect::MateRefId(k) => {
                r.mate_ref_id = Some(n_ref as u64 + k);
                (true, true)
            }
            Defect::OpLen(k, sel) => {
                let mut ops = r.cigar_ops();
                // use an operation that consumes no read base so that the sequence still fits
                let cand: Vec<usize> = ops.iter().enumerate().filter(|(_, (c, _))| !aln::consumes_read(*c)).map(|(i, _)| i).collect();
                if cand.is_empty() {
                    ops.push((2, (1 << 28) + k));
                } else {
                    ops[cand[pick_idx(*sel, cand.len())]].1 = (1 << 28) + k;
                }
                r.cigar = CigarSpec::Ops(ops);
                (true, true)
            }
            Defect::Qual(q, sel) => {
                let mut quals = r.quals();
                if quals.is_empty() {
                    return (false, false);
                }
                let i = pick_idx(*sel, quals.len());
                quals[i] = *q;
                // all-0xFF is the "missing" encoding: if every score is 255 the value cannot be represented
                let all_ff = quals.iter().all(|x| *x == 255);
                r.qual = QualSpec::Scores(quals);
                (true, all_ff)
            }
            Defect::QualLen(longer) => {
                let mut quals = r.quals();
                if quals.is_empty() {
                    // missing qualities plus one score is a valid one-base record
                    return (false, false);
                }
                if *longer {
                    quals.push(30);
                } else if quals.len() >= 2 {
                    quals.pop();
                } else {
                    return (false, false);
                }
                r.qual = QualSpec::Scores(quals);
                // one l_seq covers both: a different number of scores cannot be stored
                (true, true)
            }
            Defect::SeqLen(longer) => {
                if r.read_len() == 0 {
                    return (false, false);
                }
                let mut b = r.bases();
                if b.is_empty() {
                    return (false, false);
                }
                if *longer {
                    b.push(b'A');
                } else if b.len() >= 2 {
                    b.pop();
                } else {
                    return (false, false);
                }
                r.seq = SeqSpec::Bases(B(b));
                r.qual = QualSpec::Scores(vec![]);
                (true, false)
            }
            Defect::AuxStr(b) => {
                r.aux.retain(|(t, _)| &t.0 != b"zs");
                r.aux.push((Tag(*b"zs"), AuxValue::Str(B(vec![b'a', *b, b'b']))));
                // a NUL inside a NUL-terminated string cannot be represented
                (true, *b == 0)
            }
            Defect::AuxHex(odd) => {
                r.aux.retain(|(t, _)| &t.0 != b"zh");
                r.aux.push((Tag(*b"zh"), AuxValue::Hex(B::new(if *odd { "ABC" } else { "ab" }))));
                (true, false)
            }
        }
    }
}

fn defect() -> BoxedStrategy<Defect> {
    let beyond = || prop_oneof![3 => 0u64..4, 1 => Just((1u64 << 31) - 1), 1 => Just(1u64 << 31), 1 => Just((1u64 << 32) - (1 << 31)), 1 => Just(1u64 << 32), 1 => 0u64..(1 << 33)];
    prop_oneof![
        3 => prop_oneof![Just(255u32), Just(256), Just(257), Just(510), Just(511), Just(512), 255u32..1200].prop_map(Defect::NameLen),
        1 => Just(Defect::NameEmpty),
        1 => Just(Defect::NameStar),
        2 => (prop_oneof![Just(0u8), Just(b' '), Just(b'@'), Just(0x7f), Just(b'\t'), Just(0xff), any::<u8>().prop_filter("outside the name alphabet", |b| !(b.is_ascii_graphic() && *b != b'@'))], any::<u16>()).prop_map(|(b, s)| Defect::NameByte(b, s)),
        3 => beyond().prop_map(Defect::Pos),
        2 => beyond().prop_map(Defect::MatePos),
        3 => beyond().prop_map(Defect::RefId),
        2 => beyond().prop_map(Defect::MateRefId),
        3 => (prop_oneof![3 => 0u64..3, 1 => Just((1u64 << 28) * 15), 1 => Just((1u64 << 32) - (1 << 28)), 1 => 0u64..(1 << 34)], any::<u16>()).prop_map(|(k, s)| Defect::OpLen(k, s)),
        2 => (prop_oneof![Just(94u8), Just(95), Just(127), Just(128), Just(254), Just(255), 94u8..=255], any::<u16>()).prop_map(|(q, s)| Defect::Qual(q, s)),
        2 => any::<bool>().prop_map(Defect::QualLen),
        2 => any::<bool>().prop_map(Defect::SeqLen),
        1 => prop_oneof![Just(0u8), Just(b'\t'), Just(b'\n'), Just(0x7f), Just(0x80), Just(0xff), 0u8..0x20].prop_map(Defect::AuxStr),
        1 => any::<bool>().prop_map(Defect::AuxHex),
    ]
    .boxed()
}

#[derive(Clone, Debug, Serialize, Deserialize)]
pub struct RejectCase {
    pub header: AlnHeader,
    /// valid records, each optionally damaged
    pub records: Vec<(AlnRecord, Option<Defect>)>,
}

fn reject_strategy(tier: Tier) -> BoxedStrategy<RejectCase> {
    let mut hp = HeaderParams::for_tier(tier);
    hp.many_refs = 40;
    let mut mode = Mode::bam();
    mode.max_aux = 3;
    mode.long_array = 20;
    let slot = (aln::record_proto(&mode), prop_oneof![1 => Just(None), 3 => defect().prop_map(Some)]);
    (aln::header_with(&hp), proptest::collection::vec(slot, 1..=4))
        .prop_map(|(header, records)| {
            let n = header.n_ref();
            RejectCase { header, records: records.into_iter().map(|(r, d)| (r.resolve_refs(n), d)).collect() }
        })
        .boxed()
}

fn reject_check(c: &RejectCase) -> Verdict {
    let n_ref = c.header.n_ref();
    let header = c.header.to_noodles().map_err(|e| f("c05.harness.model", e))?;
    let mut fails = Fails::new();
    let mut w = bam::io::Writer::new(Vec::new());
    w.write_header(&header).map_err(|e| f("c05.header-rejected", format!("BAM write_header: {e}")))?;
    let mut accepted: Vec<AlnRecord> = Vec::new();
    let mut pass = Pass::new(false, key_of(c));
    let mut n_rejected = 0;
    for (i, (r0, d)) in c.records.iter().enumerate() {
        let mut r = r0.explicit();
        let (applied, must_err) = match d {
            Some(d) => d.apply(&mut r, n_ref),
            None => (false, false),
        };
        let class = d.as_ref().filter(|_| applied).map(|d| d.class());
        let buf = match r.to_noodles() {
            Ok(b) => b,
            Err(e) => return Err(f("c05.harness.model", e)),
        };
        match w.write_alignment_record(&header, &buf) {
            Ok(()) => {
                if must_err {
                    fails.push(format!("c05.reject.accepted.{}", class.unwrap_or("?")), format!("record #{i} with {d:?} does not fit its BAM field but write_alignment_record returned Ok"));
                } else if class.is_none() {
                    pass = pass.label("valid-accepted");
                } else {
                    pass = pass.label("questionable-accepted");
                }
                accepted.push(r);
            }
            Err(e) => {
                if class.is_none() {
                    fails.push("c05.valid-rejected", format!("valid record #{i} rejected: {}", describe_err(&e)));
                } else {
                    n_rejected += 1;
                    if let Some(c) = class {
                        pass = pass.label(match c {
                            "name-len" => "rejected:name-len",
                            "name-empty" => "rejected:name-empty",
                            "name-star" => "rejected:name-star",
                            "name-byte" => "rejected:name-byte",
                            "pos" => "rejected:pos",
                            "mate-pos" => "rejected:mate-pos",
                            "ref-id" => "rejected:ref-id",
                            "mate-ref-id" => "rejected:mate-ref-id",
                            "op-len" => "rejected:op-len",
                            "qual" => "rejected:qual",
                            "qual-len" => "rejected:qual-len",
                            "seq-len" => "rejected:seq-len",
                            "aux-str" => "rejected:aux-str",
                            _ => "rejected:aux-hex",
                        });
                    }
                }
            }
        }
    }
    w.try_finish().map_err(|e| f("c05.finish-error", format!("try_finish: {e}")))?;
    let bytes = w.into_inner().into_inner();
    // whatever was accepted must read back as written; a rejected record must leave no trace
    match read_bam_eager(&bytes, "c05.reject") {
        Err(mut e) => {
            fails.0.append(&mut e);
        }
        Ok((_, got)) => {
            if got.len() != accepted.len() {
                fails.push("c05.reject.count", format!("{} records accepted, {} read back", accepted.len(), got.len()));
            } else {
                for (i, (g, want)) in got.iter().zip(&accepted).enumerate() {
                    push_record_diffs(&mut fails, "c05.reject.readback", &format!("accepted record #{i}"), g, &want.normalized(Norm::BAM));
                }
            }
        }
    }
    pass.nontrivial = n_rejected > 0;
    pass = pass.label_if(n_rejected > 0 && !accepted.is_empty(), "reject+accept-mixed").label_if(n_ref == 0, "no-dictionary");
    pass.labels.sort();
    pass.labels.dedup();
    fails.finish(pass)
}

pub fn property() -> Property {
    Property {
        id: "C05",
        level: "exploration",
        rule: "header (with/without dictionary, 0..many references) × 1..3 alignment records over the SAM data model (boundary-dense positions, all 9 CIGAR kinds, odd/even/zero sequence lengths over arbitrary bytes, every aux type at its range boundaries, arrays 0..300) written by bam::io::Writer; a second sub-check with 65 535..70 000 CIGAR operations; a third with records pushed outside a BAM field",
        assumptions: vec![
            "the harness's BGZF walker (miniz_oxide, crc32fast) and its BAM record framing / field decoder transcribed from SAMv1 §4.2 are correct".into(),
            "reg2bin is the C routine of SAMv1 §5.3; the bin is asserted only where §4.2.1 is unambiguous: end ≤ 2^29, and not for reads flagged unmapped that nevertheless carry a CIGAR spanning >1 base".into(),
            "aux field order is compared as written (noodles' Data equality is order-sensitive); the reserved tag CG is not generated as a user field".into(),
        ],
        subs: vec![
            sub(
                "roundtrip",
                "non-trivial = some record has ≥1 aux field, ≥2 CIGAR ops or an odd sequence length; distinct by hash of the whole case; oracles: raw bytes = record (independent decoder), reg2bin, eager read = normalise(record), lazy accessors = eager, lazy → writer → eager",
                strategy,
                check,
                40_000,
                800_000,
            )
            .boxed(),
            sub(
                "huge_cigar",
                "one record with 65 535..=70 000 CIGAR operations (all 9 kinds), with/without bases and qualities; always non-trivial; oracles: raw record carries kSmN + CG:B,I (or the plain CIGAR at exactly 65 535), eager read restores the CIGAR and hides CG",
                huge_strategy,
                huge_check,
                160,
                2_000,
            )
            .with(|o| o.max_shrink_iters = 120)
            .boxed(),
            sub("huge_cigar_lazy", "as huge_cigar; oracles: lazy accessors and RecordBuf::try_from_alignment_record = eager decode, lazy → writer → eager", huge_strategy, huge_lazy_check, 48, 400)
                .with(|o| o.max_shrink_iters = 120)
                .boxed(),
            sub(
                "lazy_subsequence",
                "0..=40 bases; every split point of bam::record::Sequence::split_at_checked: iter() and get() of both halves = the eager bases; non-trivial = ≥2 bases",
                subseq_strategy,
                subseq_check,
                400,
                4_000,
            )
            .boxed(),
            sub(
                "reject",
                "1..4 valid records, each optionally pushed outside a BAM field (name ≥255 bytes, position ≥2^31+1, reference id ≥ n_ref, op length ≥2^28, score/length mismatches, unrepresentable strings); non-trivial = ≥1 record was rejected; accepted records must read back equal, rejected ones leave no trace",
                reject_strategy,
                reject_check,
                30_000,
                600_000,
            )
            .boxed(),
        ],
        max_parallel: 16,
    }
}
