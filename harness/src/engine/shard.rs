//! Shard-side execution: accounting recorder, proptest driver, enumeration driver.

use super::*;
use proptest::test_runner::{Config, RngSeed, TestCaseError, TestError, TestRunner};
use std::cell::{Cell, RefCell};
use std::collections::BTreeSet;
use std::time::Instant;

pub struct Recorder<'a> {
    pub res: ShardResult,
    keys: BTreeSet<u64>,
    known: &'a dyn Fn(&str) -> bool,
    seen_labels: BTreeSet<String>,
    pub stopped: bool,
    cur_path: Option<std::path::PathBuf>,
    t0: Instant,
}

const MAX_SAMPLES_PER_SHARD: usize = 4;

/// Shorten a JSON value for the evidence file.
pub fn summarise(v: &serde_json::Value) -> serde_json::Value {
    use serde_json::Value as V;
    match v {
        V::Array(a) => {
            let all_small_nums = a.len() > 24 && a.iter().all(|x| x.is_number());
            if all_small_nums {
                let head: Vec<String> = a.iter().take(16).map(|x| x.to_string()).collect();
                V::String(format!("[{} …] ({} numbers)", head.join(","), a.len()))
            } else if a.len() > 12 {
                let mut out: Vec<V> = a.iter().take(8).map(summarise).collect();
                out.push(V::String(format!("… {} more", a.len() - 8)));
                V::Array(out)
            } else {
                V::Array(a.iter().map(summarise).collect())
            }
        }
        V::Object(o) => V::Object(o.iter().map(|(k, x)| (k.clone(), summarise(x))).collect()),
        V::String(s) => V::String(trunc(s, 240)),
        other => other.clone(),
    }
}

impl<'a> Recorder<'a> {
    pub fn new(known: &'a dyn Fn(&str) -> bool, cur_path: Option<std::path::PathBuf>) -> Self {
        Recorder { res: ShardResult::default(), keys: BTreeSet::new(), known, seen_labels: BTreeSet::new(), stopped: false, cur_path, t0: Instant::now() }
    }

    /// Note the case about to run (isolation: lets the parent attribute an abort or a hang).
    pub fn about_to_run(&self, case: &dyn Fn() -> serde_json::Value) {
        if let Some(p) = &self.cur_path {
            let hint = p.with_extension("hint");
            let _ = std::fs::remove_file(&hint);
            set_hint_path(Some(hint));
            let _ = std::fs::write(p, serde_json::to_vec(&case()).unwrap_or_default());
            // 0-based index of the case about to run (restart bookkeeping)
            let _ = std::fs::write(p.with_extension("idx"), self.res.started.saturating_sub(1).to_string());
        }
    }

    /// With isolation: persist what has been counted so far, so that an abort or hang of the shard
    /// process loses only the case that caused it (the orchestrator restarts the shard behind it).
    pub fn checkpoint(&self) {
        if let Some(p) = &self.cur_path {
            if self.res.started <= 4096 || self.res.started % 64 == 0 {
                let mut snap = self.res.clone();
                snap.nontrivial_keys = self.keys.iter().copied().collect();
                snap.wall_s = self.t0.elapsed().as_secs_f64();
                let _ = std::fs::write(p.with_extension("ckpt"), serde_json::to_vec(&snap).unwrap_or_default());
            }
        }
    }

    /// The first failure in `fails` whose signature is not a listed known finding.
    pub fn unknown<'f>(&self, fails: &'f [Fail]) -> Option<&'f Fail> {
        fails.iter().find(|f| !(self.known)(&f.sig))
    }

    /// Record a verdict. Returns `false` when the search must stop (unknown failure).
    pub fn record(&mut self, case: &dyn Fn() -> serde_json::Value, v: Verdict) -> bool {
        if self.stopped {
            return false;
        }
        match v {
            Ok(p) => {
                self.res.cases += 1;
                self.res.evals += p.evals.max(1);
                let mut new_label = false;
                for l in &p.labels {
                    *self.res.labels.entry((*l).to_string()).or_insert(0) += 1;
                    if self.seen_labels.insert((*l).to_string()) {
                        new_label = true;
                    }
                }
                if p.nontrivial {
                    *self.res.labels.entry("nontrivial".into()).or_insert(0) += 1;
                    self.keys.insert(p.key);
                }
                let n = self.res.samples.len();
                if n < 1 || (n < MAX_SAMPLES_PER_SHARD && p.nontrivial && new_label) {
                    self.res.samples.push(summarise(&case()));
                }
                true
            }
            Err(fails) => {
                if fails.iter().any(|f| f.sig == HARNESS_PANIC) {
                    self.res.harness_error = Some(fails.iter().map(|f| f.msg.clone()).collect::<Vec<_>>().join("; "));
                    self.stopped = true;
                    return false;
                }
                if let Some(first) = self.unknown(&fails) {
                    let mut cj = case();
                    apply_patch(&mut cj, &first.patch.clone());
                    self.res.failure = Some(FailureRec { case: cj, fails });
                    self.stopped = true;
                    false
                } else {
                    for f in &fails {
                        *self.res.excluded_known.entry(f.sig.clone()).or_insert(0) += 1;
                    }
                    // maintenance aid (never set by a registered command): NV_REFRESH_KNOWN=<dir>
                    // saves one fresh replay per listed signature met, for `known:` entries whose
                    // committed replay stopped reproducing after a generator change
                    if let Some(dir) = std::env::var_os("NV_REFRESH_KNOWN") {
                        let args: Vec<String> = std::env::args().collect();
                        for f in &fails {
                            let slug: String = f.sig.chars().map(|c| if c.is_ascii_alphanumeric() { c } else { '-' }).collect();
                            // (FNV-1a of the whole signature keeps long signatures with a common prefix apart)
                            let h = f.sig.bytes().fold(0xcbf29ce484222325u64, |h, b| (h ^ b as u64).wrapping_mul(0x100000001b3));
                            let path = std::path::Path::new(&dir).join(format!("{}-{}-{h:016x}.json", args.get(2).cloned().unwrap_or_default(), &slug[..slug.len().min(90)]));
                            if !path.exists() {
                                let mut cj = case();
                                apply_patch(&mut cj, &f.patch.clone());
                                let v = serde_json::json!({"property": args.get(2), "sub": args.get(3), "seed": 0, "tier": "quick", "case": cj, "fails": [f]});
                                let _ = std::fs::write(&path, serde_json::to_vec_pretty(&v).unwrap_or_default());
                            }
                        }
                    }
                    // everything that failed is a listed known finding: count the rest of the case
                    match take_stashed_pass() {
                        Some(p) => self.record(case, Ok(p)),
                        None => {
                            self.res.cases += 1;
                            self.res.evals += 1;
                            true
                        }
                    }
                }
            }
        }
    }

    pub fn finish(mut self, t0: Instant) -> ShardResult {
        self.res.nontrivial_keys = self.keys.into_iter().collect();
        self.res.wall_s = t0.elapsed().as_secs_f64();
        self.res
    }
}

pub const HARNESS_PANIC: &str = "HARNESS-PANIC";

/// Run a check function, turning a panic into a failure with a site signature.
pub fn run_checked<C>(check: &dyn Fn(&C) -> Verdict, case: &C) -> Verdict {
    let _ = take_stashed_pass();
    match panics::catch(|| check(case)) {
        Ok(v) => v,
        Err(info) => {
            if info.in_harness() {
                Err(vec![Fail::new(HARNESS_PANIC, info.describe())])
            } else {
                Err(vec![Fail::new(info.sig(), info.describe())])
            }
        }
    }
}

impl<C: Case> DynSub for PropSub<C> {
    fn name(&self) -> &str {
        self.name
    }
    fn rule(&self) -> &str {
        self.rule
    }
    fn opts(&self) -> &SubOpts {
        &self.opts
    }
    fn cases(&self, tier: Tier) -> u64 {
        tier.pick(self.quick, self.thorough)
    }

    fn run_shard(&self, sc: &ShardCtx, known: &dyn Fn(&str) -> bool) -> ShardResult {
        run_prop_shard(&self.strategy, &self.check, &self.opts, sc, known)
    }

    fn replay(&self, case: &serde_json::Value) -> Result<Verdict, String> {
        let c: C = serde_json::from_value(case.clone()).map_err(|e| format!("cannot decode case: {e}"))?;
        Ok(run_checked(&self.check, &c))
    }
}

/// Exit code of a shard whose current case exceeded ten times its per-case budget.
pub const EXIT_CASE_TIMEOUT: i32 = 97;

static CASE_STARTED_MS: std::sync::atomic::AtomicU64 = std::sync::atomic::AtomicU64::new(0);
static WATCHDOG: std::sync::Once = std::sync::Once::new();

fn now_ms() -> u64 {
    static T0: std::sync::OnceLock<Instant> = std::sync::OnceLock::new();
    T0.get_or_init(Instant::now).elapsed().as_millis() as u64 + 1
}

/// Mark the start of a case (0 = idle). With `isolate`, a watchdog thread ends the shard process
/// when one case runs longer than `10 × case_budget_s`; the orchestrator then re-runs that case
/// alone. This is process control only (no wall-clock value enters a verdict).
pub fn case_started(opts: &SubOpts) {
    if !opts.isolate {
        return;
    }
    let limit_ms = opts.case_budget_s.max(1) * 10_000;
    WATCHDOG.call_once(|| {
        std::thread::spawn(move || {
            loop {
                std::thread::sleep(std::time::Duration::from_millis(200));
                let st = CASE_STARTED_MS.load(std::sync::atomic::Ordering::Relaxed);
                if st != 0 && now_ms().saturating_sub(st) > limit_ms {
                    std::process::exit(EXIT_CASE_TIMEOUT);
                }
            }
        });
    });
    CASE_STARTED_MS.store(now_ms(), std::sync::atomic::Ordering::Relaxed);
}

pub fn case_finished() {
    CASE_STARTED_MS.store(0, std::sync::atomic::Ordering::Relaxed);
}

pub fn run_prop_shard<C: Case>(strategy: &dyn Fn(Tier) -> BoxedStrategy<C>, check: &dyn Fn(&C) -> Verdict, opts: &SubOpts, sc: &ShardCtx, known: &dyn Fn(&str) -> bool) -> ShardResult {
    let t0 = Instant::now();
    let rec = RefCell::new(Recorder::new(known, if opts.isolate { sc.cur_path.clone() } else { None }));
    if sc.cases == 0 {
        return rec.into_inner().finish(t0);
    }
    let cfg = Config {
        cases: sc.cases.min(u32::MAX as u64) as u32,
        rng_seed: RngSeed::Fixed(sc.seed),
        failure_persistence: None,
        max_shrink_iters: opts.max_shrink_iters,
        max_global_rejects: 65536,
        max_local_rejects: 65536,
        ..Config::default()
    };
    let mut runner = TestRunner::new(cfg);
    let strat = strategy(sc.tier);
    let failed = Cell::new(false);
    // after an attributed abort/hang the orchestrator restarts the shard behind the offending case
    let skip: u64 = std::env::var("NV_SKIP_CASES").ok().and_then(|s| s.parse().ok()).unwrap_or(0);
    // "<case index>:<inner index>": resume that case behind the given inner evaluation
    let inner: Option<(u64, u64)> = std::env::var("NV_SKIP_INNER").ok().and_then(|s| s.split_once(':').and_then(|(a, b)| Some((a.parse().ok()?, b.parse().ok()?))));
    let started = Cell::new(0u64);
    let result = runner.run(&strat, |case: C| {
        if !failed.get() {
            let idx = started.get();
            started.set(idx + 1);
            rec.borrow_mut().res.started = idx + 1;
            if idx < skip {
                return Ok(());
            }
            set_inner_skip(match inner {
                Some((c, h)) if c == idx => Some(h),
                _ => None,
            });
        }
        let to_json = || serde_json::to_value(&case).unwrap_or(serde_json::Value::Null);
        rec.borrow().about_to_run(&to_json);
        case_started(opts);
        let v = run_checked(check, &case);
        case_finished();
        if failed.get() {
            // shrinking: only decide whether this candidate still fails in an unlisted way
            return match &v {
                Err(fails) if rec.borrow().unknown(fails).is_some() => Err(TestCaseError::fail("still failing")),
                _ => Ok(()),
            };
        }
        if rec.borrow_mut().record(&to_json, v) {
            rec.borrow().checkpoint();
            Ok(())
        } else {
            failed.set(true);
            Err(TestCaseError::fail("failing case"))
        }
    });
    let mut rec = rec.into_inner();
    match result {
        Ok(()) => {}
        Err(TestError::Fail(_, minimal)) => {
            if rec.res.harness_error.is_none() {
                // re-evaluate the minimal case to obtain its own failure list
                let v = run_checked(check, &minimal);
                if let Err(fails) = v {
                    if rec.unknown(&fails).is_some() {
                        let case = serde_json::to_value(&minimal).unwrap_or(serde_json::Value::Null);
                        rec.res.failure = Some(FailureRec { case, fails });
                    }
                }
                // otherwise keep the original (unshrunk) failing case recorded at first failure
            }
        }
        Err(TestError::Abort(reason)) => {
            rec.res.harness_error = Some(format!("proptest aborted: {reason}"));
        }
    }
    rec.finish(t0)
}



impl DynSub for EnumSub {
    fn name(&self) -> &str {
        self.name
    }
    fn rule(&self) -> &str {
        self.rule
    }
    fn opts(&self) -> &SubOpts {
        &self.opts
    }
    fn cases(&self, tier: Tier) -> u64 {
        // number of shards; the enumeration decides its own size
        tier.pick(self.shards.0, self.shards.1) as u64
    }
    fn fixed_shards(&self, tier: Tier) -> Option<usize> {
        Some(tier.pick(self.shards.0, self.shards.1).max(1))
    }
    fn run_shard(&self, sc: &ShardCtx, known: &dyn Fn(&str) -> bool) -> ShardResult {
        let t0 = Instant::now();
        let mut rec = Recorder::new(known, if self.opts.isolate { sc.cur_path.clone() } else { None });
        let run = self.run;
        if let Err(info) = panics::catch(|| run(sc, &mut rec)) {
            if info.in_harness() {
                rec.res.harness_error = Some(info.describe());
            } else {
                // a panic that escaped the per-case guard of an enumeration
                rec.res.failure = Some(FailureRec { case: serde_json::Value::Null, fails: vec![Fail::new(info.sig(), info.describe())] });
            }
        }
        rec.finish(t0)
    }
    fn replay(&self, case: &serde_json::Value) -> Result<Verdict, String> {
        let f = self.replay;
        let case = case.clone();
        match panics::catch(move || f(&case)) {
            Ok(v) => Ok(v),
            Err(info) => {
                if info.in_harness() {
                    Ok(Err(vec![Fail::new(HARNESS_PANIC, info.describe())]))
                } else {
                    Ok(Err(vec![Fail::new(info.sig(), info.describe())]))
                }
            }
        }
    }
}

/// Closure-based variant of `PropSub` (sub-checks parameterised at run time, e.g. per format driver).
pub struct ClosureSub<C> {
    pub name: String,
    pub rule: String,
    pub strategy: Box<dyn Fn(Tier) -> BoxedStrategy<C> + Send + Sync>,
    pub check: Box<dyn Fn(&C) -> Verdict + Send + Sync>,
    pub quick: u64,
    pub thorough: u64,
    pub opts: SubOpts,
}

impl<C> ClosureSub<C> {
    pub fn with(mut self, f: impl FnOnce(&mut SubOpts)) -> Self {
        f(&mut self.opts);
        self
    }
    pub fn boxed(self) -> Box<dyn DynSub>
    where
        C: Case,
    {
        Box::new(self)
    }
}

impl<C: Case> DynSub for ClosureSub<C> {
    fn name(&self) -> &str {
        &self.name
    }
    fn rule(&self) -> &str {
        &self.rule
    }
    fn opts(&self) -> &SubOpts {
        &self.opts
    }
    fn cases(&self, tier: Tier) -> u64 {
        tier.pick(self.quick, self.thorough)
    }
    fn run_shard(&self, sc: &ShardCtx, known: &dyn Fn(&str) -> bool) -> ShardResult {
        run_prop_shard(&*self.strategy, &*self.check, &self.opts, sc, known)
    }
    fn replay(&self, case: &serde_json::Value) -> Result<Verdict, String> {
        let c: C = serde_json::from_value(case.clone()).map_err(|e| format!("cannot decode case: {e}"))?;
        Ok(run_checked(&*self.check, &c))
    }
}
