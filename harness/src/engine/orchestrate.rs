//! Parent-side orchestration: known findings, regression replays, shard job pool, merging,
//! evidence, exit codes (0 held / 1 violation / 2 inconclusive).

use super::*;
use std::collections::{BTreeMap, BTreeSet, VecDeque};
use std::io::Write as _;
use std::path::{Path, PathBuf};
use std::process::{Command, Stdio};
use std::sync::{Arc, Mutex};
use std::time::{Duration, Instant};

pub fn root() -> PathBuf {
    PathBuf::from(std::env::var("VERIF_ROOT").unwrap_or_else(|_| "/verif".into()))
}

pub fn seed_from_env() -> u64 {
    std::env::var("VERIF_SEED").ok().and_then(|s| s.trim().parse::<u64>().ok()).unwrap_or(20260925)
}

#[derive(Clone, Debug)]
pub struct Known {
    pub property: String,
    pub sig: String,
    pub replay: Option<String>,
    pub desc: String,
}

/// Parse KNOWN_FINDINGS.txt. Lines:
/// `known: property=Cxx sig=<sig, may contain spaces> replay=<path|-> :: <description>`
/// `fixed: property=Cxx <commit> <what failed>` (suppresses nothing)
pub fn load_known() -> Vec<Known> {
    let path = root().join("KNOWN_FINDINGS.txt");
    let mut out = Vec::new();
    let Ok(text) = std::fs::read_to_string(&path) else { return out };
    for line in text.lines() {
        let line = line.trim();
        let Some(rest) = line.strip_prefix("known:") else { continue };
        let (head, desc) = match rest.split_once(" :: ") {
            Some((h, d)) => (h.trim(), d.trim().to_string()),
            None => (rest.trim(), String::new()),
        };
        let Some(p0) = head.find("property=") else { continue };
        let Some(s0) = head.find(" sig=") else { continue };
        let property = head[p0 + 9..s0].trim().to_string();
        let after_sig = &head[s0 + 5..];
        let (sig, replay) = match after_sig.rfind(" replay=") {
            Some(r0) => {
                let r = after_sig[r0 + 8..].trim();
                (after_sig[..r0].to_string(), if r == "-" || r.is_empty() { None } else { Some(r.to_string()) })
            }
            None => (after_sig.to_string(), None),
        };
        out.push(Known { property, sig: sig.trim().to_string(), replay, desc });
    }
    out
}

pub fn known_sigs_for(prop: &str) -> BTreeSet<String> {
    load_known().into_iter().filter(|k| k.property == prop).map(|k| k.sig).collect()
}

#[derive(Clone, Debug, serde::Serialize, serde::Deserialize)]
pub struct ReplayFile {
    pub property: String,
    pub sub: String,
    #[serde(default)]
    pub seed: u64,
    #[serde(default)]
    pub tier: String,
    pub case: serde_json::Value,
    #[serde(default)]
    pub fails: Vec<Fail>,
}

#[derive(Clone, Debug, serde::Serialize, serde::Deserialize)]
pub struct ReplayOutcome {
    pub pass: bool,
    pub fails: Vec<Fail>,
    #[serde(default)]
    pub error: Option<String>,
}

/// An attributed case is re-run alone with this multiple of the per-case budget before its abort or
/// hang counts.
const RERUN_FACTOR: u64 = 6;

struct Job {
    sub_idx: usize,
    shard: usize,
    nshards: usize,
    cases: u64,
}

enum ChildEnd {
    Exited(i32),
    Signaled(i32),
    TimedOut,
}

fn wait_with_timeout(child: &mut std::process::Child, limit: Duration) -> ChildEnd {
    use std::os::unix::process::ExitStatusExt;
    let t0 = Instant::now();
    loop {
        match child.try_wait() {
            Ok(Some(st)) => {
                if let Some(code) = st.code() {
                    return ChildEnd::Exited(code);
                }
                return ChildEnd::Signaled(st.signal().unwrap_or(0));
            }
            Ok(None) => {}
            Err(_) => return ChildEnd::Exited(-1),
        }
        if t0.elapsed() > limit {
            let _ = child.kill();
            let _ = child.wait();
            return ChildEnd::TimedOut;
        }
        std::thread::sleep(Duration::from_millis(20));
    }
}

pub fn signal_name(sig: i32) -> String {
    match sig {
        6 => "SIGABRT".into(),
        9 => "SIGKILL".into(),
        11 => "SIGSEGV".into(),
        7 => "SIGBUS".into(),
        4 => "SIGILL".into(),
        8 => "SIGFPE".into(),
        n => format!("SIG{n}"),
    }
}

/// Replay one file in a child process (so an abort cannot take the orchestrator down).
pub fn replay_in_child(path: &Path, env: &[(String, String)], limit: Duration) -> ReplayOutcome {
    let exe = std::env::current_exe().expect("current_exe");
    let mut cmd = Command::new(exe);
    cmd.arg("replay-json").arg(path).stdout(Stdio::piped()).stderr(Stdio::piped()).stdin(Stdio::null());
    // a backtrace on stderr lets an abort (allocation failure, stack overflow has none) be attributed to a site
    cmd.env("RUST_BACKTRACE", "1");
    for (k, v) in env {
        cmd.env(k, v);
    }
    let mut child = match cmd.spawn() {
        Ok(c) => c,
        Err(e) => return ReplayOutcome { pass: false, fails: vec![], error: Some(format!("spawn: {e}")) },
    };
    // read stdout on a thread to avoid pipe deadlock
    let mut stdout = child.stdout.take().unwrap();
    let h = std::thread::spawn(move || {
        let mut s = String::new();
        let _ = std::io::Read::read_to_string(&mut stdout, &mut s);
        s
    });
    let mut stderr = child.stderr.take().unwrap();
    let he = std::thread::spawn(move || {
        let mut b = Vec::new();
        let _ = std::io::Read::read_to_end(&mut stderr, &mut b);
        String::from_utf8_lossy(&b).into_owned()
    });
    let end = wait_with_timeout(&mut child, limit);
    let out = h.join().unwrap_or_default();
    let err = he.join().unwrap_or_default();
    match end {
        ChildEnd::Exited(_) => {
            for line in out.lines().rev() {
                if let Ok(o) = serde_json::from_str::<ReplayOutcome>(line) {
                    return o;
                }
            }
            ReplayOutcome { pass: false, fails: vec![], error: Some(format!("no outcome from replay child: {}", trunc(&out, 300))) }
        }
        ChildEnd::Signaled(s) => {
            let (site, first_line) = abort_site(&err);
            let sig = match site {
                Some(f) => format!("abort:{}:{}", signal_name(s), f),
                None => format!("abort:{}", signal_name(s)),
            };
            ReplayOutcome { pass: false, fails: vec![Fail::new(sig, format!("process died with {} — {}", signal_name(s), trunc(&first_line, 300)))], error: None }
        }
        ChildEnd::TimedOut => ReplayOutcome { pass: false, fails: vec![Fail::new("hang", format!("no result within {:?}", limit))], error: None },
    }
}

/// From the stderr of an aborted process: the innermost noodles function on the backtrace (frame
/// name without the hash) and the first diagnostic line.
pub fn abort_site(stderr: &str) -> (Option<String>, String) {
    let lines: Vec<&str> = stderr.lines().collect();
    let first = lines.iter().find(|l| l.contains("memory allocation") || l.contains("overflowed its stack") || l.contains("panicked") || l.contains("fatal runtime error")).map(|s| s.trim().to_string()).unwrap_or_default();
    for w in lines.windows(2) {
        let (name, at) = (w[0].trim(), w[1].trim());
        if at.starts_with("at ") && at.contains("/noodles-") && !at.contains("/registry/") {
            // "14: noodles_bam::io::reader::header::reference_sequences::read_reference_sequences"
            let f = name.split_once(": ").map(|x| x.1).unwrap_or(name);
            let f = match f.rfind("::h") {
                Some(i) if f.len() - i == 19 && f[i + 3..].chars().all(|c| c.is_ascii_hexdigit()) => &f[..i],
                _ => f,
            };
            return (Some(f.chars().take(120).collect()), first);
        }
    }
    (None, first)
}

/// Abort / hang signatures without an attributed site are qualified with the sub-check name.
/// One class is deliberately not split by site: in C15's `codec-streams` sub-check a decoder that
/// asks for more memory than the per-case address-space cap allows (a hostile length turned into a
/// multi-gigabyte request) dies in whichever of a dozen `vec![0; n]` sites the stream reaches; which
/// one depends on the stream, the defect — "allocates what the input says before checking it
/// against the input's size" — is one, and a signature per site would make new seeds find new
/// "violations" of the same thing for ever.
fn qualified_sig(sig: &str, msg: &str, sub: &str) -> String {
    // (the same for the forked batches of C15's file targets, which run under a cap as well)
    if sig.starts_with("abort:") && msg.contains("memory allocation of") {
        return format!("abort:SIGABRT:memory-allocation-refused@{sub}");
    }
    if sig == "hang" || (sig.starts_with("abort:") && sig.matches(':').count() < 2) { format!("{sig}@{sub}") } else { sig.to_string() }
}

fn qualify_fails(fails: Vec<Fail>, sub: &str) -> Vec<Fail> {
    fails
        .into_iter()
        .map(|f| {
            let q = qualified_sig(&f.sig, &f.msg, sub);
            if q == f.sig { f } else { Fail::new(q, f.msg) }
        })
        .collect()
}

struct SubAgg {
    cases: u64,
    evals: u64,
    keys: BTreeSet<u64>,
    labels: BTreeMap<String, u64>,
    wall_s: f64,
}

pub fn run_property(prop: &Property, tier: Tier) -> i32 {
    let t0 = Instant::now();
    let seed = seed_from_env();
    let root = root();
    let all_known = load_known();
    let known: Vec<Known> = all_known.iter().filter(|k| k.property == prop.id).cloned().collect();
    let known_set: BTreeSet<String> = known.iter().map(|k| k.sig.clone()).collect();
    let base_tmp = std::env::temp_dir().join(format!("nv-{}-{}", prop.id, std::process::id()));
    let _ = std::fs::remove_dir_all(&base_tmp);
    std::fs::create_dir_all(&base_tmp).expect("create temp dir");
    let found_dir = root.join("replays/found");
    let _ = std::fs::create_dir_all(&found_dir);

    let mut violations: Vec<(String, String)> = Vec::new(); // (replay path, summary)
    let mut inconclusive: Vec<String> = Vec::new();
    let mut known_reproduced = 0usize;
    let mut regress_replayed = 0usize;

    let sub_env = |name: &str| -> Vec<(String, String)> { prop.subs.iter().find(|s| s.name() == name).map(|s| s.opts().env.clone()).unwrap_or_default() };
    let sub_budget = |name: &str| -> Duration {
        Duration::from_secs(prop.subs.iter().find(|s| s.name() == name).map(|s| s.opts().case_budget_s * 10).unwrap_or(200))
    };

    // Phase A: regression replays (fixed or once-found defects must stay fixed)
    let regress_dir = root.join("replays/regress");
    let mut regress: Vec<PathBuf> = std::fs::read_dir(&regress_dir)
        .map(|rd| rd.filter_map(|e| e.ok().map(|e| e.path())).collect())
        .unwrap_or_default();
    regress.sort();
    for path in regress {
        let fname = path.file_name().and_then(|s| s.to_str()).unwrap_or("");
        if !fname.starts_with(prop.id) || !fname.ends_with(".json") {
            continue;
        }
        let Ok(text) = std::fs::read_to_string(&path) else { continue };
        let Ok(rf) = serde_json::from_str::<ReplayFile>(&text) else {
            inconclusive.push(format!("unreadable regression replay {}", path.display()));
            continue;
        };
        regress_replayed += 1;
        let narrowed = rf.case.get("only").map(|v| v.is_number()).unwrap_or(false);
        let budget = if narrowed { sub_budget(&rf.sub).min(Duration::from_secs(40)) } else { sub_budget(&rf.sub) };
        let mut o = replay_in_child(&path, &sub_env(&rf.sub), budget);
        o.fails = qualify_fails(std::mem::take(&mut o.fails), &rf.sub);
        if let Some(e) = o.error {
            inconclusive.push(format!("regression replay {}: {}", path.display(), e));
        } else if !o.pass {
            let unknown: Vec<&Fail> = o.fails.iter().filter(|f| !known_set.contains(&f.sig)).collect();
            if let Some(f) = unknown.first() {
                violations.push((path.display().to_string(), format!("regression: sub={} sig={} {}", rf.sub, f.sig, trunc(&f.msg, 400))));
            }
        }
    }

    // Phase B: known findings — replay each (in parallel), report those that still reproduce
    let known_outcomes: Vec<Option<ReplayOutcome>> = {
        let slots: Vec<Mutex<Option<ReplayOutcome>>> = known.iter().map(|_| Mutex::new(None)).collect();
        let next = std::sync::atomic::AtomicUsize::new(0);
        std::thread::scope(|scope| {
            for _ in 0..prop.max_parallel.clamp(1, 16) {
                scope.spawn(|| {
                    loop {
                        let i = next.fetch_add(1, std::sync::atomic::Ordering::SeqCst);
                        let Some(k) = known.get(i) else { break };
                        let Some(rp) = &k.replay else { continue };
                        let path = root.join(rp);
                        let rf_known = std::fs::read_to_string(&path).ok().and_then(|t| serde_json::from_str::<ReplayFile>(&t).ok());
                        let sub_name = rf_known.as_ref().map(|r| r.sub.clone()).unwrap_or_default();
                        let narrowed = rf_known.as_ref().and_then(|r| r.case.get("only").map(|v| v.is_number())).unwrap_or(false);
                        let budget = if narrowed { sub_budget(&sub_name).min(Duration::from_secs(40)) } else { sub_budget(&sub_name) };
                        let mut o = replay_in_child(&path, &sub_env(&sub_name), budget);
                        o.fails = qualify_fails(std::mem::take(&mut o.fails), &sub_name);
                        *slots[i].lock().unwrap() = Some(o);
                    }
                });
            }
        });
        slots.into_iter().map(|m| m.into_inner().unwrap()).collect()
    };
    for (ki, k) in known.iter().enumerate() {
        let Some(rp) = &k.replay else {
            println!("KNOWN-FINDING: property={} {} [sig={}] (no replay file; matched by signature during search)", prop.id, k.desc, k.sig);
            continue;
        };
        let path = root.join(rp);
        let Some(o) = known_outcomes[ki].clone() else { continue };
        if let Some(e) = &o.error {
            inconclusive.push(format!("known-finding replay {}: {}", path.display(), e));
            continue;
        }
        if !o.pass && o.fails.iter().any(|f| f.sig == k.sig) {
            known_reproduced += 1;
            println!("KNOWN-FINDING: property={} {} [sig={}]", prop.id, k.desc, k.sig);
        } else {
            println!("note: known finding no longer reproduces (repaired?): property={} sig={}", prop.id, k.sig);
        }
        if let Some(f) = o.fails.iter().find(|f| !known_set.contains(&f.sig)) {
            violations.push((path.display().to_string(), format!("known-finding replay fails differently: sig={} {}", f.sig, trunc(&f.msg, 400))));
        }
    }

    // Phase C: sharded search
    let mut jobs: VecDeque<Job> = VecDeque::new();
    let only = std::env::var("NV_ONLY_SUB").ok();
    for (i, s) in prop.subs.iter().enumerate() {
        if let Some(f) = &only {
            // debugging aid: run only the sub-checks whose name contains one of the comma-separated parts
            if !f.split(',').any(|part| s.name().contains(part)) {
                continue;
            }
        }
        let total = s.cases(tier);
        if total == 0 {
            continue;
        }
        let nshards = s.fixed_shards(tier).unwrap_or_else(|| shard_count(s.as_ref(), tier));
        for sh in 0..nshards {
            let cases = total / nshards as u64 + if (sh as u64) < total % nshards as u64 { 1 } else { 0 };
            jobs.push_back(Job { sub_idx: i, shard: sh, nshards, cases });
        }
    }
    let njobs = jobs.len();
    let queue = Arc::new(Mutex::new(jobs));
    let results: Arc<Mutex<Vec<(usize, usize, Result<ShardResult, String>, Option<serde_json::Value>, Option<ReplayOutcome>)>>> = Arc::new(Mutex::new(Vec::new()));
    // set once an abnormal end (abort, hang) has been reproduced alone and is not a listed finding:
    // the run is a VIOLATION whatever the remaining jobs say, and every further hang would cost its
    // full budget, so the jobs not yet started are skipped (counted below)
    let stop_after_confirmed_abnormal = Arc::new(std::sync::atomic::AtomicBool::new(false));
    let skipped_jobs = Arc::new(std::sync::atomic::AtomicU64::new(0));
    let exe = std::env::current_exe().expect("current_exe");
    let nworkers = prop.max_parallel.max(1).min(njobs.max(1));
    let partials: Arc<Mutex<Vec<(usize, Option<ShardResult>)>>> = Arc::new(Mutex::new(Vec::new()));
    let known_ref = &known_set;
    std::thread::scope(|scope| {
        for _ in 0..nworkers {
            let queue = queue.clone();
            let results = results.clone();
            let partials = partials.clone();
            let exe = exe.clone();
            let base_tmp = base_tmp.clone();
            let prop_ref = &*prop;
            let stop = stop_after_confirmed_abnormal.clone();
            let skipped = skipped_jobs.clone();
            scope.spawn(move || {
                loop {
                    let job = { queue.lock().unwrap().pop_front() };
                    let Some(job) = job else { break };
                    if stop.load(std::sync::atomic::Ordering::Relaxed) {
                        skipped.fetch_add(1, std::sync::atomic::Ordering::Relaxed);
                        continue;
                    }
                    let s = &prop_ref.subs[job.sub_idx];
                    let out = base_tmp.join(format!("{}-{}.json", s.name(), job.shard));
                    let cur = base_tmp.join(format!("{}-{}.cur", s.name(), job.shard));
                    let tmp = base_tmp.join(format!("{}-{}.d", s.name(), job.shard));
                    let _ = std::fs::create_dir_all(&tmp);
                    let limit = Duration::from_secs(tier.pick(s.opts().timeout_s.0, s.opts().timeout_s.1));
                    let ckpt_path = cur.with_extension("ckpt");
                    let mut skip: u64 = 0;
                    let mut skip_inner: Option<(u64, u64)> = None;
                    let mut acc: Option<ShardResult> = None;
                    let mut restarts = 0u32;
                    let mut attr_outcome: Option<ReplayOutcome> = None;
                    let res: (Result<ShardResult, String>, Option<serde_json::Value>) = loop {
                        let _ = std::fs::remove_file(&out);
                        let _ = std::fs::remove_file(&cur);
                        let _ = std::fs::remove_file(&ckpt_path);
                        let _ = std::fs::remove_file(cur.with_extension("idx"));
                        let mut cmd = Command::new(&exe);
                        cmd.arg("shard")
                            .arg(prop_ref.id)
                            .arg(s.name())
                            .arg(job.shard.to_string())
                            .arg(job.nshards.to_string())
                            .arg(tier.name())
                            .arg(seed.to_string())
                            .arg(job.cases.to_string())
                            .arg(&out)
                            .arg(&cur)
                            .arg(&tmp)
                            .env("NV_SKIP_CASES", skip.to_string())
                            .env("NV_SKIP_INNER", skip_inner.map(|(c, h)| format!("{c}:{h}")).unwrap_or_default())
                            .stdin(Stdio::null())
                            .stdout(Stdio::null())
                            .stderr(Stdio::null());
                        if std::env::var("NV_DEBUG").is_ok() {
                            cmd.stderr(Stdio::inherit());
                        }
                        for (k, v) in &s.opts().env {
                            cmd.env(k, v);
                        }
                        let mut child = match cmd.spawn() {
                            Err(e) => break (Err(format!("spawn failed: {e}")), None),
                            Ok(c) => c,
                        };
                        let end = wait_with_timeout(&mut child, limit);
                        let mut cur_case = std::fs::read(&cur).ok().and_then(|b| serde_json::from_slice::<serde_json::Value>(&b).ok());
                        // a check that runs a family of inner evaluations notes which one was running
                        let mut narrowed = false;
                        if let (Some(serde_json::Value::Object(m)), Some(h)) = (cur_case.as_mut(), std::fs::read_to_string(cur.with_extension("hint")).ok().and_then(|t| t.trim().parse::<u64>().ok())) {
                            if m.contains_key("only") {
                                m.insert("only".into(), serde_json::json!(h));
                                narrowed = true;
                            }
                        }
                        // a single inner evaluation needs only a fraction of the whole case's budget
                        let rerun_budget = if narrowed { (s.opts().case_budget_s * 10).min(40) } else { s.opts().case_budget_s * RERUN_FACTOR };
                        let why = match end {
                            ChildEnd::Exited(0) => match std::fs::read(&out).ok().and_then(|b| serde_json::from_slice::<ShardResult>(&b).ok()) {
                                Some(r) => {
                                    break (Ok(match acc.take() {
                                        Some(a) => a.merge(r),
                                        None => r,
                                    }), None);
                                }
                                None => "shard produced no result file".to_string(),
                            },
                            ChildEnd::Exited(c) if c == shard::EXIT_CASE_TIMEOUT => "case-timeout".to_string(),
                            ChildEnd::Exited(c) => format!("shard exited with code {c}"),
                            ChildEnd::Signaled(sg) => format!("signal:{}", signal_name(sg)),
                            ChildEnd::TimedOut => "timeout".to_string(),
                        };
                        // abnormal end: is it a listed known abort/hang of the case that was running?
                        let ckpt = std::fs::read(&ckpt_path).ok().and_then(|b| serde_json::from_slice::<ShardResult>(&b).ok());
                        if s.opts().isolate && restarts < 40 {
                            if let Some(case) = &cur_case {
                                let tmp_replay = base_tmp.join(format!("{}-{}.attr.json", s.name(), job.shard));
                                let rf = ReplayFile { property: prop_ref.id.into(), sub: s.name().into(), seed, tier: tier.name().into(), case: case.clone(), fails: vec![] };
                                let _ = std::fs::write(&tmp_replay, serde_json::to_vec(&rf).unwrap());
                                let o = replay_in_child(&tmp_replay, &s.opts().env, Duration::from_secs(rerun_budget));
                                let fails = qualify_fails(o.fails.clone(), s.name());
                                let hang_ok = !fails.iter().any(|f| f.sig.starts_with("hang")) || s.opts().hang_is_violation;
                                if o.error.is_none() && !o.pass && !fails.is_empty() && hang_ok && fails.iter().all(|f| known_ref.contains(&f.sig)) {
                                    let mut part = ckpt.clone().unwrap_or_default();
                                    for f in &fails {
                                        *part.excluded_known.entry(f.sig.clone()).or_insert(0) += 1;
                                    }
                                    let idx = std::fs::read_to_string(cur.with_extension("idx")).ok().and_then(|t| t.trim().parse::<u64>().ok());
                                    let hint = std::fs::read_to_string(cur.with_extension("hint")).ok().and_then(|t| t.trim().parse::<u64>().ok());
                                    let next = match (idx, hint) {
                                        // resume the same case behind the inner evaluation that died
                                        (Some(i), Some(h)) if skip_inner.map(|(c, ph)| c != i || h > ph).unwrap_or(true) => {
                                            skip_inner = Some((i, h));
                                            i
                                        }
                                        _ => {
                                            skip_inner = None;
                                            idx.map(|i| i + 1).unwrap_or(part.started.max(skip) + 1).max(skip + 1)
                                        }
                                    };
                                    acc = Some(match acc.take() {
                                        Some(a) => a.merge(part),
                                        None => part,
                                    });
                                    // the checkpoint is written after a case completes: the case that died is `started` (0-based) of the checkpoint
                                    skip = next;
                                    restarts += 1;
                                    continue;
                                }
                                // reproduced alone and not listed: a violation is certain
                                if o.error.is_none() && !o.pass && !fails.is_empty() && hang_ok {
                                    stop.store(true, std::sync::atomic::Ordering::Relaxed);
                                }
                                attr_outcome = Some(o);
                            }
                        }
                        // not a listed known finding: hand over to the attribution below, keeping what was counted
                        if let Some(c) = ckpt {
                            acc = Some(match acc.take() {
                                Some(a) => a.merge(c),
                                None => c,
                            });
                        }
                        partials.lock().unwrap().push((job.sub_idx, acc.take()));
                        break (Err(why), cur_case);
                    };
                    let _ = std::fs::remove_dir_all(&tmp);
                    results.lock().unwrap().push((job.sub_idx, job.shard, res.0, res.1, attr_outcome));
                }
            });
        }
    });

    // merge
    let mut aggs: BTreeMap<usize, SubAgg> = BTreeMap::new();
    let mut excluded: BTreeMap<String, u64> = BTreeMap::new();
    let mut samples: Vec<serde_json::Value> = Vec::new();
    let mut results = std::mem::take(&mut *results.lock().unwrap());
    results.sort_by_key(|r| (r.0, r.1));
    let mut seen_fail_sigs: BTreeSet<String> = BTreeSet::new();
    let n_skipped = skipped_jobs.load(std::sync::atomic::Ordering::Relaxed);
    for (si, sh, res, cur_case, attr_outcome) in results {
        let s = &prop.subs[si];
        let agg = aggs.entry(si).or_insert_with(|| SubAgg { cases: 0, evals: 0, keys: BTreeSet::new(), labels: BTreeMap::new(), wall_s: 0.0 });
        match res {
            Ok(r) => {
                agg.cases += r.cases;
                agg.evals += r.evals;
                agg.keys.extend(r.nontrivial_keys.iter().copied());
                for (l, c) in &r.labels {
                    *agg.labels.entry(l.clone()).or_insert(0) += c;
                }
                for (l, c) in &r.excluded_known {
                    *excluded.entry(l.clone()).or_insert(0) += c;
                }
                agg.wall_s = agg.wall_s.max(r.wall_s);
                let n_here = samples.iter().filter(|v| v.get("sub").and_then(|x| x.as_str()) == Some(s.name())).count();
                for (i, smp) in r.samples.into_iter().enumerate() {
                    if n_here + i < 3 {
                        samples.push(serde_json::json!({"sub": s.name(), "case": smp}));
                    }
                }
                if let Some(e) = r.harness_error {
                    inconclusive.push(format!("sub={} shard={}: harness error: {}", s.name(), sh, e));
                }
                if let Some(f) = r.failure {
                    let first = f.fails.iter().find(|x| !known_set.contains(&x.sig)).cloned().unwrap_or(Fail::new("?", "?"));
                    if seen_fail_sigs.insert(format!("{}|{}", s.name(), first.sig)) {
                        let path = write_found(&found_dir, prop.id, s.name(), seed, tier, &f.case, &f.fails);
                        violations.push((path, format!("sub={} sig={} {}", s.name(), first.sig, trunc(&first.msg, 600))));
                    }
                }
            }
            Err(why) => {
                let attributable = s.opts().isolate && cur_case.is_some();
                if !attributable {
                    inconclusive.push(format!("sub={} shard={}: {} (case not attributable)", s.name(), sh, why));
                    continue;
                }
                // re-run the attributed case alone with the 10× budget
                let case = cur_case.unwrap();
                let tmp_replay = base_tmp.join(format!("{}-{}.attr.json", s.name(), sh));
                let rf = ReplayFile { property: prop.id.into(), sub: s.name().into(), seed, tier: tier.name().into(), case: case.clone(), fails: vec![] };
                let _ = std::fs::write(&tmp_replay, serde_json::to_vec(&rf).unwrap());
                let narrowed = case.get("only").map(|v| v.is_number()).unwrap_or(false);
                let budget = if narrowed { (s.opts().case_budget_s * 10).min(40) } else { s.opts().case_budget_s * RERUN_FACTOR };
                // (the worker has usually re-run it already when it looked for a listed finding)
                let o = match attr_outcome {
                    Some(o) => o,
                    None => replay_in_child(&tmp_replay, &s.opts().env, Duration::from_secs(budget)),
                };
                if o.pass || o.error.is_some() {
                    inconclusive.push(format!("sub={} shard={}: {} (did not reproduce alone: {:?})", s.name(), sh, why, o.error));
                    continue;
                }
                let is_hang = o.fails.iter().any(|f| f.sig == "hang");
                if is_hang && !s.opts().hang_is_violation {
                    inconclusive.push(format!("sub={} shard={}: case exceeds the time budget (not a violation of this property)", s.name(), sh));
                    continue;
                }
                // qualify abort/hang signatures with the sub-check name
                let fails: Vec<Fail> = o
                    .fails
                    .into_iter()
                    .map(|f| {
                        let q = qualified_sig(&f.sig, &f.msg, s.name());
                        if q == f.sig { f } else { Fail::new(q, f.msg) }
                    })
                    .collect();
                if let Some(first) = fails.iter().find(|x| !known_set.contains(&x.sig)).cloned() {
                    if seen_fail_sigs.insert(format!("{}|{}", s.name(), first.sig)) {
                        let path = write_found(&found_dir, prop.id, s.name(), seed, tier, &case, &fails);
                        violations.push((path, format!("sub={} sig={} {}", s.name(), first.sig, trunc(&first.msg, 600))));
                    }
                } else {
                    for f in &fails {
                        *excluded.entry(f.sig.clone()).or_insert(0) += 1;
                    }
                    inconclusive.push(format!("sub={} shard={}: stopped early by a known abort/hang; remaining cases of the shard not run", s.name(), sh));
                }
            }
        }
    }

    for (si, part) in std::mem::take(&mut *partials.lock().unwrap()) {
        if let Some(r) = part {
            let agg = aggs.entry(si).or_insert_with(|| SubAgg { cases: 0, evals: 0, keys: BTreeSet::new(), labels: BTreeMap::new(), wall_s: 0.0 });
            agg.cases += r.cases;
            agg.evals += r.evals;
            agg.keys.extend(r.nontrivial_keys.iter().copied());
            for (l, c) in &r.labels {
                *agg.labels.entry(l.clone()).or_insert(0) += c;
            }
            for (l, c) in &r.excluded_known {
                *excluded.entry(l.clone()).or_insert(0) += c;
            }
        }
    }
    let mut all_keys: BTreeSet<u64> = BTreeSet::new();
    let mut evaluations = 0u64;
    let mut subchecks = serde_json::Map::new();
    let mut classes = serde_json::Map::new();
    let mut exhaustive_subs: Vec<String> = Vec::new();
    let mut rules: Vec<String> = vec![prop.rule.to_string()];
    for (si, agg) in &aggs {
        let s = &prop.subs[*si];
        evaluations += agg.evals;
        let h = fnv(s.name().as_bytes());
        all_keys.extend(agg.keys.iter().map(|k| mix(*k, h)));
        subchecks.insert(
            s.name().to_string(),
            serde_json::json!({"cases": agg.cases, "evaluations": agg.evals, "distinct_nontrivial": agg.keys.len(), "max_shard_wall_s": (agg.wall_s*100.0).round()/100.0, "exhaustive": s.opts().exhaustive, "rule": s.rule()}),
        );
        classes.insert(s.name().to_string(), serde_json::to_value(&agg.labels).unwrap());
        if s.opts().exhaustive {
            exhaustive_subs.push(s.name().to_string());
        }
        rules.push(format!("[{}] {}", s.name(), s.rule()));
    }
    let all_exhaustive = !aggs.is_empty() && aggs.keys().all(|si| prop.subs[*si].opts().exhaustive);
    let wall = t0.elapsed().as_secs_f64();
    let evidence = serde_json::json!({
        "property_id": prop.id,
        "tier": tier.name(),
        "seed": seed,
        "level": prop.level,
        "coverage": {
            "evaluations": evaluations,
            "distinct_nontrivial": all_keys.len(),
            "rule": rules.join(" | "),
            "samples": samples,
            "classes": classes,
            "subchecks": subchecks,
            "excluded_known": excluded,
            "known_findings_reproduced": known_reproduced,
            "regression_replays": regress_replayed,
            "exhaustive": all_exhaustive,
            "exhaustive_subchecks": exhaustive_subs,
            "inconclusive": inconclusive,
        },
        "assumptions": prop.assumptions,
        "wall_s": (wall * 100.0).round() / 100.0,
        "violations": violations.len(),
        "tools": {"engine": "nv (proptest 1.11 TestRunner, sharded child processes)", "profile": "verif: deps opt-level 2, debug-assertions+overflow-checks on", "rustc": option_env!("NV_RUSTC").unwrap_or("stable")},
    });
    let ev_dir = root.join("evidence");
    let _ = std::fs::create_dir_all(&ev_dir);
    let ev_path = ev_dir.join(format!("{}.json", prop.id));
    let tmp_path = ev_dir.join(format!(".{}.json.tmp", prop.id));
    if let Ok(mut f) = std::fs::File::create(&tmp_path) {
        let _ = f.write_all(serde_json::to_string_pretty(&evidence).unwrap().as_bytes());
        let _ = f.write_all(b"\n");
    }
    let _ = std::fs::rename(&tmp_path, &ev_path);
    let _ = std::fs::remove_dir_all(&base_tmp);

    println!(
        "{} {}: evaluations={} distinct_nontrivial={} excluded_known={} wall={:.1}s",
        prop.id,
        tier.name(),
        evaluations,
        all_keys.len(),
        excluded.values().sum::<u64>(),
        wall
    );
    for (si, agg) in &aggs {
        println!("  sub {:<28} cases={:<8} evals={:<10} distinct_nontrivial={:<7} wall={:.1}s", prop.subs[*si].name(), agg.cases, agg.evals, agg.keys.len(), agg.wall_s);
    }
    for (path, summary) in &violations {
        println!("VIOLATION property={} replay={}", prop.id, path);
        println!("  {}", summary);
    }
    if n_skipped > 0 {
        println!("note: {n_skipped} shard jobs were not started after an abort/hang had been reproduced alone (the run is a violation whatever they would say)");
        if violations.is_empty() {
            inconclusive.push(format!("{n_skipped} shard jobs not run"));
        }
    }
    for m in &inconclusive {
        println!("INCONCLUSIVE: property={} {}", prop.id, m);
    }
    if !violations.is_empty() {
        return 1;
    }
    if !inconclusive.is_empty() {
        return 2;
    }
    0
}

fn shard_count(s: &dyn DynSub, tier: Tier) -> usize {
    let total = s.cases(tier);
    let max = s.opts().max_shards.max(1) as u64;
    // enumeration subs declare their shard count through `cases`
    total.div_ceil(4).clamp(1, max) as usize
}

fn write_found(dir: &Path, prop: &str, sub: &str, seed: u64, tier: Tier, case: &serde_json::Value, fails: &[Fail]) -> String {
    let rf = ReplayFile { property: prop.into(), sub: sub.into(), seed, tier: tier.name().into(), case: case.clone(), fails: fails.to_vec() };
    let bytes = serde_json::to_vec_pretty(&rf).unwrap_or_default();
    let h = fnv(&serde_json::to_vec(case).unwrap_or_default());
    let path = dir.join(format!("{}-{}-{:016x}.json", prop, sub, h));
    let _ = std::fs::write(&path, bytes);
    path.display().to_string()
}

/// `nv shard ...` entry point.
pub fn shard_main(prop: &Property, args: &[String]) -> i32 {
    // <sub> <idx> <n> <tier> <seed> <cases> <out> <cur> <tmp>
    if args.len() < 9 {
        eprintln!("bad shard args");
        return 3;
    }
    let sub_name = &args[0];
    let shard: usize = args[1].parse().unwrap_or(0);
    let nshards: usize = args[2].parse().unwrap_or(1);
    let tier = Tier::parse(&args[3]).unwrap_or(Tier::Quick);
    let seed: u64 = args[4].parse().unwrap_or(0);
    let cases: u64 = args[5].parse().unwrap_or(0);
    let out = PathBuf::from(&args[6]);
    let cur = PathBuf::from(&args[7]);
    let tmp = PathBuf::from(&args[8]);
    let Some(s) = prop.subs.iter().find(|s| s.name() == sub_name) else {
        eprintln!("unknown sub {sub_name}");
        return 3;
    };
    let known = known_sigs_for(prop.id);
    let shard_seed = mix(mix(mix(seed, fnv(prop.id.as_bytes())), fnv(sub_name.as_bytes())), shard as u64 + 1);
    let sc = ShardCtx { tier, seed: shard_seed, shard, nshards, cases, cur_path: Some(cur), tmp_dir: tmp };
    panics::install_hook();
    let res = s.run_shard(&sc, &|sig: &str| known.contains(sig));
    match std::fs::write(&out, serde_json::to_vec(&res).unwrap_or_default()) {
        Ok(()) => 0,
        Err(_) => 3,
    }
}

/// `nv replay-json <path>`: one JSON line with the outcome (used by the orchestrator).
pub fn replay_json_main(lookup: &dyn Fn(&str) -> Option<Property>, path: &str) -> i32 {
    panics::install_hook();
    let outcome = (|| -> ReplayOutcome {
        let text = match std::fs::read_to_string(path) {
            Ok(t) => t,
            Err(e) => return ReplayOutcome { pass: false, fails: vec![], error: Some(format!("read {path}: {e}")) },
        };
        let rf: ReplayFile = match serde_json::from_str(&text) {
            Ok(r) => r,
            Err(e) => return ReplayOutcome { pass: false, fails: vec![], error: Some(format!("parse {path}: {e}")) },
        };
        let Some(prop) = lookup(&rf.property) else {
            return ReplayOutcome { pass: false, fails: vec![], error: Some(format!("unknown property {}", rf.property)) };
        };
        let Some(s) = prop.subs.iter().find(|s| s.name() == rf.sub) else {
            return ReplayOutcome { pass: false, fails: vec![], error: Some(format!("unknown sub {}", rf.sub)) };
        };
        match s.replay(&rf.case) {
            Err(e) => ReplayOutcome { pass: false, fails: vec![], error: Some(e) },
            Ok(Ok(_)) => ReplayOutcome { pass: true, fails: vec![], error: None },
            Ok(Err(fails)) => {
                if fails.iter().any(|f| f.sig == shard::HARNESS_PANIC) {
                    ReplayOutcome { pass: false, fails: vec![], error: Some(format!("harness panic: {}", fails[0].msg)) }
                } else {
                    ReplayOutcome { pass: false, fails, error: None }
                }
            }
        }
    })();
    println!("{}", serde_json::to_string(&outcome).unwrap());
    0
}

/// `nv replay <path>`: human-facing replay; exit 1 + VIOLATION line if the case fails in a way
/// that KNOWN_FINDINGS.txt does not list.
pub fn replay_main(lookup: &dyn Fn(&str) -> Option<Property>, path: &str) -> i32 {
    let p = PathBuf::from(path);
    let text = match std::fs::read_to_string(&p) {
        Ok(t) => t,
        Err(e) => {
            println!("INCONCLUSIVE: cannot read {path}: {e}");
            return 2;
        }
    };
    let rf: ReplayFile = match serde_json::from_str(&text) {
        Ok(r) => r,
        Err(e) => {
            println!("INCONCLUSIVE: cannot parse {path}: {e}");
            return 2;
        }
    };
    let Some(prop) = lookup(&rf.property) else {
        println!("INCONCLUSIVE: unknown property {}", rf.property);
        return 2;
    };
    let (env, budget) = prop
        .subs
        .iter()
        .find(|s| s.name() == rf.sub)
        .map(|s| (s.opts().env.clone(), s.opts().case_budget_s * 10))
        .unwrap_or((vec![], 200));
    let o = replay_in_child(&p, &env, Duration::from_secs(budget));
    if let Some(e) = o.error {
        println!("INCONCLUSIVE: {e}");
        return 2;
    }
    if o.pass {
        println!("replay passes: property={} sub={}", rf.property, rf.sub);
        return 0;
    }
    let known = known_sigs_for(&rf.property);
    let mut rc = 0;
    for f in &o.fails {
        // abort/hang signatures are qualified with the sub-check name in KNOWN_FINDINGS
        let q = qualified_sig(&f.sig, &f.msg, &rf.sub);
        if known.contains(&q) {
            println!("KNOWN-FINDING: property={} sig={} {}", rf.property, q, trunc(&f.msg, 600));
        } else {
            println!("VIOLATION property={} replay={}", rf.property, path);
            println!("  sub={} sig={} {}", rf.sub, q, trunc(&f.msg, 2000));
            rc = 1;
        }
    }
    rc
}
