//! Silent panic hook that records the location and message of the last panic, and helpers to turn
//! a caught panic into a failure signature that survives line shifts.

use std::panic::{self, AssertUnwindSafe};
use std::sync::Mutex;

#[derive(Clone, Debug)]
pub struct PanicInfo {
    pub file: String,
    pub line: u32,
    pub msg: String,
}

static LAST: Mutex<Option<PanicInfo>> = Mutex::new(None);

pub fn install_hook() {
    panic::set_hook(Box::new(|info| {
        let (file, line) = info.location().map(|l| (l.file().to_string(), l.line())).unwrap_or_default();
        let msg = if let Some(s) = info.payload().downcast_ref::<&str>() {
            s.to_string()
        } else if let Some(s) = info.payload().downcast_ref::<String>() {
            s.clone()
        } else {
            "<non-string panic payload>".to_string()
        };
        if std::env::var_os("NV_BACKTRACE").is_some() {
            eprintln!("panic at {file}:{line}: {msg}\n{}", std::backtrace::Backtrace::force_capture());
        }
        if let Ok(mut g) = LAST.lock() {
            // keep the FIRST panic of a case (a second one is usually a consequence)
            if g.is_none() {
                *g = Some(PanicInfo { file, line, msg });
            }
        }
    }));
}

pub fn clear() {
    if let Ok(mut g) = LAST.lock() {
        *g = None;
    }
}

pub fn take() -> Option<PanicInfo> {
    LAST.lock().ok().and_then(|mut g| g.take())
}

/// Normalise a panic message: digits → '#', runs collapsed, truncated.
pub fn normalise(msg: &str) -> String {
    let mut out = String::new();
    let mut last_hash = false;
    for ch in msg.chars() {
        if ch.is_ascii_digit() {
            if !last_hash {
                out.push('#');
            }
            last_hash = true;
        } else if ch == '\n' {
            break;
        } else {
            out.push(ch);
            last_hash = false;
        }
        if out.len() >= 90 {
            break;
        }
    }
    out
}

fn short_file(file: &str) -> String {
    // /repo/noodles-x/src/... → noodles-x/src/...; registry paths → crate dir/...
    if !file.contains("/registry/") {
        // any checkout of the repository: …/noodles-x/src/... → noodles-x/src/...
        if let Some(i) = file.find("/noodles-") {
            return file[i + 1..].to_string();
        }
    }
    if let Some(i) = file.find("/registry/src/") {
        let rest = &file[i + "/registry/src/".len()..];
        if let Some(j) = rest.find('/') {
            return format!("dep:{}", &rest[j + 1..]);
        }
    }
    if let Some(i) = file.find("/library/") {
        return format!("std:{}", &file[i + "/library/".len()..]);
    }
    file.to_string()
}

impl PanicInfo {
    /// Panic located in the harness's own sources (a bug in the check, not in noodles).
    pub fn in_harness(&self) -> bool {
        self.file.starts_with("src/") || self.file.starts_with("/verif/")
    }
    pub fn sig(&self) -> String {
        format!("panic:{}:{}", short_file(&self.file), normalise(&self.msg))
    }
    pub fn describe(&self) -> String {
        format!("panic at {}:{}: {}", self.file, self.line, super::trunc(&self.msg, 300))
    }
}

/// Run `f`, catching a panic. `Err(info)` carries where it happened.
pub fn catch<T>(f: impl FnOnce() -> T) -> Result<T, PanicInfo> {
    clear();
    match panic::catch_unwind(AssertUnwindSafe(f)) {
        Ok(v) => {
            // a panic on another thread that did not propagate is still recorded; leave it to
            // callers that care (see `take`)
            Ok(v)
        }
        Err(_) => Err(take().unwrap_or(PanicInfo { file: "<unknown>".into(), line: 0, msg: "<no hook info>".into() })),
    }
}
