//! Engine: sharded proptest / enumeration runner with accounting, shrinking, replay files,
//! known-finding classification, worker isolation and evidence output.
//!
//! Process model: `nv run <prop> <tier>` is the orchestrator. Every (sub-check, shard) pair is a
//! child process of the same binary (`nv shard ...`) so that aborts, stack overflows, hangs and
//! process-global settings (RAYON_NUM_THREADS) are attributable and isolated.

pub mod orchestrate;
pub mod panics;
pub mod shard;

use proptest::strategy::BoxedStrategy;
use serde::{Deserialize, Serialize, de::DeserializeOwned};
use std::collections::BTreeMap;
use std::fmt::Debug;

#[derive(Clone, Copy, PartialEq, Eq, Debug, Serialize, Deserialize)]
pub enum Tier {
    Quick,
    Thorough,
}

impl Tier {
    pub fn parse(s: &str) -> Option<Tier> {
        match s {
            "quick" => Some(Tier::Quick),
            "thorough" => Some(Tier::Thorough),
            _ => None,
        }
    }
    pub fn name(self) -> &'static str {
        match self {
            Tier::Quick => "quick",
            Tier::Thorough => "thorough",
        }
    }
    pub fn pick<T>(self, quick: T, thorough: T) -> T {
        match self {
            Tier::Quick => quick,
            Tier::Thorough => thorough,
        }
    }
}

/// What a passing case reports for the accounting.
#[derive(Clone, Debug, Default)]
pub struct Pass {
    /// non-trivial by the sub-check's stated rule
    pub nontrivial: bool,
    /// hash of the canonical case (distinctness)
    pub key: u64,
    /// class labels (histogram in the evidence file)
    pub labels: Vec<&'static str>,
    /// number of inner evaluations this case stands for (default 1)
    pub evals: u64,
}

impl Pass {
    pub fn new(nontrivial: bool, key: u64) -> Pass {
        Pass { nontrivial, key, labels: Vec::new(), evals: 1 }
    }
    pub fn label(mut self, l: &'static str) -> Pass {
        self.labels.push(l);
        self
    }
    pub fn label_if(mut self, c: bool, l: &'static str) -> Pass {
        if c {
            self.labels.push(l);
        }
        self
    }
    pub fn evals(mut self, n: u64) -> Pass {
        self.evals = n;
        self
    }
}

/// One way a case failed. `sig` names the failing class / call site (used to match
/// KNOWN_FINDINGS.txt); `msg` is the human-readable detail.
#[derive(Clone, Debug, Serialize, Deserialize)]
pub struct Fail {
    pub sig: String,
    pub msg: String,
    /// top-level keys to merge into the recorded case so that the replay file pins exactly what
    /// failed (e.g. the inner evaluation index of a family case, or input bytes that are not a pure
    /// function of the case)
    #[serde(default, skip_serializing_if = "Option::is_none")]
    pub patch: Option<serde_json::Value>,
}

impl Fail {
    pub fn new(sig: impl Into<String>, msg: impl Into<String>) -> Fail {
        Fail { sig: sig.into(), msg: msg.into(), patch: None }
    }
    pub fn with_patch(mut self, patch: serde_json::Value) -> Fail {
        self.patch = Some(patch);
        self
    }
}

/// Merge a failure's patch into a case (top-level object keys).
pub fn apply_patch(case: &mut serde_json::Value, patch: &Option<serde_json::Value>) {
    if let (serde_json::Value::Object(c), Some(serde_json::Value::Object(p))) = (case, patch) {
        for (k, v) in p {
            c.insert(k.clone(), v.clone());
        }
    }
}

/// A case either passes (with accounting data) or fails in one or more ways. A property that can
/// keep checking after a first discrepancy should collect all of them, so that a known finding in
/// one field does not mask an unknown one in another.
pub type Verdict = Result<Pass, Vec<Fail>>;

pub fn fail1(sig: impl Into<String>, msg: impl Into<String>) -> Verdict {
    Err(vec![Fail::new(sig, msg)])
}

/// Collector for several independent discrepancies in one case.
#[derive(Default)]
pub struct Fails(pub Vec<Fail>);

impl Fails {
    pub fn new() -> Fails {
        Fails(Vec::new())
    }
    /// Keeps the first failure per signature (at most 16 signatures).
    pub fn push(&mut self, sig: impl Into<String>, msg: impl Into<String>) {
        let sig = sig.into();
        if self.0.len() < 16 && !self.0.iter().any(|f| f.sig == sig) {
            self.0.push(Fail::new(sig, msg));
        }
    }
    pub fn push_fail(&mut self, f: Fail) {
        if self.0.len() < 16 && !self.0.iter().any(|x| x.sig == f.sig) {
            self.0.push(f);
        }
    }
    pub fn is_empty(&self) -> bool {
        self.0.is_empty()
    }
    /// `Ok(pass)` when nothing failed. Otherwise `Err(failures)`; the accounting data is stashed
    /// so that a case whose only failures are listed known findings is still counted with its
    /// labels and evaluations.
    pub fn finish(self, pass: Pass) -> Verdict {
        if self.0.is_empty() {
            Ok(pass)
        } else {
            stash_pass(pass);
            Err(self.0)
        }
    }
}

#[macro_export]
macro_rules! ensure {
    ($cond:expr, $sig:expr, $($arg:tt)*) => {
        if !($cond) {
            return Err(vec![$crate::engine::Fail::new($sig, format!($($arg)*))]);
        }
    };
}

#[macro_export]
macro_rules! ensure_eq {
    ($a:expr, $b:expr, $sig:expr, $what:expr) => {{
        let (a, b) = (&$a, &$b);
        if a != b {
            return Err(vec![$crate::engine::Fail::new(
                $sig,
                format!("{}: left={} right={}", $what, $crate::engine::trunc(&format!("{:?}", a), 600), $crate::engine::trunc(&format!("{:?}", b), 600)),
            )]);
        }
    }};
}

pub fn trunc(s: &str, n: usize) -> String {
    if s.len() <= n {
        s.to_string()
    } else {
        let mut end = n;
        while !s.is_char_boundary(end) {
            end -= 1;
        }
        format!("{}…[{} bytes]", &s[..end], s.len())
    }
}

/// FNV-1a, 64 bit — deterministic, no std RandomState.
pub fn fnv(bytes: &[u8]) -> u64 {
    let mut h: u64 = 0xcbf29ce484222325;
    for b in bytes {
        h ^= *b as u64;
        h = h.wrapping_mul(0x100000001b3);
    }
    h
}

pub fn key_of<T: Serialize>(t: &T) -> u64 {
    fnv(&serde_json::to_vec(t).unwrap_or_default())
}

pub fn mix(a: u64, b: u64) -> u64 {
    let mut z = a ^ b.wrapping_mul(0x9E3779B97F4A7C15).rotate_left(31);
    z = (z ^ (z >> 30)).wrapping_mul(0xBF58476D1CE4E5B9);
    z = (z ^ (z >> 27)).wrapping_mul(0x94D049BB133111EB);
    z ^ (z >> 31)
}

/// Monotone index mapping for generated selectors (never `%`, so shrinking moves towards 0).
pub fn pick_idx(sel: u16, len: usize) -> usize {
    if len == 0 { 0 } else { ((sel as usize) * len) >> 16 }
}

#[derive(Clone, Debug)]
pub struct SubOpts {
    /// extra environment for the shard processes (e.g. RAYON_NUM_THREADS)
    pub env: Vec<(String, String)>,
    /// record the current case on disk before executing it (abort / overflow / hang attribution)
    pub isolate: bool,
    /// per-shard wall-clock limit in seconds (quick, thorough); expiry = INCONCLUSIVE unless
    /// `hang_is_violation`
    pub timeout_s: (u64, u64),
    /// per-case budget in seconds used when a hang/abort is re-run alone (10× rule)
    pub case_budget_s: u64,
    /// termination is part of the property (C03 finish(), C15)
    pub hang_is_violation: bool,
    /// max shards
    pub max_shards: usize,
    pub max_shrink_iters: u32,
    /// this sub-check completes a finite space (reported in the evidence)
    pub exhaustive: bool,
}

impl Default for SubOpts {
    fn default() -> Self {
        SubOpts {
            env: Vec::new(),
            isolate: false,
            timeout_s: (900, 7200),
            case_budget_s: 20,
            hang_is_violation: false,
            max_shards: 16,
            max_shrink_iters: 600,
            exhaustive: false,
        }
    }
}

pub struct ShardCtx {
    pub tier: Tier,
    pub seed: u64,
    pub shard: usize,
    pub nshards: usize,
    /// cases assigned to this shard (proptest subs)
    pub cases: u64,
    pub cur_path: Option<std::path::PathBuf>,
    pub tmp_dir: std::path::PathBuf,
}

#[derive(Clone, Debug, Serialize, Deserialize, Default)]
pub struct FailureRec {
    pub case: serde_json::Value,
    pub fails: Vec<Fail>,
}

#[derive(Clone, Debug, Serialize, Deserialize, Default)]
pub struct ShardResult {
    pub evals: u64,
    pub cases: u64,
    pub nontrivial_keys: Vec<u64>,
    pub labels: BTreeMap<String, u64>,
    pub excluded_known: BTreeMap<String, u64>,
    pub samples: Vec<serde_json::Value>,
    pub failure: Option<FailureRec>,
    pub harness_error: Option<String>,
    pub wall_s: f64,
    /// cases started (including skipped ones after a restart) — restart bookkeeping
    #[serde(default)]
    pub started: u64,
}

impl ShardResult {
    /// Merge the result of a restarted shard segment into an accumulated one.
    pub fn merge(mut self, other: ShardResult) -> ShardResult {
        self.evals += other.evals;
        self.cases += other.cases;
        let mut keys: std::collections::BTreeSet<u64> = self.nontrivial_keys.iter().copied().collect();
        keys.extend(other.nontrivial_keys.iter().copied());
        self.nontrivial_keys = keys.into_iter().collect();
        for (k, v) in other.labels {
            *self.labels.entry(k).or_insert(0) += v;
        }
        for (k, v) in other.excluded_known {
            *self.excluded_known.entry(k).or_insert(0) += v;
        }
        for smp in other.samples {
            if self.samples.len() < 4 {
                self.samples.push(smp);
            }
        }
        if self.failure.is_none() {
            self.failure = other.failure;
        }
        if self.harness_error.is_none() {
            self.harness_error = other.harness_error;
        }
        self.wall_s += other.wall_s;
        self.started = self.started.max(other.started);
        self
    }
}

pub trait DynSub: Send + Sync {
    fn name(&self) -> &str;
    fn rule(&self) -> &str;
    fn opts(&self) -> &SubOpts;
    fn cases(&self, tier: Tier) -> u64;
    /// enumeration subs fix their shard count; proptest subs derive it from the case count
    fn fixed_shards(&self, _tier: Tier) -> Option<usize> {
        None
    }
    fn run_shard(&self, sc: &ShardCtx, known: &dyn Fn(&str) -> bool) -> ShardResult;
    fn replay(&self, case: &serde_json::Value) -> Result<Verdict, String>;
}

/// A proptest-driven sub-check over serialisable cases.
pub struct PropSub<C> {
    pub name: &'static str,
    pub rule: &'static str,
    pub strategy: fn(Tier) -> BoxedStrategy<C>,
    pub check: fn(&C) -> Verdict,
    pub quick: u64,
    pub thorough: u64,
    pub opts: SubOpts,
}

pub trait Case: Serialize + DeserializeOwned + Debug + Clone + 'static {}
impl<T: Serialize + DeserializeOwned + Debug + Clone + 'static> Case for T {}

/// An enumeration-driven sub-check (exhaustive spaces, fixed corpora). The runner gets a recorder
/// and is responsible for partitioning work by `sc.shard / sc.nshards`.
pub struct EnumSub {
    pub name: &'static str,
    pub rule: &'static str,
    pub run: fn(&ShardCtx, &mut shard::Recorder),
    pub replay: fn(&serde_json::Value) -> Verdict,
    pub shards: (usize, usize),
    pub opts: SubOpts,
}

pub struct Property {
    pub id: &'static str,
    pub level: &'static str,
    pub rule: &'static str,
    pub assumptions: Vec<String>,
    pub subs: Vec<Box<dyn DynSub>>,
    /// concurrent shard processes
    pub max_parallel: usize,
}

pub fn sub<C: Case>(
    name: &'static str,
    rule: &'static str,
    strategy: fn(Tier) -> BoxedStrategy<C>,
    check: fn(&C) -> Verdict,
    quick: u64,
    thorough: u64,
) -> PropSub<C> {
    PropSub { name, rule, strategy, check, quick, thorough, opts: SubOpts::default() }
}

impl<C> PropSub<C> {
    pub fn with(mut self, f: impl FnOnce(&mut SubOpts)) -> Self {
        f(&mut self.opts);
        self
    }
    pub fn boxed(self) -> Box<dyn DynSub>
    where
        C: Case,
    {
        Box::new(self)
    }
}

impl EnumSub {
    pub fn with(mut self, f: impl FnOnce(&mut SubOpts)) -> Self {
        f(&mut self.opts);
        self
    }
    pub fn boxed(self) -> Box<dyn DynSub> {
        Box::new(self)
    }
}

/// Process-wide shard environment (tier, scratch directory). Set once by `main`.
pub struct ShardEnv {
    pub tier: Tier,
    pub tmp_dir: std::path::PathBuf,
}

static ENV: std::sync::OnceLock<ShardEnv> = std::sync::OnceLock::new();

pub fn set_env(tier: Tier, tmp_dir: std::path::PathBuf) {
    let _ = ENV.set(ShardEnv { tier, tmp_dir });
}

pub fn env() -> &'static ShardEnv {
    ENV.get_or_init(|| ShardEnv { tier: Tier::Quick, tmp_dir: std::env::temp_dir() })
}

thread_local! {
    static STASH: std::cell::RefCell<Option<Pass>> = const { std::cell::RefCell::new(None) };
}

pub fn stash_pass(p: Pass) {
    STASH.with(|s| *s.borrow_mut() = Some(p));
}

pub fn take_stashed_pass() -> Option<Pass> {
    STASH.with(|s| s.borrow_mut().take())
}

static HINT_PATH: std::sync::Mutex<Option<std::path::PathBuf>> = std::sync::Mutex::new(None);

pub fn set_hint_path(p: Option<std::path::PathBuf>) {
    if let Ok(mut g) = HINT_PATH.lock() {
        *g = p;
    }
}

/// For checks that run a family of inner evaluations per case (C15): note which inner evaluation
/// is about to run. If the shard process then aborts or hangs, the orchestrator re-runs only that
/// one (it stores the number in the case's `only` field).
pub fn set_case_hint(i: u64) {
    if let Ok(g) = HINT_PATH.lock() {
        if let Some(p) = g.as_ref() {
            let _ = std::fs::write(p, i.to_string());
        }
    }
}

static INNER_SKIP: std::sync::Mutex<Option<u64>> = std::sync::Mutex::new(None);

pub fn set_inner_skip(v: Option<u64>) {
    if let Ok(mut g) = INNER_SKIP.lock() {
        *g = v;
    }
}

/// After a restart behind a known abort/hang of inner evaluation `h` of the current case: `Some(h)`
/// — the check resumes its family after `h`.
pub fn inner_skip() -> Option<u64> {
    INNER_SKIP.lock().ok().and_then(|g| *g)
}
