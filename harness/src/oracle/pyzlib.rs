//! Second independent gzip implementation: CPython's zlib (C zlib) in a persistent subprocess.
//! Protocol: 8-byte LE length + file bytes → one text line "ok <len> <crc32> <members>" or
//! "err <message>".

use std::io::{BufRead, BufReader, Write};
use std::process::{Child, ChildStdin, ChildStdout, Command, Stdio};
use std::sync::Mutex;

const SCRIPT: &str = r#"
import sys, zlib, struct
inp = sys.stdin.buffer
out = sys.stdout
while True:
    h = inp.read(8)
    if len(h) < 8:
        break
    n = struct.unpack('<Q', h)[0]
    data = inp.read(n)
    try:
        total = 0
        crc = 0
        members = 0
        pos = 0
        while pos < len(data):
            d = zlib.decompressobj(31)
            chunk = d.decompress(data[pos:])
            if not d.eof:
                raise ValueError('truncated member at %d' % pos)
            used = len(data) - pos - len(d.unused_data)
            if used <= 0:
                raise ValueError('no progress at %d' % pos)
            pos += used
            total += len(chunk)
            crc = zlib.crc32(chunk, crc)
            members += 1
        out.write('ok %d %d %d\n' % (total, crc & 0xffffffff, members))
    except Exception as e:
        out.write('err %s\n' % (str(e).replace('\n', ' '),))
    out.flush()
"#;

struct Py {
    child: Child,
    stdin: ChildStdin,
    stdout: BufReader<ChildStdout>,
}

static PY: Mutex<Option<Py>> = Mutex::new(None);

pub struct PyResult {
    pub len: u64,
    pub crc32: u32,
    pub members: u64,
}

/// Decompress a multi-member gzip file with CPython zlib; `Err` carries python's message, or
/// `Err("unavailable: ..")` when python3 cannot be started (callers treat that as "not checked").
pub fn gunzip_summary(file: &[u8]) -> Result<PyResult, String> {
    let mut g = PY.lock().map_err(|_| "unavailable: poisoned".to_string())?;
    if g.is_none() {
        let mut child = Command::new("python3")
            .arg("-c")
            .arg(SCRIPT)
            .stdin(Stdio::piped())
            .stdout(Stdio::piped())
            .stderr(Stdio::null())
            .spawn()
            .map_err(|e| format!("unavailable: {e}"))?;
        let stdin = child.stdin.take().unwrap();
        let stdout = BufReader::new(child.stdout.take().unwrap());
        *g = Some(Py { child, stdin, stdout });
    }
    let py = g.as_mut().unwrap();
    let io = (|| -> std::io::Result<String> {
        py.stdin.write_all(&(file.len() as u64).to_le_bytes())?;
        py.stdin.write_all(file)?;
        py.stdin.flush()?;
        let mut line = String::new();
        py.stdout.read_line(&mut line)?;
        Ok(line)
    })();
    let line = match io {
        Ok(l) if !l.is_empty() => l,
        _ => {
            if let Some(mut p) = g.take() {
                let _ = p.child.kill();
                let _ = p.child.wait();
            }
            return Err("unavailable: python pipe broke".into());
        }
    };
    let parts: Vec<&str> = line.trim().splitn(2, ' ').collect();
    if parts[0] == "ok" {
        let nums: Vec<u64> = parts.get(1).unwrap_or(&"").split(' ').filter_map(|x| x.parse().ok()).collect();
        if nums.len() == 3 {
            return Ok(PyResult { len: nums[0], crc32: nums[1] as u32, members: nums[2] });
        }
        return Err(format!("unavailable: bad reply {line:?}"));
    }
    Err(parts.get(1).unwrap_or(&"").to_string())
}
