//! Independent decoders for rANS 4x8 (CRAM 3.0, order 0 and 1) and rANS Nx16 (CRAM 3.1, orders 0/1
//! with the PACK, RLE, STRIPE, CAT, NOSZ and X32 options), written from the pseudocode of the "CRAM
//! codec specification" (CRAMcodecs), not from noodles. They never panic: every malformed-input
//! situation is an `Err(RefErr)` naming the stage at which decoding failed.
//!
//! `self_test()` pins both decoders on the literal streams found in noodles' own unit tests
//! (`noodles-cram/src/codecs/rans_4x8/{encode,decode}.rs`, `.../encode/order_0.rs`,
//! `noodles-cram/src/codecs/rans_nx16/{encode,decode}.rs`), several of which come from other
//! implementations (they are not what noodles' encoder produces for the same input).
//!
//! Points where the specification leaves room, and what this reference does:
//! * a compressed order-1 frequency table (Nx16) is decoded with 4 interleaved states, as the text
//!   says ("RansDecodeNx16_0 ... N = 4"); compressed RLE metadata is decoded with the stream's own
//!   N. noodles never emits either, so neither choice affects the C08 verdicts; the use of these
//!   paths is reported through `Info::ambiguous`.
//! * frequencies that do not sum to a power of two ≤ 2^bits (Nx16) or that exceed 4096 in total
//!   (4x8) are rejected here (`Stage::FreqTable`): a decoder's symbol lookup is undefined for them.

use crate::oracle::varint_ref;

#[derive(Clone, Copy, Debug, PartialEq, Eq)]
pub enum Stage {
    Header,
    FreqTable,
    States,
    Payload,
    PackMeta,
    RleMeta,
    Stripe,
    Cat,
    Size,
}

impl Stage {
    pub fn name(self) -> &'static str {
        match self {
            Stage::Header => "header",
            Stage::FreqTable => "freq-table",
            Stage::States => "states",
            Stage::Payload => "payload",
            Stage::PackMeta => "pack-meta",
            Stage::RleMeta => "rle-meta",
            Stage::Stripe => "stripe",
            Stage::Cat => "cat",
            Stage::Size => "size",
        }
    }
}

#[derive(Clone, Debug)]
pub struct RefErr {
    pub stage: Stage,
    pub msg: String,
}

fn err<T>(stage: Stage, msg: impl Into<String>) -> Result<T, RefErr> {
    Err(RefErr { stage, msg: msg.into() })
}

/// Side information about a decode (for labels and for the "ambiguous path" rule).
#[derive(Clone, Debug, Default)]
pub struct Info {
    /// a path on which the specification text leaves room was taken
    pub ambiguous: bool,
    /// bytes of the input left unread at the end (top level)
    pub trailing: usize,
    /// final flag byte(s) seen at the top level (Nx16)
    pub flags: u8,
    /// bits of the order-1 table (Nx16)
    pub o1_bits: u8,
    /// some symbol list / alphabet read so far begins with symbol 1 (set before any failure that
    /// it may lead to; used to recognise the class of streams hit by a known noodles defect)
    pub symlist_first_1: bool,
    /// number of entropy-coded (sub)streams walked
    pub entropy_streams: u32,
}

struct Cur<'a> {
    b: &'a [u8],
    p: usize,
}

impl<'a> Cur<'a> {
    fn new(b: &'a [u8]) -> Self {
        Cur { b, p: 0 }
    }
    fn left(&self) -> usize {
        self.b.len() - self.p
    }
    fn u8(&mut self, st: Stage) -> Result<u8, RefErr> {
        match self.b.get(self.p) {
            Some(x) => {
                self.p += 1;
                Ok(*x)
            }
            None => err(st, "unexpected end of data"),
        }
    }
    fn peek(&self) -> Option<u8> {
        self.b.get(self.p).copied()
    }
    fn take(&mut self, n: usize, st: Stage) -> Result<&'a [u8], RefErr> {
        if self.left() < n {
            return err(st, format!("need {n} bytes, {} left", self.left()));
        }
        let s = &self.b[self.p..self.p + n];
        self.p += n;
        Ok(s)
    }
    fn u32le(&mut self, st: Stage) -> Result<u32, RefErr> {
        let s = self.take(4, st)?;
        Ok(u32::from_le_bytes([s[0], s[1], s[2], s[3]]))
    }
    fn u16le(&mut self, st: Stage) -> Result<u32, RefErr> {
        let s = self.take(2, st)?;
        Ok(u16::from_le_bytes([s[0], s[1]]) as u32)
    }
    fn uint7(&mut self, st: Stage) -> Result<u32, RefErr> {
        match varint_ref::uint7_decode(&self.b[self.p..]) {
            Ok((v, n)) => {
                self.p += n;
                Ok(v)
            }
            Err(e) => err(st, e),
        }
    }
    fn itf8(&mut self, st: Stage) -> Result<i32, RefErr> {
        match varint_ref::itf8_decode(&self.b[self.p..]) {
            Ok((v, n)) => {
                self.p += n;
                Ok(v)
            }
            Err(e) => err(st, e),
        }
    }
}

// ------------------------------------------------------------------------------------------------
// rANS 4x8

const TF_SHIFT_4X8: u32 = 12;
const RANS_L_4X8: u32 = 1 << 23;

struct Table {
    f: [u32; 256],
    c: [u32; 257],
    /// slot -> symbol, for slots < total
    lookup: Vec<u8>,
}

impl Table {
    fn from_freqs(f: [u32; 256], slots: usize) -> Result<Table, RefErr> {
        let mut c = [0u32; 257];
        for s in 0..256 {
            c[s + 1] = c[s] + f[s];
        }
        if c[256] as usize > slots {
            return err(Stage::FreqTable, format!("frequencies sum to {} > {}", c[256], slots));
        }
        let mut lookup = vec![0u8; c[256] as usize];
        for s in 0..256 {
            for x in c[s]..c[s + 1] {
                lookup[x as usize] = s as u8;
            }
        }
        Ok(Table { f, c, lookup })
    }
    fn symbol(&self, slot: u32) -> Result<u8, RefErr> {
        match self.lookup.get(slot as usize) {
            Some(s) => Ok(*s),
            None => err(Stage::Payload, format!("cumulative frequency {slot} is outside the table (total {})", self.lookup.len())),
        }
    }
}

/// CRAM 3.0 order-0 frequency table: symbol, frequency (1 or 2 bytes, ITF8), with a run length
/// byte after every symbol that directly follows its predecessor; terminated by symbol 0.
fn read_freqs_4x8_o0(cur: &mut Cur, info: &mut Info) -> Result<[u32; 256], RefErr> {
    let st = Stage::FreqTable;
    let mut f = [0u32; 256];
    let mut sym = cur.u8(st)? as usize;
    if sym == 1 {
        info.symlist_first_1 = true;
    }
    let mut last_sym = sym;
    let mut rle = 0usize;
    let mut guard = 0;
    loop {
        guard += 1;
        if guard > 600 {
            return err(st, "symbol list does not terminate");
        }
        let v = cur.itf8(st)?;
        if !(0..=4096).contains(&v) {
            return err(st, format!("frequency {v} out of range"));
        }
        f[sym] = v as u32;
        if rle > 0 {
            rle -= 1;
            sym += 1;
            if sym > 255 {
                return err(st, "run passes symbol 255");
            }
        } else {
            sym = cur.u8(st)? as usize;
            if sym == last_sym + 1 {
                rle = cur.u8(st)? as usize;
            }
        }
        last_sym = sym;
        if sym == 0 {
            break;
        }
    }
    Ok(f)
}

fn rans4x8_advance(r: u32, f: u32, c: u32, cur: &mut Cur) -> Result<u32, RefErr> {
    let mut r = (f as u64 * (r >> TF_SHIFT_4X8) as u64 + (r & 0xfff) as u64).wrapping_sub(c as u64) as u32;
    while r < RANS_L_4X8 {
        r = (r << 8) | cur.u8(Stage::Payload)? as u32;
    }
    Ok(r)
}

/// Decode a complete rANS 4x8 stream (with its 9-byte header). The `Info` is filled in as far as
/// decoding got, also on failure.
pub fn rans4x8_decode(src: &[u8]) -> (Result<Vec<u8>, RefErr>, Info) {
    let mut info = Info::default();
    let r = rans4x8_inner(src, &mut info);
    (r, info)
}

fn rans4x8_inner(src: &[u8], info: &mut Info) -> Result<Vec<u8>, RefErr> {
    let mut cur = Cur::new(src);
    let order = cur.u8(Stage::Header)?;
    let comp_size = cur.u32le(Stage::Header)? as usize;
    let out_len = cur.u32le(Stage::Header)? as usize;
    if order > 1 {
        return err(Stage::Header, format!("order byte {order}"));
    }
    if comp_size != cur.left() {
        return err(Stage::Size, format!("header compressed size {comp_size}, {} bytes follow the header", cur.left()));
    }
    if out_len > (1 << 30) {
        return err(Stage::Header, "unreasonable uncompressed size");
    }
    let mut out = vec![0u8; out_len];
    if out_len == 0 {
        // nothing to decode; the specification does not say what such a stream contains
        info.ambiguous = true;
        info.trailing = cur.left();
        return Ok(out);
    }
    info.entropy_streams += 1;
    if order == 0 {
        let t = Table::from_freqs(read_freqs_4x8_o0(&mut cur, info)?, 4096)?;
        let mut r = [0u32; 4];
        for x in r.iter_mut() {
            *x = cur.u32le(Stage::States)?;
        }
        for (i, o) in out.iter_mut().enumerate() {
            let j = i & 3;
            let s = t.symbol(r[j] & 0xfff)?;
            *o = s;
            r[j] = rans4x8_advance(r[j], t.f[s as usize], t.c[s as usize], &mut cur)?;
        }
    } else {
        // order-1 table: context symbols with the same run-length scheme, each followed by an
        // order-0 table
        let st = Stage::FreqTable;
        let mut tables: Vec<Option<Table>> = (0..256).map(|_| None).collect();
        let mut sym = cur.u8(st)? as usize;
        let mut last_sym = sym;
        let mut rle = 0usize;
        let mut guard = 0;
        loop {
            guard += 1;
            if guard > 600 {
                return err(st, "context list does not terminate");
            }
            tables[sym] = Some(Table::from_freqs(read_freqs_4x8_o0(&mut cur, info)?, 4096)?);
            if rle > 0 {
                rle -= 1;
                sym += 1;
                if sym > 255 {
                    return err(st, "context run passes symbol 255");
                }
            } else {
                sym = cur.u8(st)? as usize;
                if sym == last_sym + 1 {
                    rle = cur.u8(st)? as usize;
                }
            }
            last_sym = sym;
            if sym == 0 {
                break;
            }
        }
        let mut r = [0u32; 4];
        for x in r.iter_mut() {
            *x = cur.u32le(Stage::States)?;
        }
        let q = out_len / 4;
        let mut ctx = [0usize; 4];
        let step = |j: usize, pos: usize, r: &mut [u32; 4], ctx: &mut [usize; 4], out: &mut Vec<u8>, cur: &mut Cur| -> Result<(), RefErr> {
            let t = match &tables[ctx[j]] {
                Some(t) => t,
                None => return err(Stage::Payload, format!("context {} has no table", ctx[j])),
            };
            let s = t.symbol(r[j] & 0xfff)?;
            out[pos] = s;
            r[j] = rans4x8_advance(r[j], t.f[s as usize], t.c[s as usize], cur)?;
            ctx[j] = s as usize;
            Ok(())
        };
        for i in 0..q {
            for j in 0..4 {
                step(j, i + j * q, &mut r, &mut ctx, &mut out, &mut cur)?;
            }
        }
        for pos in 4 * q..out_len {
            step(3, pos, &mut r, &mut ctx, &mut out, &mut cur)?;
        }
    }
    info.trailing = cur.left();
    Ok(out)
}

// ------------------------------------------------------------------------------------------------
// rANS Nx16

pub const F_ORDER: u8 = 0x01;
pub const F_X32: u8 = 0x04;
pub const F_STRIPE: u8 = 0x08;
pub const F_NOSZ: u8 = 0x10;
pub const F_CAT: u8 = 0x20;
pub const F_RLE: u8 = 0x40;
pub const F_PACK: u8 = 0x80;

/// Symbol list of the Nx16 tables: symbols in increasing order; a symbol equal to its predecessor
/// plus one is followed by the count of further consecutive symbols; terminated by 0.
fn read_alphabet(cur: &mut Cur, info: &mut Info) -> Result<[bool; 256], RefErr> {
    let st = Stage::FreqTable;
    let mut a = [false; 256];
    let mut rle = 0usize;
    let mut sym = cur.u8(st)? as usize;
    if sym == 1 {
        info.symlist_first_1 = true;
    }
    let mut last_sym = sym;
    let mut guard = 0;
    loop {
        guard += 1;
        if guard > 600 {
            return err(st, "alphabet does not terminate");
        }
        a[sym] = true;
        if rle > 0 {
            rle -= 1;
            sym += 1;
            if sym > 255 {
                return err(st, "alphabet run passes symbol 255");
            }
        } else {
            sym = cur.u8(st)? as usize;
            if sym == last_sym + 1 {
                rle = cur.u8(st)? as usize;
            }
        }
        last_sym = sym;
        if sym == 0 {
            break;
        }
    }
    Ok(a)
}

/// Scale a frequency row up to `1 << bits` by a power of two, as the decoder is told to.
fn normalise_nx16(f: &mut [u32; 256], bits: u32) -> Result<(), RefErr> {
    let tot: u64 = f.iter().map(|x| *x as u64).sum();
    let target = 1u64 << bits;
    if tot == 0 || tot == target {
        return Ok(());
    }
    if tot > target {
        return err(Stage::FreqTable, format!("frequencies sum to {tot} > {target}"));
    }
    let mut shift = 0;
    let mut t = tot;
    while t < target {
        t *= 2;
        shift += 1;
    }
    if t != target {
        return err(Stage::FreqTable, format!("frequencies sum to {tot}, not a power-of-two fraction of {target}"));
    }
    for x in f.iter_mut() {
        *x <<= shift;
    }
    Ok(())
}

fn nx16_advance(r: u32, f: u32, c: u32, bits: u32, cur: &mut Cur) -> Result<u32, RefErr> {
    let mask = (1u32 << bits) - 1;
    let mut r = (f as u64 * (r >> bits) as u64 + (r & mask) as u64).wrapping_sub(c as u64) as u32;
    if r < (1 << 15) {
        r = (r << 16) | cur.u16le(Stage::Payload)?;
    }
    Ok(r)
}

fn nx16_o0(cur: &mut Cur, out_len: usize, n: usize, info: &mut Info) -> Result<Vec<u8>, RefErr> {
    info.entropy_streams += 1;
    let a = read_alphabet(cur, info)?;
    let mut f = [0u32; 256];
    for s in 0..256 {
        if a[s] {
            f[s] = cur.uint7(Stage::FreqTable)?;
        }
    }
    normalise_nx16(&mut f, 12)?;
    let t = Table::from_freqs(f, 4096)?;
    let mut r = vec![0u32; n];
    for x in r.iter_mut() {
        *x = cur.u32le(Stage::States)?;
    }
    let mut out = vec![0u8; out_len];
    for (i, o) in out.iter_mut().enumerate() {
        let j = i % n;
        let s = t.symbol(r[j] & 0xfff)?;
        *o = s;
        r[j] = nx16_advance(r[j], t.f[s as usize], t.c[s as usize], 12, cur)?;
    }
    Ok(out)
}

fn read_o1_table(cur: &mut Cur, bits: u32, info: &mut Info) -> Result<Vec<Option<Table>>, RefErr> {
    let a = read_alphabet(cur, info)?;
    let mut tables: Vec<Option<Table>> = (0..256).map(|_| None).collect();
    for i in 0..256 {
        if !a[i] {
            continue;
        }
        let mut f = [0u32; 256];
        let mut run = 0u32;
        for j in 0..256 {
            if !a[j] {
                continue;
            }
            if run > 0 {
                run -= 1;
            } else {
                f[j] = cur.uint7(Stage::FreqTable)?;
                if f[j] == 0 {
                    run = cur.u8(Stage::FreqTable)? as u32;
                }
            }
        }
        normalise_nx16(&mut f, bits)?;
        tables[i] = Some(Table::from_freqs(f, 1 << bits)?);
    }
    Ok(tables)
}

fn nx16_o1(cur: &mut Cur, out_len: usize, n: usize, info: &mut Info) -> Result<Vec<u8>, RefErr> {
    info.entropy_streams += 1;
    let comp = cur.u8(Stage::FreqTable)?;
    let bits = (comp >> 4) as u32;
    info.o1_bits = bits as u8;
    if !(1..=12).contains(&bits) {
        // the specification uses 10 or 12
        return err(Stage::FreqTable, format!("order-1 table shift {bits}"));
    }
    let tables = if comp & 1 != 0 {
        info.ambiguous = true;
        let usize_ = cur.uint7(Stage::FreqTable)? as usize;
        let csize = cur.uint7(Stage::FreqTable)? as usize;
        if usize_ > (1 << 24) {
            return err(Stage::FreqTable, "unreasonable table size");
        }
        let cdata = cur.take(csize, Stage::FreqTable)?;
        let mut c2 = Cur::new(cdata);
        let raw = nx16_o0(&mut c2, usize_, 4, info)?;
        let mut c3 = Cur::new(&raw);
        read_o1_table(&mut c3, bits, info)?
    } else {
        read_o1_table(cur, bits, info)?
    };
    let mut r = vec![0u32; n];
    for x in r.iter_mut() {
        *x = cur.u32le(Stage::States)?;
    }
    let mut ctx = vec![0usize; n];
    let mut out = vec![0u8; out_len];
    let q = out_len / n;
    let mask = (1u32 << bits) - 1;
    let step = |j: usize, pos: usize, r: &mut Vec<u32>, ctx: &mut Vec<usize>, out: &mut Vec<u8>, cur: &mut Cur| -> Result<(), RefErr> {
        let t = match &tables[ctx[j]] {
            Some(t) => t,
            None => return err(Stage::Payload, format!("context {} has no table", ctx[j])),
        };
        let s = t.symbol(r[j] & mask)?;
        out[pos] = s;
        r[j] = nx16_advance(r[j], t.f[s as usize], t.c[s as usize], bits, cur)?;
        ctx[j] = s as usize;
        Ok(())
    };
    for i in 0..q {
        for j in 0..n {
            step(j, i + j * q, &mut r, &mut ctx, &mut out, cur)?;
        }
    }
    for pos in n * q..out_len {
        step(n - 1, pos, &mut r, &mut ctx, &mut out, cur)?;
    }
    Ok(out)
}

struct PackMeta {
    map: Vec<u8>,
    out_len: usize,
}

fn unpack(data: &[u8], m: &PackMeta) -> Result<Vec<u8>, RefErr> {
    let nsym = m.map.len();
    let mut out = Vec::with_capacity(m.out_len);
    if nsym == 0 || nsym > 16 {
        return err(Stage::PackMeta, format!("{nsym} symbols cannot be packed"));
    }
    if nsym == 1 {
        out.resize(m.out_len, m.map[0]);
        return Ok(out);
    }
    let (per_byte, bits) = if nsym == 2 {
        (8, 1)
    } else if nsym <= 4 {
        (4, 2)
    } else {
        (2, 4)
    };
    let need = m.out_len.div_ceil(per_byte);
    if data.len() < need {
        return err(Stage::PackMeta, format!("packed data has {} bytes, {} needed", data.len(), need));
    }
    let mask = (1u8 << bits) - 1;
    let mut v = 0u8;
    for i in 0..m.out_len {
        if i % per_byte == 0 {
            v = data[i / per_byte];
        }
        let idx = (v & mask) as usize;
        v >>= bits;
        match m.map.get(idx) {
            Some(s) => out.push(*s),
            None => return err(Stage::PackMeta, format!("packed value {idx} with {nsym} symbols")),
        }
    }
    Ok(out)
}

struct RleMeta {
    is_run_symbol: [bool; 256],
    /// run lengths (uint7 each), after the symbol list
    runs: Vec<u8>,
    out_len: usize,
}

fn unrle(lits: &[u8], m: &RleMeta) -> Result<Vec<u8>, RefErr> {
    let mut out = Vec::with_capacity(m.out_len);
    let mut rc = Cur::new(&m.runs);
    let mut i = 0;
    while out.len() < m.out_len {
        let Some(&s) = lits.get(i) else {
            return err(Stage::RleMeta, "literals exhausted before the output was complete");
        };
        i += 1;
        out.push(s);
        if m.is_run_symbol[s as usize] {
            let run = rc.uint7(Stage::RleMeta)? as usize;
            if out.len() + run > m.out_len {
                return err(Stage::RleMeta, "run exceeds the output size");
            }
            out.resize(out.len() + run, s);
        }
    }
    Ok(out)
}

fn nx16_inner(cur: &mut Cur, len_arg: Option<usize>, depth: u32, info: &mut Info, top: bool) -> Result<Vec<u8>, RefErr> {
    if depth > 2 {
        return err(Stage::Stripe, "nested stripes");
    }
    let flags = cur.u8(Stage::Header)?;
    if top {
        info.flags = flags;
    }
    let mut len = if flags & F_NOSZ == 0 {
        cur.uint7(Stage::Header)? as usize
    } else {
        match len_arg {
            Some(l) => l,
            None => return err(Stage::Header, "NOSZ stream without an external size"),
        }
    };
    if len > (1 << 30) {
        return err(Stage::Header, "unreasonable uncompressed size");
    }
    let n = if flags & F_X32 != 0 { 32 } else { 4 };

    if flags & F_STRIPE != 0 {
        let x = cur.u8(Stage::Stripe)? as usize;
        if x == 0 {
            return err(Stage::Stripe, "zero sub-streams");
        }
        let mut clens = Vec::with_capacity(x);
        for _ in 0..x {
            clens.push(cur.uint7(Stage::Stripe)? as usize);
        }
        let mut out = vec![0u8; len];
        for (j, clen) in clens.iter().enumerate() {
            let ulen = len / x + usize::from(len % x > j);
            let sub = cur.take(*clen, Stage::Stripe)?;
            let mut c2 = Cur::new(sub);
            let part = nx16_inner(&mut c2, Some(ulen), depth + 1, info, false)?;
            if part.len() != ulen {
                return err(Stage::Stripe, format!("sub-stream {j} decoded to {} bytes, expected {ulen}", part.len()));
            }
            for (i, b) in part.iter().enumerate() {
                out[i * x + j] = *b;
            }
        }
        return Ok(out);
    }

    let mut pack = None;
    if flags & F_PACK != 0 {
        let nsym = cur.u8(Stage::PackMeta)? as usize;
        let map = cur.take(nsym, Stage::PackMeta)?.to_vec();
        let packed_len = cur.uint7(Stage::PackMeta)? as usize;
        pack = Some(PackMeta { map, out_len: len });
        len = packed_len;
    }

    let mut rle = None;
    if flags & F_RLE != 0 {
        let st = Stage::RleMeta;
        let meta_hdr = cur.uint7(st)? as usize;
        let lit_len = cur.uint7(st)? as usize;
        let meta_len = meta_hdr >> 1;
        let meta: Vec<u8> = if meta_hdr & 1 != 0 {
            cur.take(meta_len, st)?.to_vec()
        } else {
            info.ambiguous = true;
            let clen = cur.uint7(st)? as usize;
            let cdata = cur.take(clen, st)?;
            let mut c2 = Cur::new(cdata);
            nx16_o0(&mut c2, meta_len, n, info)?
        };
        let mut mc = Cur::new(&meta);
        let mut nsym = mc.u8(st)? as usize;
        if nsym == 0 {
            nsym = 256;
        }
        let mut is_run_symbol = [false; 256];
        for _ in 0..nsym {
            is_run_symbol[mc.u8(st)? as usize] = true;
        }
        let runs = meta[mc.p..].to_vec();
        rle = Some(RleMeta { is_run_symbol, runs, out_len: len });
        len = lit_len;
    }
    if len > (1 << 30) {
        return err(Stage::Header, "unreasonable intermediate size");
    }

    let mut data = if flags & F_CAT != 0 {
        cur.take(len, Stage::Cat)?.to_vec()
    } else if flags & F_ORDER != 0 {
        nx16_o1(cur, len, n, info)?
    } else {
        nx16_o0(cur, len, n, info)?
    };

    if let Some(m) = &rle {
        data = unrle(&data, m)?;
    }
    if let Some(m) = &pack {
        data = unpack(&data, m)?;
    }
    Ok(data)
}

/// Decode a rANS Nx16 stream. `external_len` is the uncompressed size known from the container
/// (used only when the stream carries the NOSZ flag).
pub fn nx16_decode(src: &[u8], external_len: Option<usize>) -> (Result<Vec<u8>, RefErr>, Info) {
    let mut cur = Cur::new(src);
    let mut info = Info::default();
    let r = nx16_inner(&mut cur, external_len, 0, &mut info, true);
    info.trailing = cur.left();
    (r, info)
}

/// Peek helper for labels: does the next byte exist.
pub fn is_empty_stream(src: &[u8]) -> bool {
    Cur::new(src).peek().is_none()
}

// ------------------------------------------------------------------------------------------------
// Pins

struct Pin {
    name: &'static str,
    stream: &'static [u8],
    expect: &'static [u8],
}

const NOODLES: &[u8] = b"noodles";

/// rANS 4x8 vectors (transcribed from noodles-cram/src/codecs/rans_4x8/{decode,encode}.rs and
/// encode/order_0.rs).
const PINS_4X8: &[Pin] = &[
    Pin {
        name: "4x8 decode.rs test_decode_with_order_0 (= encode.rs test_encode_with_order_0)",
        stream: &[
            0x00, 0x25, 0x00, 0x00, 0x00, 0x07, 0x00, 0x00, 0x00, 0x64, 0x82, 0x49, 0x65, 0x00, 0x82, 0x49, 0x6c, 0x82, 0x49, 0x6e, 0x82, 0x49, 0x6f, 0x00, 0x84, 0x92, 0x73, 0x82, 0x49, 0x00, 0xe2, 0x06, 0x83, 0x18, 0x74, 0x7b, 0x41,
            0x0c, 0x2b, 0xa9, 0x41, 0x0c, 0x25, 0x31, 0x80, 0x03,
        ],
        expect: NOODLES,
    },
    Pin {
        name: "4x8 decode.rs test_decode_with_order_1",
        stream: &[
            0x01, 0x3b, 0x00, 0x00, 0x00, 0x07, 0x00, 0x00, 0x00, 0x00, 0x64, 0x84, 0x00, 0x6e, 0x84, 0x00, 0x6f, 0x00, 0x87, 0xff, 0x00, 0x64, 0x6c, 0x8f, 0xff, 0x00, 0x65, 0x00, 0x73, 0x8f, 0xff, 0x00, 0x6c, 0x65, 0x8f, 0xff, 0x00,
            0x6e, 0x6f, 0x8f, 0xff, 0x00, 0x6f, 0x00, 0x64, 0x87, 0xff, 0x6f, 0x88, 0x00, 0x00, 0x00, 0x00, 0x04, 0x00, 0x02, 0x02, 0x28, 0x00, 0x01, 0x02, 0x28, 0x00, 0x01, 0x02, 0x60, 0x00, 0x02,
        ],
        expect: NOODLES,
    },
    Pin {
        name: "4x8 encode.rs test_encode_with_order_1",
        stream: &[
            0x01, 0x3b, 0x00, 0x00, 0x00, 0x07, 0x00, 0x00, 0x00, 0x00, 0x64, 0x83, 0xff, 0x6e, 0x83, 0xff, 0x6f, 0x00, 0x88, 0x01, 0x00, 0x64, 0x6c, 0x8f, 0xff, 0x00, 0x65, 0x00, 0x73, 0x8f, 0xff, 0x00, 0x6c, 0x65, 0x8f, 0xff, 0x00,
            0x6e, 0x6f, 0x8f, 0xff, 0x00, 0x6f, 0x00, 0x64, 0x87, 0xff, 0x6f, 0x88, 0x00, 0x00, 0x00, 0x07, 0x84, 0x00, 0x02, 0x00, 0xe8, 0xff, 0x00, 0x00, 0xe8, 0xff, 0x00, 0x10, 0xe0, 0x00, 0x02,
        ],
        expect: NOODLES,
    },
    Pin {
        name: "4x8 encode/order_0.rs test_encode (abracadabra, run-length symbol list)",
        stream: &[
            0x00, 0x1f, 0x00, 0x00, 0x00, 0x0b, 0x00, 0x00, 0x00, 0x61, 0x87, 0x47, 0x62, 0x02, 0x82, 0xe8, 0x81, 0x74, 0x81, 0x74, 0x72, 0x82, 0xe8, 0x00, 0xd2, 0x02, 0xa4, 0x42, 0x0d, 0x3a, 0x52, 0x21, 0xd0, 0xfe, 0xa1, 0x42, 0x40,
            0xa6, 0x6a, 0x02,
        ],
        expect: b"abracadabra",
    },
];

/// rANS Nx16 vectors (transcribed from noodles-cram/src/codecs/rans_nx16/{decode,encode}.rs).
const PINS_NX16: &[Pin] = &[
    Pin {
        name: "nx16 decode.rs test_decode_order_0 (frequencies need the power-of-two scaling)",
        stream: &[
            0x00, 0x07, 0x64, 0x65, 0x00, 0x6c, 0x6e, 0x6f, 0x00, 0x73, 0x00, 0x01, 0x01, 0x01, 0x01, 0x03, 0x01, 0x00, 0x26, 0x20, 0x00, 0x00, 0xb8, 0x0a, 0x00, 0x00, 0xd8, 0x0a, 0x00, 0x00, 0x00, 0x04, 0x00,
        ],
        expect: NOODLES,
    },
    Pin {
        name: "nx16 decode.rs test_decode_order_1 (10-bit table)",
        stream: &[
            0x01, 0x4d, 0xa0, 0x00, 0x64, 0x65, 0x00, 0x6c, 0x6e, 0x6f, 0x00, 0x73, 0x00, 0x00, 0x00, 0x01, 0x01, 0x00, 0x00, 0x01, 0x01, 0x00, 0x00, 0x00, 0x00, 0x0f, 0x00, 0x00, 0x01, 0x00, 0x02, 0x00, 0x01, 0x0f, 0x00, 0x02, 0x01,
            0x00, 0x01, 0x01, 0x0f, 0x00, 0x02, 0x00, 0x03, 0x0f, 0x01, 0x00, 0x00, 0x00, 0x00, 0x01, 0x00, 0x02, 0x0f, 0x00, 0x00, 0x00, 0x05, 0x10, 0x80, 0x72, 0x60, 0x00, 0x80, 0x8b, 0x5f, 0x00, 0xc0, 0xb0, 0x60, 0x00, 0x40, 0x49,
            0x39, 0x00,
        ],
        expect: b"nnnnnnnnnnnnooooooooooooooooddddddddddddddllllllllllllllleeeeeeeeeessssssssss",
    },
    Pin {
        name: "nx16 decode.rs test_decode_stripe",
        stream: &[
            0x08, 0x07, 0x04, 0x17, 0x17, 0x17, 0x15, 0x00, 0x02, 0x6c, 0x6e, 0x00, 0x01, 0x01, 0x00, 0x08, 0x01, 0x00, 0x00, 0x00, 0x01, 0x00, 0x00, 0x80, 0x00, 0x00, 0x00, 0x80, 0x00, 0x00, 0x00, 0x02, 0x65, 0x6f, 0x00, 0x01, 0x01,
            0x00, 0x08, 0x01, 0x00, 0x00, 0x00, 0x01, 0x00, 0x00, 0x80, 0x00, 0x00, 0x00, 0x80, 0x00, 0x00, 0x00, 0x02, 0x6f, 0x73, 0x00, 0x01, 0x01, 0x00, 0x00, 0x01, 0x00, 0x00, 0x08, 0x01, 0x00, 0x00, 0x80, 0x00, 0x00, 0x00, 0x80,
            0x00, 0x00, 0x00, 0x01, 0x64, 0x00, 0x01, 0x00, 0x80, 0x00, 0x00, 0x00, 0x80, 0x00, 0x00, 0x00, 0x80, 0x00, 0x00, 0x00, 0x80, 0x00, 0x00, 0x00, 0x02, 0x00, 0x00, 0x00, 0x00, 0x00, 0x00, 0x00, 0x22, 0x00, 0x81, 0x11, 0x01,
            0x7f, 0x00,
        ],
        expect: NOODLES,
    },
    Pin { name: "nx16 decode.rs test_decode_uncompressed", stream: &[0x20, 0x07, 0x6e, 0x6f, 0x6f, 0x64, 0x6c, 0x65, 0x73], expect: NOODLES },
    Pin {
        name: "nx16 decode.rs test_decode_rle (compressed run metadata)",
        stream: &[
            0x40, 0x0d, 0x06, 0x06, 0x17, 0x01, 0x07, 0x6f, 0x00, 0x02, 0x01, 0x01, 0x00, 0x00, 0x01, 0x00, 0x00, 0x0c, 0x02, 0x00, 0x00, 0x08, 0x02, 0x00, 0x00, 0x80, 0x00, 0x00, 0x64, 0x65, 0x00, 0x6c, 0x6e, 0x6f, 0x00, 0x73, 0x00,
            0x03, 0x01, 0x01, 0x01, 0x01, 0x01, 0x00, 0x3a, 0x20, 0x00, 0x00, 0x7c, 0x20, 0x00, 0x00, 0x52, 0x01, 0x00, 0x00, 0x08, 0x04, 0x00,
        ],
        expect: b"noooooooodles",
    },
    Pin {
        name: "nx16 decode.rs test_decode_bit_packing_with_6_symbols",
        stream: &[
            0x80, 0x07, 0x06, 0x64, 0x65, 0x6c, 0x6e, 0x6f, 0x73, 0x04, 0x04, 0x05, 0x00, 0x12, 0x43, 0x00, 0x01, 0x01, 0x01, 0x01, 0x00, 0x0c, 0x02, 0x00, 0x00, 0x00, 0x02, 0x00, 0x00, 0x08, 0x02, 0x00, 0x00, 0x04, 0x02, 0x00,
        ],
        expect: NOODLES,
    },
    Pin {
        name: "nx16 encode.rs test_encode_order_0",
        stream: &[
            0x00, 0x07, 0x64, 0x65, 0x00, 0x6c, 0x6e, 0x6f, 0x00, 0x73, 0x00, 0x84, 0x49, 0x84, 0x49, 0x84, 0x49, 0x84, 0x49, 0x89, 0x13, 0x84, 0x49, 0x1b, 0xa7, 0x18, 0x00, 0xe9, 0x4a, 0x0c, 0x00, 0x31, 0x6d, 0x0c, 0x00, 0x08, 0x80,
            0x03, 0x00,
        ],
        expect: NOODLES,
    },
    Pin {
        name: "nx16 encode.rs test_encode_order_1",
        stream: &[
            0x01, 0x07, 0xc0, 0x00, 0x64, 0x65, 0x00, 0x6c, 0x6e, 0x6f, 0x00, 0x73, 0x00, 0x00, 0x00, 0x88, 0x00, 0x00, 0x01, 0x88, 0x00, 0x90, 0x00, 0x00, 0x00, 0x00, 0x02, 0xa0, 0x00, 0x00, 0x02, 0x00, 0x05, 0xa0, 0x00, 0x00, 0x01,
            0xa0, 0x00, 0x00, 0x03, 0x00, 0x04, 0xa0, 0x00, 0x00, 0x00, 0x00, 0x00, 0x90, 0x00, 0x00, 0x02, 0x90, 0x00, 0x00, 0x00, 0x00, 0x06, 0x00, 0x04, 0x02, 0x00, 0x00, 0x08, 0x01, 0x00, 0x00, 0x08, 0x01, 0x00, 0x00, 0x00, 0x02,
            0x00,
        ],
        expect: NOODLES,
    },
    Pin {
        name: "nx16 encode.rs test_encode_stripe",
        stream: &[0x08, 0x07, 0x04, 0x03, 0x03, 0x03, 0x02, 0x30, 0x6e, 0x6c, 0x30, 0x6f, 0x65, 0x30, 0x6f, 0x73, 0x30, 0x64],
        expect: NOODLES,
    },
    Pin { name: "nx16 encode.rs test_encode_rle (CAT|RLE, raw run metadata)", stream: &[0x60, 0x0d, 0x07, 0x06, 0x01, 0x6f, 0x07, 0x6e, 0x6f, 0x64, 0x6c, 0x65, 0x73], expect: b"noooooooodles" },
    Pin {
        name: "nx16 encode.rs test_encode_pack",
        stream: &[
            0x80, 0x07, 0x06, 0x64, 0x65, 0x6c, 0x6e, 0x6f, 0x73, 0x04, 0x04, 0x05, 0x00, 0x12, 0x43, 0x00, 0x88, 0x00, 0x88, 0x00, 0x88, 0x00, 0x88, 0x00, 0x00, 0x0c, 0x02, 0x00, 0x00, 0x00, 0x02, 0x00, 0x00, 0x08, 0x02, 0x00, 0x00,
            0x04, 0x02, 0x00,
        ],
        expect: NOODLES,
    },
];

pub fn self_test() -> Result<(), String> {
    for p in PINS_4X8 {
        let (r, info) = rans4x8_decode(p.stream);
        match r {
            Ok(out) => {
                if out != p.expect {
                    return Err(format!("pin '{}': reference decodes to {:?}", p.name, String::from_utf8_lossy(&out)));
                }
                if info.trailing != 0 {
                    return Err(format!("pin '{}': {} trailing bytes", p.name, info.trailing));
                }
            }
            Err(e) => return Err(format!("pin '{}': reference fails at {}: {}", p.name, e.stage.name(), e.msg)),
        }
    }
    for p in PINS_NX16 {
        let (r, info) = nx16_decode(p.stream, None);
        match r {
            Ok(out) => {
                // (the transcribed stripe vector carries 16 bytes after the last sub-stream, so
                // unread trailing bytes are not checked here)
                let _ = info.trailing;
                if out != p.expect {
                    return Err(format!("pin '{}': reference decodes to {:?}", p.name, String::from_utf8_lossy(&out)));
                }
            }
            Err(e) => return Err(format!("pin '{}': reference fails at {}: {}", p.name, e.stage.name(), e.msg)),
        }
    }
    Ok(())
}
