//! Independent CRAM 3.x container walker, written from the CRAM specification (CRAMv3.pdf: §6 file
//! definition, §7 container header, §8 block structure, §8.4 compression header, §8.5 slice header,
//! §9 EOF container) — it shares no code with noodles-cram: own ITF8/LTF8 readers, CRC32 through
//! `crc32fast`, gzip through an own header parse + `miniz_oxide`, bzip2 through the `bzip2` crate.
//!
//! Two layers: `walk` parses and *records* facts (tolerant: a wrong CRC or counter is recorded,
//! not an error; only an unparseable layout is an `Err`), `check_structure` asserts the
//! invariants that follow from the specification alone. Invariants that need the generator's
//! ground truth (record partition, spans, MD5 of the reference) live in the property modules.
//!
//! Block payload decoding (`decode_block`): raw, gzip and bzip2 are decoded independently; lzma,
//! rANS 4x8, rANS Nx16, the adaptive arithmetic coder, fqzcomp and the name tokenizer go through
//! noodles' own decoders (hook H2a) — for those only "decodes, and to exactly the declared raw
//! size" is established, plus the stream's *own* size field where the codec format has one.

use crate::oracle::bgzf_walk;

/// §9: the CRAM v3 end-of-file container, transcribed from the specification.
pub const EOF_V3: [u8; 38] = [
    0x0f, 0x00, 0x00, 0x00, 0xff, 0xff, 0xff, 0xff, 0x0f, 0xe0, 0x45, 0x4f, 0x46, 0x00, 0x00, 0x00, 0x00, 0x01, 0x00, 0x05, 0xbd, 0xd9, 0x4f, 0x00, 0x01, 0x00, 0x06, 0x06, 0x01, 0x00, 0x01, 0x00, 0x01, 0x00, 0xee, 0x63, 0x01, 0x4b,
];

pub const FILE_DEFINITION_LEN: usize = 26;

pub mod method {
    pub const RAW: u8 = 0;
    pub const GZIP: u8 = 1;
    pub const BZIP2: u8 = 2;
    pub const LZMA: u8 = 3;
    pub const RANS4X8: u8 = 4;
    pub const RANSNX16: u8 = 5;
    pub const ARITH: u8 = 6;
    pub const FQZCOMP: u8 = 7;
    pub const TOK3: u8 = 8;
}

pub mod content_type {
    pub const FILE_HEADER: u8 = 0;
    pub const COMPRESSION_HEADER: u8 = 1;
    pub const SLICE_HEADER: u8 = 2;
    pub const EXTERNAL_DATA: u8 = 4;
    pub const CORE_DATA: u8 = 5;
}

pub fn method_name(m: u8) -> &'static str {
    match m {
        0 => "raw",
        1 => "gzip",
        2 => "bzip2",
        3 => "lzma",
        4 => "rans4x8",
        5 => "ransNx16",
        6 => "arith",
        7 => "fqzcomp",
        8 => "tok3",
        _ => "unknown",
    }
}

// ---------------------------------------------------------------------------------------------
// integer codings (§2.3)
// ---------------------------------------------------------------------------------------------

pub struct Cur<'a> {
    pub b: &'a [u8],
    pub pos: usize,
}

impl<'a> Cur<'a> {
    pub fn new(b: &'a [u8], pos: usize) -> Self {
        Cur { b, pos }
    }
    pub fn u8(&mut self) -> Result<u8, String> {
        let v = *self.b.get(self.pos).ok_or_else(|| format!("unexpected end of data at {}", self.pos))?;
        self.pos += 1;
        Ok(v)
    }
    pub fn take(&mut self, n: usize) -> Result<&'a [u8], String> {
        if self.pos + n > self.b.len() {
            return Err(format!("need {n} bytes at {} but only {} remain", self.pos, self.b.len() - self.pos));
        }
        let s = &self.b[self.pos..self.pos + n];
        self.pos += n;
        Ok(s)
    }
    pub fn i32_le(&mut self) -> Result<i32, String> {
        let s = self.take(4)?;
        Ok(i32::from_le_bytes([s[0], s[1], s[2], s[3]]))
    }
    pub fn u32_le(&mut self) -> Result<u32, String> {
        let s = self.take(4)?;
        Ok(u32::from_le_bytes([s[0], s[1], s[2], s[3]]))
    }
    /// ITF8: the number of leading 1 bits of the first byte (0..=4) is the number of further bytes.
    pub fn itf8(&mut self) -> Result<i32, String> {
        let b0 = self.u8()? as u32;
        let v: u32 = if b0 & 0x80 == 0 {
            b0
        } else if b0 & 0x40 == 0 {
            ((b0 & 0x3f) << 8) | self.u8()? as u32
        } else if b0 & 0x20 == 0 {
            let (b1, b2) = (self.u8()? as u32, self.u8()? as u32);
            ((b0 & 0x1f) << 16) | (b1 << 8) | b2
        } else if b0 & 0x10 == 0 {
            let (b1, b2, b3) = (self.u8()? as u32, self.u8()? as u32, self.u8()? as u32);
            ((b0 & 0x0f) << 24) | (b1 << 16) | (b2 << 8) | b3
        } else {
            let (b1, b2, b3, b4) = (self.u8()? as u32, self.u8()? as u32, self.u8()? as u32, self.u8()? as u32);
            ((b0 & 0x0f) << 28) | (b1 << 20) | (b2 << 12) | (b3 << 4) | (b4 & 0x0f)
        };
        Ok(v as i32)
    }
    /// LTF8: leading 1 bits of the first byte (0..=8) = number of further bytes.
    pub fn ltf8(&mut self) -> Result<i64, String> {
        let b0 = self.u8()?;
        let n = b0.leading_ones() as usize;
        let mut v: u64 = if n >= 7 { 0 } else { (b0 as u64) & (0x7f >> n) };
        for _ in 0..n {
            v = (v << 8) | self.u8()? as u64;
        }
        Ok(v as i64)
    }
    /// uint7 (CRAM 3.1 codecs): big-endian base-128 with continuation bits.
    pub fn uint7(&mut self) -> Result<u32, String> {
        let mut v: u32 = 0;
        for _ in 0..5 {
            let b = self.u8()?;
            v = (v << 7) | (b & 0x7f) as u32;
            if b & 0x80 == 0 {
                return Ok(v);
            }
        }
        Err("uint7 longer than 5 bytes".into())
    }
    pub fn itf8_array(&mut self) -> Result<Vec<i32>, String> {
        let n = self.itf8()?;
        if n < 0 || n as usize > self.b.len() {
            return Err(format!("array length {n}"));
        }
        (0..n).map(|_| self.itf8()).collect()
    }
}

pub fn write_itf8(out: &mut Vec<u8>, v: i32) {
    let u = v as u32;
    if u < 0x80 {
        out.push(u as u8);
    } else if u < 0x4000 {
        out.extend_from_slice(&[0x80 | (u >> 8) as u8, u as u8]);
    } else if u < 0x20_0000 {
        out.extend_from_slice(&[0xc0 | (u >> 16) as u8, (u >> 8) as u8, u as u8]);
    } else if u < 0x1000_0000 {
        out.extend_from_slice(&[0xe0 | (u >> 24) as u8, (u >> 16) as u8, (u >> 8) as u8, u as u8]);
    } else {
        out.extend_from_slice(&[0xf0 | (u >> 28) as u8, (u >> 20) as u8, (u >> 12) as u8, (u >> 4) as u8, (u & 0x0f) as u8]);
    }
}

// ---------------------------------------------------------------------------------------------
// parsed structures
// ---------------------------------------------------------------------------------------------

#[derive(Clone, Debug)]
pub struct Block {
    /// file offset of the method byte
    pub offset: usize,
    pub method: u8,
    pub content_type: u8,
    pub content_id: i32,
    pub comp_size: usize,
    pub raw_size: usize,
    /// file offset of the payload
    pub data_offset: usize,
    /// total bytes including the CRC32
    pub total_len: usize,
    pub crc_stored: u32,
    pub crc_computed: u32,
}

impl Block {
    pub fn payload<'a>(&self, file: &'a [u8]) -> &'a [u8] {
        &file[self.data_offset..self.data_offset + self.comp_size]
    }
    pub fn crc_offset(&self) -> usize {
        self.data_offset + self.comp_size
    }
}

#[derive(Clone, Debug, Default)]
pub struct SliceHeader {
    pub ref_id: i32,
    pub start: i32,
    pub span: i32,
    pub n_records: i32,
    pub record_counter: i64,
    pub n_blocks: i32,
    pub content_ids: Vec<i32>,
    pub embedded_ref_id: i32,
    pub md5: [u8; 16],
    /// bytes after the MD5 (optional tags)
    pub tail: Vec<u8>,
}

#[derive(Clone, Debug)]
pub struct Slice {
    /// index of the slice header block in `Container::blocks`
    pub header_block: usize,
    /// byte offset of the slice header block from the end of the container header
    pub offset_in_container: usize,
    /// bytes from the start of the slice header block to the start of the next slice header
    /// block (or the end of the container)
    pub size: usize,
    pub header: Result<SliceHeader, String>,
    /// indices of the data blocks of this slice in `Container::blocks`
    pub data_blocks: Vec<usize>,
}

#[derive(Clone, Debug, Default)]
pub struct Encoding {
    pub codec: i32,
    pub params: Vec<u8>,
    /// external block content ids the encoding refers to (EXTERNAL, BYTE_ARRAY_STOP and the
    /// nested encodings of BYTE_ARRAY_LEN)
    pub external_ids: Vec<i32>,
}

#[derive(Clone, Debug, Default)]
pub struct CompressionHeader {
    /// preservation map entries: (key, value bytes)
    pub preservation: Vec<([u8; 2], Vec<u8>)>,
    pub data_series: Vec<([u8; 2], Encoding)>,
    pub tags: Vec<(i32, Encoding)>,
}

impl CompressionHeader {
    pub fn pm(&self, key: &[u8; 2]) -> Option<&[u8]> {
        self.preservation.iter().find(|(k, _)| k == key).map(|(_, v)| &v[..])
    }
    /// a boolean preservation-map entry (absent = true, §8.4)
    pub fn pm_bool(&self, key: &[u8; 2]) -> bool {
        self.pm(key).map(|v| v.first().copied().unwrap_or(1) != 0).unwrap_or(true)
    }
    /// tag dictionary lines: each a list of (tag, type)
    pub fn tag_lines(&self) -> Result<Vec<Vec<([u8; 2], u8)>>, String> {
        let Some(td) = self.pm(b"TD") else { return Ok(Vec::new()) };
        let mut c = Cur::new(td, 0);
        let n = c.itf8()?;
        if n < 0 || c.pos + n as usize != td.len() {
            return Err(format!("TD array length {n} does not match the {} value bytes", td.len() - c.pos));
        }
        let body = &td[c.pos..];
        let mut lines = Vec::new();
        if body.is_empty() {
            return Ok(lines);
        }
        if *body.last().unwrap() != 0 {
            return Err("TD dictionary is not NUL-terminated".into());
        }
        for line in body[..body.len() - 1].split(|b| *b == 0) {
            if line.len() % 3 != 0 {
                return Err(format!("TD line of {} bytes is not a multiple of 3", line.len()));
            }
            lines.push(line.chunks(3).map(|c| ([c[0], c[1]], c[2])).collect());
        }
        Ok(lines)
    }
}

#[derive(Clone, Debug)]
pub struct Container {
    pub offset: usize,
    pub header_len: usize,
    /// declared byte length of the blocks
    pub length: i32,
    pub ref_id: i32,
    pub start: i32,
    pub span: i32,
    pub n_records: i32,
    pub record_counter: i64,
    pub bases: i64,
    pub n_blocks: i32,
    pub landmarks: Vec<i32>,
    pub crc_stored: u32,
    pub crc_computed: u32,
    pub blocks: Vec<Block>,
    /// bytes of the declared length not covered by `n_blocks` whole blocks
    pub leftover: usize,
    pub is_eof: bool,
    pub compression_header: Option<Result<CompressionHeader, String>>,
    pub slices: Vec<Slice>,
}

impl Container {
    pub fn data_start(&self) -> usize {
        self.offset + self.header_len
    }
    pub fn end(&self) -> usize {
        self.data_start() + self.length.max(0) as usize
    }
}

#[derive(Clone, Debug)]
pub struct CramFile {
    pub major: u8,
    pub minor: u8,
    pub file_id: [u8; 20],
    /// the first container (file header container)
    pub header: Container,
    /// the SAM header text carried by the header container (if it decodes)
    pub header_text: Result<Vec<u8>, String>,
    /// data containers, the EOF container included (last)
    pub containers: Vec<Container>,
}

impl CramFile {
    pub fn data_containers(&self) -> impl Iterator<Item = &Container> {
        self.containers.iter().filter(|c| !c.is_eof)
    }
}

// ---------------------------------------------------------------------------------------------
// parsing
// ---------------------------------------------------------------------------------------------

pub fn parse_block(file: &[u8], off: usize) -> Result<Block, String> {
    let mut c = Cur::new(file, off);
    let method = c.u8().map_err(|e| format!("block at {off}: {e}"))?;
    let content_type = c.u8()?;
    let content_id = c.itf8()?;
    let comp = c.itf8()?;
    let raw = c.itf8()?;
    if comp < 0 || raw < 0 {
        return Err(format!("block at {off}: negative size (compressed {comp}, raw {raw})"));
    }
    let data_offset = c.pos;
    c.take(comp as usize).map_err(|e| format!("block at {off}: payload: {e}"))?;
    let crc_computed = crc32fast::hash(&file[off..c.pos]);
    let crc_stored = c.u32_le().map_err(|e| format!("block at {off}: crc: {e}"))?;
    Ok(Block { offset: off, method, content_type, content_id, comp_size: comp as usize, raw_size: raw as usize, data_offset, total_len: c.pos - off, crc_stored, crc_computed })
}

fn parse_encoding(c: &mut Cur, depth: usize) -> Result<Encoding, String> {
    let codec = c.itf8()?;
    let n = c.itf8()?;
    if n < 0 {
        return Err(format!("encoding {codec}: negative parameter length {n}"));
    }
    let params = c.take(n as usize)?.to_vec();
    let mut external_ids = Vec::new();
    let mut p = Cur::new(&params, 0);
    match codec {
        1 => {
            // EXTERNAL: itf8 block content id
            external_ids.push(p.itf8()?);
            if p.pos != params.len() {
                return Err("EXTERNAL encoding with trailing parameter bytes".into());
            }
        }
        5 => {
            // BYTE_ARRAY_STOP: stop byte, itf8 block content id
            let _stop = p.u8()?;
            external_ids.push(p.itf8()?);
            if p.pos != params.len() {
                return Err("BYTE_ARRAY_STOP encoding with trailing parameter bytes".into());
            }
        }
        4 => {
            // BYTE_ARRAY_LEN: lengths encoding, values encoding
            if depth > 2 {
                return Err("BYTE_ARRAY_LEN nested too deep".into());
            }
            let a = parse_encoding(&mut p, depth + 1)?;
            let b = parse_encoding(&mut p, depth + 1)?;
            external_ids.extend(a.external_ids);
            external_ids.extend(b.external_ids);
            if p.pos != params.len() {
                return Err("BYTE_ARRAY_LEN encoding with trailing parameter bytes".into());
            }
        }
        _ => {}
    }
    Ok(Encoding { codec, params, external_ids })
}

pub fn parse_compression_header(data: &[u8]) -> Result<CompressionHeader, String> {
    let mut c = Cur::new(data, 0);
    let mut h = CompressionHeader::default();
    // preservation map
    let size = c.itf8()?;
    let end = c.pos + size.max(0) as usize;
    let n = c.itf8()?;
    for _ in 0..n.max(0) {
        let k = c.take(2)?;
        let key = [k[0], k[1]];
        let v = match &key {
            b"RN" | b"AP" | b"RR" => c.take(1)?.to_vec(),
            b"SM" => c.take(5)?.to_vec(),
            b"TD" => {
                let s = c.pos;
                let len = c.itf8()?;
                if len < 0 {
                    return Err("TD: negative length".into());
                }
                c.take(len as usize)?;
                data[s..c.pos].to_vec()
            }
            _ => return Err(format!("preservation map: unknown key {:?}", String::from_utf8_lossy(&key))),
        };
        h.preservation.push((key, v));
    }
    if c.pos != end {
        return Err(format!("preservation map: declared {size} bytes, entries end at {} (expected {end})", c.pos));
    }
    // data series encodings
    let size = c.itf8()?;
    let end = c.pos + size.max(0) as usize;
    let n = c.itf8()?;
    for _ in 0..n.max(0) {
        let k = c.take(2)?;
        let key = [k[0], k[1]];
        let e = parse_encoding(&mut c, 0).map_err(|e| format!("data series {}: {e}", String::from_utf8_lossy(&key)))?;
        h.data_series.push((key, e));
    }
    if c.pos != end {
        return Err(format!("data series map: declared {size} bytes, entries end at {} (expected {end})", c.pos));
    }
    // tag encodings
    let size = c.itf8()?;
    let end = c.pos + size.max(0) as usize;
    let n = c.itf8()?;
    for _ in 0..n.max(0) {
        let key = c.itf8()?;
        let e = parse_encoding(&mut c, 0).map_err(|e| format!("tag encoding {key:#x}: {e}"))?;
        h.tags.push((key, e));
    }
    if c.pos != end {
        return Err(format!("tag encoding map: declared {size} bytes, entries end at {} (expected {end})", c.pos));
    }
    if c.pos != data.len() {
        return Err(format!("compression header: {} trailing bytes", data.len() - c.pos));
    }
    Ok(h)
}

pub fn parse_slice_header(data: &[u8]) -> Result<SliceHeader, String> {
    let mut c = Cur::new(data, 0);
    let ref_id = c.itf8()?;
    let start = c.itf8()?;
    let span = c.itf8()?;
    let n_records = c.itf8()?;
    let record_counter = c.ltf8()?;
    let n_blocks = c.itf8()?;
    let content_ids = c.itf8_array()?;
    let embedded_ref_id = c.itf8()?;
    let m = c.take(16)?;
    let mut md5 = [0u8; 16];
    md5.copy_from_slice(m);
    let tail = data[c.pos..].to_vec();
    Ok(SliceHeader { ref_id, start, span, n_records, record_counter, n_blocks, content_ids, embedded_ref_id, md5, tail })
}

/// Parse one container at `off`.
pub fn parse_container(file: &[u8], off: usize) -> Result<Container, String> {
    let mut c = Cur::new(file, off);
    let length = c.i32_le().map_err(|e| format!("container at {off}: {e}"))?;
    let ref_id = c.itf8()?;
    let start = c.itf8()?;
    let span = c.itf8()?;
    let n_records = c.itf8()?;
    let record_counter = c.ltf8()?;
    let bases = c.ltf8()?;
    let n_blocks = c.itf8()?;
    let landmarks = c.itf8_array().map_err(|e| format!("container at {off}: landmarks: {e}"))?;
    let crc_computed = crc32fast::hash(&file[off..c.pos]);
    let crc_stored = c.u32_le().map_err(|e| format!("container at {off}: crc: {e}"))?;
    let header_len = c.pos - off;
    if length < 0 {
        return Err(format!("container at {off}: negative length {length}"));
    }
    let data_start = c.pos;
    let data_end = data_start + length as usize;
    if data_end > file.len() {
        return Err(format!("container at {off}: declared length {length} passes the end of the file ({} bytes left)", file.len() - data_start));
    }
    let is_eof = file[off..data_end] == EOF_V3;
    // blocks: as many as declared, inside the declared length
    let mut blocks = Vec::new();
    let mut pos = data_start;
    for i in 0..n_blocks.max(0) {
        if pos >= data_end {
            return Err(format!("container at {off}: block {i} of {n_blocks} starts at the end of the declared length"));
        }
        let b = parse_block(&file[..data_end], pos).map_err(|e| format!("container at {off}: {e}"))?;
        pos += b.total_len;
        blocks.push(b);
    }
    let leftover = data_end - pos;

    let mut compression_header = None;
    let mut slices: Vec<Slice> = Vec::new();
    if !is_eof {
        for (i, b) in blocks.iter().enumerate() {
            match b.content_type {
                content_type::COMPRESSION_HEADER => {
                    if compression_header.is_none() {
                        compression_header = Some(decode_block(file, b).and_then(|d| parse_compression_header(&d)));
                    }
                }
                content_type::SLICE_HEADER => {
                    let header = decode_block(file, b).and_then(|d| parse_slice_header(&d));
                    slices.push(Slice { header_block: i, offset_in_container: b.offset - data_start, size: 0, header, data_blocks: Vec::new() });
                }
                content_type::EXTERNAL_DATA | content_type::CORE_DATA => {
                    if let Some(s) = slices.last_mut() {
                        s.data_blocks.push(i);
                    }
                }
                _ => {}
            }
        }
        let n = slices.len();
        for i in 0..n {
            let next = if i + 1 < n { slices[i + 1].offset_in_container } else { pos - data_start };
            slices[i].size = next - slices[i].offset_in_container;
        }
    }
    Ok(Container { offset: off, header_len, length, ref_id, start, span, n_records, record_counter, bases, n_blocks, landmarks, crc_stored, crc_computed, blocks, leftover, is_eof, compression_header, slices })
}

pub fn walk(file: &[u8]) -> Result<CramFile, String> {
    if file.len() < FILE_DEFINITION_LEN {
        return Err(format!("file of {} bytes is shorter than the file definition", file.len()));
    }
    if &file[0..4] != b"CRAM" {
        return Err(format!("bad magic {:?}", &file[0..4]));
    }
    let (major, minor) = (file[4], file[5]);
    let mut file_id = [0u8; 20];
    file_id.copy_from_slice(&file[6..26]);
    let header = parse_container(file, FILE_DEFINITION_LEN).map_err(|e| format!("header container: {e}"))?;
    let header_text = header_text_of(file, &header);
    let mut containers = Vec::new();
    let mut pos = header.end();
    while pos < file.len() {
        let c = parse_container(file, pos)?;
        pos = c.end();
        containers.push(c);
    }
    Ok(CramFile { major, minor, file_id, header, header_text, containers })
}

fn header_text_of(file: &[u8], header: &Container) -> Result<Vec<u8>, String> {
    let b = header.blocks.first().ok_or("header container has no block")?;
    if b.content_type != content_type::FILE_HEADER {
        return Err(format!("first block of the header container has content type {}", b.content_type));
    }
    let d = decode_block(file, b)?;
    if d.len() < 4 {
        return Err("file header block shorter than its length field".into());
    }
    let l = i32::from_le_bytes([d[0], d[1], d[2], d[3]]);
    if l < 0 || 4 + l as usize > d.len() {
        return Err(format!("file header text length {l} does not fit the {} block bytes", d.len() - 4));
    }
    Ok(d[4..4 + l as usize].to_vec())
}

// ---------------------------------------------------------------------------------------------
// block decoding
// ---------------------------------------------------------------------------------------------

/// One gzip member (RFC 1952) covering the whole input: own header parse, raw deflate through
/// `miniz_oxide`, CRC32 and ISIZE checked.
pub fn gunzip_member(src: &[u8], limit: usize) -> Result<Vec<u8>, String> {
    if src.len() < 18 {
        return Err(format!("gzip stream of {} bytes is too short", src.len()));
    }
    if src[0] != 0x1f || src[1] != 0x8b || src[2] != 8 {
        return Err("bad gzip magic / method".into());
    }
    let flg = src[3];
    let mut pos = 10;
    if flg & 4 != 0 {
        let xlen = u16::from_le_bytes([src[10], src[11]]) as usize;
        pos += 2 + xlen;
    }
    for bit in [8u8, 16] {
        if flg & bit != 0 {
            while pos < src.len() && src[pos] != 0 {
                pos += 1;
            }
            pos += 1;
        }
    }
    if flg & 2 != 0 {
        pos += 2;
    }
    if pos + 8 > src.len() {
        return Err("gzip header runs past the stream".into());
    }
    let body = &src[pos..src.len() - 8];
    let out = bgzf_walk::inflate_raw(body, limit)?;
    let t = &src[src.len() - 8..];
    let crc = u32::from_le_bytes([t[0], t[1], t[2], t[3]]);
    let isize = u32::from_le_bytes([t[4], t[5], t[6], t[7]]);
    if crc32fast::hash(&out) != crc {
        return Err("gzip CRC32 mismatch".into());
    }
    if isize as usize != out.len() {
        return Err(format!("gzip ISIZE {isize} but {} bytes inflated", out.len()));
    }
    Ok(out)
}

pub fn bunzip2(src: &[u8], limit: usize) -> Result<Vec<u8>, String> {
    use std::io::Read;
    let mut out = Vec::new();
    bzip2::read::BzDecoder::new(src).take(limit as u64 + 1).read_to_end(&mut out).map_err(|e| format!("bzip2: {e}"))?;
    Ok(out)
}

/// How a payload was decoded (for labels / trust statements).
#[derive(Clone, Copy, Debug, PartialEq, Eq)]
pub enum Trust {
    Independent,
    NoodlesDecoder,
}

pub fn trust_of(method: u8) -> Trust {
    match method {
        method::RAW | method::GZIP | method::BZIP2 => Trust::Independent,
        _ => Trust::NoodlesDecoder,
    }
}

/// Decode a block payload *without using the declared raw size as the answer*: the result's
/// length is what the stream really holds (for the codecs whose decoder needs an output size —
/// lzma, Nx16, arith — the declared size is passed and the stream's own size field, where the
/// format has one, is compared separately by `stream_own_size`).
pub fn decode_block(file: &[u8], b: &Block) -> Result<Vec<u8>, String> {
    let src = b.payload(file);
    let limit = b.raw_size.max(src.len()).saturating_mul(4) + (1 << 16);
    match b.method {
        method::RAW => Ok(src.to_vec()),
        method::GZIP => gunzip_member(src, limit),
        method::BZIP2 => bunzip2(src, limit),
        method::LZMA => {
            let mut dst = vec![0u8; b.raw_size];
            guard(|| noodles_cram::verif::lzma_decode(src, &mut dst))?;
            Ok(dst)
        }
        method::RANS4X8 => guard(|| noodles_cram::verif::rans_4x8_decode(src)),
        method::RANSNX16 => guard(|| noodles_cram::verif::rans_nx16_decode(src, b.raw_size)),
        method::ARITH => guard(|| noodles_cram::verif::aac_decode(src, b.raw_size)),
        method::FQZCOMP => guard(|| noodles_cram::verif::fqzcomp_decode(src)),
        method::TOK3 => guard(|| noodles_cram::verif::name_tokenizer_decode(src)),
        m => Err(format!("unknown compression method {m}")),
    }
}

fn guard<T>(f: impl FnOnce() -> std::io::Result<T>) -> Result<T, String> {
    match crate::engine::panics::catch(f) {
        Ok(Ok(v)) => Ok(v),
        Ok(Err(e)) => Err(format!("decoder error: {e}")),
        Err(p) => Err(format!("decoder panic: {}", p.describe())),
    }
}

/// The uncompressed size the compressed stream itself declares, for the codec formats that carry
/// one (CRAMcodecs: rANS 4x8 header bytes 5..9; uint7 after the flag byte of rANS Nx16 / arith
/// unless NO_SIZE (0x10) is set; uint7 at the start of fqzcomp). The name tokenizer's leading u32
/// is deliberately not used: noodles writes the length *without* the final terminator there
/// (block raw size − 1) and I am not sure enough of the field's definition to call that wrong.
pub fn stream_own_size(method: u8, src: &[u8]) -> Option<usize> {
    match method {
        method::RANS4X8 => {
            if src.len() >= 9 {
                Some(u32::from_le_bytes([src[5], src[6], src[7], src[8]]) as usize)
            } else {
                None
            }
        }
        method::RANSNX16 | method::ARITH => {
            let flags = *src.first()?;
            if flags & 0x10 != 0 {
                return None;
            }
            Cur::new(src, 1).uint7().ok().map(|v| v as usize)
        }
        method::FQZCOMP => Cur::new(src, 0).uint7().ok().map(|v| v as usize),
        _ => None,
    }
}

// ---------------------------------------------------------------------------------------------
// specification invariants (no ground truth needed)
// ---------------------------------------------------------------------------------------------

/// A structural finding: (`kind`, detail). `kind` is a short stable identifier that property
/// modules prefix to build failure signatures.
pub type Finding = (String, String);

pub const KNOWN_SERIES: [&[u8; 2]; 30] = [
    b"BF", b"CF", b"RI", b"RL", b"AP", b"RG", b"RN", b"MF", b"NS", b"NP", b"TS", b"NF", b"TL", b"FN", b"FC", b"FP", b"DL", b"BB", b"QQ", b"BS", b"IN", b"RS", b"PD", b"HC", b"SC", b"MQ", b"BA", b"QS", b"TC", b"TN",
];

fn check_block(file: &[u8], f: &CramFile, b: &Block, where_: &str, out: &mut Vec<Finding>) {
    if b.crc_stored != b.crc_computed {
        out.push(("block-crc32".into(), format!("{where_} block at {}: stored CRC32 {:08x}, computed {:08x}", b.offset, b.crc_stored, b.crc_computed)));
    }
    let max_method = if f.major == 3 && f.minor == 0 { method::RANS4X8 } else { method::TOK3 };
    if b.method > max_method {
        out.push((
            format!("method-not-in-version:{}", method_name(b.method)),
            format!("{where_} block at {} (content id {}) uses method {} ({}) in a file declared {}.{}", b.offset, b.content_id, b.method, method_name(b.method), f.major, f.minor),
        ));
    }
    if b.method > method::TOK3 {
        return;
    }
    // §8: blocks with a raw size of zero are empty whatever the method byte says — nothing to decode
    if b.raw_size == 0 {
        return;
    }
    let src = b.payload(file);
    if let Some(own) = stream_own_size(b.method, src) {
        if own != b.raw_size {
            out.push((
                format!("raw-size:{}", method_name(b.method)),
                format!("{where_} block at {} (content id {}): block header declares raw size {} but the {} stream declares {}", b.offset, b.content_id, b.raw_size, method_name(b.method), own),
            ));
        }
    }
    match decode_block(file, b) {
        Ok(d) => {
            if d.len() != b.raw_size {
                out.push((
                    format!("raw-size:{}", method_name(b.method)),
                    format!("{where_} block at {} (content id {}, {}): declared raw size {} but the payload decodes to {} bytes", b.offset, b.content_id, method_name(b.method), b.raw_size, d.len()),
                ));
            }
        }
        Err(e) => out.push((format!("block-decode:{}", method_name(b.method)), format!("{where_} block at {} (content id {}, {} → {} bytes): {e}", b.offset, b.content_id, b.comp_size, b.raw_size))),
    }
}

/// Invariants of the container format that need nothing but the file.
pub fn check_structure(file: &[u8], f: &CramFile) -> Vec<Finding> {
    let mut out: Vec<Finding> = Vec::new();
    if f.major != 3 || f.minor > 1 {
        out.push(("version".into(), format!("file definition declares version {}.{}", f.major, f.minor)));
    }
    // header container
    {
        let h = &f.header;
        if h.crc_stored != h.crc_computed {
            out.push(("container-crc32".into(), format!("header container: stored CRC32 {:08x}, computed {:08x}", h.crc_stored, h.crc_computed)));
        }
        if h.leftover != 0 {
            // the header container may legitimately carry padding *blocks*, not stray bytes
            out.push(("container-length".into(), format!("header container: {} bytes of the declared length are not covered by its {} blocks", h.leftover, h.n_blocks)));
        }
        for b in &h.blocks {
            check_block(file, f, b, "header container", &mut out);
        }
        if let Err(e) = &f.header_text {
            out.push(("file-header".into(), e.clone()));
        }
    }
    // EOF container: the file ends with it, and it is the only EOF-shaped container
    if file.len() < EOF_V3.len() || file[file.len() - EOF_V3.len()..] != EOF_V3 {
        out.push(("eof-container".into(), "the file does not end with the 38-byte CRAM v3 EOF container".into()));
    }
    match f.containers.last() {
        Some(c) if c.is_eof => {}
        _ => out.push(("eof-container".into(), "the last container is not the EOF container".into())),
    }
    for (ci, c) in f.containers.iter().enumerate() {
        let w = format!("container {ci} at {}", c.offset);
        if c.crc_stored != c.crc_computed {
            out.push(("container-crc32".into(), format!("{w}: stored header CRC32 {:08x}, computed {:08x}", c.crc_stored, c.crc_computed)));
        }
        if c.is_eof {
            if ci + 1 != f.containers.len() {
                out.push(("eof-container".into(), format!("{w}: EOF container before the end of the file")));
            }
            continue;
        }
        if c.leftover != 0 {
            out.push(("container-length".into(), format!("{w}: declared length {} but its {} blocks occupy {} bytes", c.length, c.n_blocks, c.length as usize - c.leftover)));
        }
        for b in &c.blocks {
            check_block(file, f, b, &w, &mut out);
        }
        // first block = compression header
        match c.blocks.first() {
            Some(b) if b.content_type == content_type::COMPRESSION_HEADER => {}
            Some(b) => out.push(("block-layout".into(), format!("{w}: first block has content type {} (want 1, compression header)", b.content_type))),
            None => out.push(("block-layout".into(), format!("{w}: no blocks"))),
        }
        if c.blocks.iter().filter(|b| b.content_type == content_type::COMPRESSION_HEADER).count() > 1 {
            out.push(("block-layout".into(), format!("{w}: more than one compression header block")));
        }
        for b in &c.blocks {
            if ![content_type::COMPRESSION_HEADER, content_type::SLICE_HEADER, content_type::EXTERNAL_DATA, content_type::CORE_DATA].contains(&b.content_type) {
                out.push(("block-layout".into(), format!("{w}: block at {} has content type {}", b.offset, b.content_type)));
            }
        }
        // landmarks = offsets of the slice header blocks from the end of the container header
        let expect: Vec<i32> = c.slices.iter().map(|s| s.offset_in_container as i32).collect();
        if c.landmarks != expect {
            out.push(("landmarks".into(), format!("{w}: landmarks {:?} but the slice header blocks start at {:?} (header length {})", c.landmarks, expect, c.header_len)));
        }
        if c.slices.is_empty() {
            out.push(("block-layout".into(), format!("{w}: no slice")));
        }
        match &c.compression_header {
            Some(Ok(h)) => check_compression_header(h, &w, &mut out),
            Some(Err(e)) => out.push(("compression-header".into(), format!("{w}: {e}"))),
            None => {}
        }
        // slices
        let mut n_rec: i64 = 0;
        for (si, s) in c.slices.iter().enumerate() {
            let w = format!("{w} slice {si}");
            let h = match &s.header {
                Ok(h) => h,
                Err(e) => {
                    out.push(("slice-header".into(), format!("{w}: {e}")));
                    continue;
                }
            };
            n_rec += h.n_records as i64;
            if h.n_blocks as usize != s.data_blocks.len() {
                out.push(("slice-block-count".into(), format!("{w}: header declares {} blocks, {} data blocks follow", h.n_blocks, s.data_blocks.len())));
            }
            let present: Vec<i32> = s.data_blocks.iter().map(|i| c.blocks[*i].content_id).collect();
            let external: Vec<i32> = s.data_blocks.iter().filter(|i| c.blocks[**i].content_type == content_type::EXTERNAL_DATA).map(|i| c.blocks[*i].content_id).collect();
            let cores = s.data_blocks.iter().filter(|i| c.blocks[**i].content_type == content_type::CORE_DATA).count();
            if cores != 1 {
                out.push(("block-layout".into(), format!("{w}: {cores} core data blocks (want exactly 1)")));
            }
            // ids listed ⊆ present ∪ {0}; ⊇ external ids; external ids unique
            for id in &h.content_ids {
                if *id != 0 && !present.contains(id) {
                    out.push(("slice-content-ids".into(), format!("{w}: header lists content id {id} but no such block follows (present: {present:?})")));
                }
            }
            for id in &external {
                if !h.content_ids.contains(id) {
                    out.push(("slice-content-ids".into(), format!("{w}: external block {id} is not listed in the slice header ids {:?}", h.content_ids)));
                }
            }
            let mut e2 = external.clone();
            e2.sort();
            e2.dedup();
            if e2.len() != external.len() {
                out.push(("slice-content-ids".into(), format!("{w}: duplicate external block content ids {external:?}")));
            }
            if h.embedded_ref_id != -1 && !external.contains(&h.embedded_ref_id) {
                out.push(("slice-embedded-ref".into(), format!("{w}: embedded reference block id {} is not among the external blocks", h.embedded_ref_id)));
            }
            // slice counters inside the container: first slice continues the container counter
            let expect_counter = c.record_counter + (n_rec - h.n_records as i64);
            if h.record_counter != expect_counter {
                out.push(("slice-record-counter".into(), format!("{w}: record counter {} (container counter {} + {} records in earlier slices = {expect_counter})", h.record_counter, c.record_counter, n_rec - h.n_records as i64)));
            }
            if (h.ref_id == -1 || h.ref_id == -2) && h.md5 != [0u8; 16] {
                out.push(("slice-md5".into(), format!("{w}: reference id {} but a non-zero reference MD5", h.ref_id)));
            }
            if h.ref_id < -2 || (h.ref_id >= 0 && (h.start < 1 || h.span < 1)) {
                out.push(("slice-ref-context".into(), format!("{w}: reference id {} start {} span {}", h.ref_id, h.start, h.span)));
            }
        }
        if c.n_records as i64 != n_rec {
            out.push(("container-record-count".into(), format!("{w}: header declares {} records, its slices declare {n_rec}", c.n_records)));
        }
        if c.n_blocks as usize != c.blocks.len() {
            out.push(("container-block-count".into(), format!("{w}: declares {} blocks, {} parsed", c.n_blocks, c.blocks.len())));
        }
    }
    // record counters: running totals over the data containers. The first counter may be 0 or 1:
    // the CRAM 3.0 text said "1-based", later revisions (and htslib) count from 0.
    let mut total: i64 = counter_base(f);
    for (ci, c) in f.containers.iter().enumerate() {
        if c.is_eof {
            continue;
        }
        if c.record_counter != total {
            out.push(("container-record-counter".into(), format!("container {ci} at {}: record counter {} but {} records precede it (counting from {})", c.offset, c.record_counter, total - counter_base(f), counter_base(f))));
        }
        total += c.n_records as i64;
    }
    out
}

/// The record counter of the first data container when it is 0 or 1 (both conventions exist in
/// revisions of the specification), else 0.
pub fn counter_base(f: &CramFile) -> i64 {
    match f.containers.iter().find(|c| !c.is_eof).map(|c| c.record_counter) {
        Some(1) => 1,
        _ => 0,
    }
}

fn check_compression_header(h: &CompressionHeader, w: &str, out: &mut Vec<Finding>) {
    let mut seen: Vec<[u8; 2]> = Vec::new();
    for (k, _) in &h.preservation {
        if seen.contains(k) {
            out.push(("compression-header".into(), format!("{w}: preservation map key {} twice", String::from_utf8_lossy(k))));
        }
        seen.push(*k);
    }
    if let Some(sm) = h.pm(b"SM") {
        for (i, b) in sm.iter().enumerate() {
            let mut codes = [(b >> 6) & 3, (b >> 4) & 3, (b >> 2) & 3, b & 3];
            codes.sort();
            if codes != [0, 1, 2, 3] {
                out.push(("substitution-matrix".into(), format!("{w}: substitution matrix row {i} = {b:#04x} is not a permutation of the four codes")));
            }
        }
    }
    let mut seen: Vec<[u8; 2]> = Vec::new();
    for (k, e) in &h.data_series {
        if !KNOWN_SERIES.contains(&k) {
            out.push(("compression-header".into(), format!("{w}: unknown data series key {}", String::from_utf8_lossy(k))));
        }
        if seen.contains(k) {
            out.push(("compression-header".into(), format!("{w}: data series {} twice", String::from_utf8_lossy(k))));
        }
        seen.push(*k);
        if !(0..=9).contains(&e.codec) {
            out.push(("compression-header".into(), format!("{w}: data series {} uses unknown codec id {}", String::from_utf8_lossy(k), e.codec)));
        }
    }
    match h.tag_lines() {
        Ok(lines) => {
            for line in lines {
                for (tag, ty) in line {
                    let key = ((tag[0] as i32) << 16) | ((tag[1] as i32) << 8) | ty as i32;
                    if !h.tags.iter().any(|(k, _)| *k == key) {
                        out.push(("compression-header".into(), format!("{w}: tag dictionary entry {}:{} has no tag encoding (key {key:#x})", String::from_utf8_lossy(&tag), ty as char)));
                    }
                }
            }
        }
        Err(e) => out.push(("compression-header".into(), format!("{w}: {e}"))),
    }
}

// ---------------------------------------------------------------------------------------------
// helpers for mutation-based checks
// ---------------------------------------------------------------------------------------------

/// Recompute every block CRC32 and every container header CRC32 in place (for mutation fuzzing:
/// corrupt a payload or a header field, re-seal, and the corruption reaches the decoders). The
/// layout must still parse.
pub fn reseal(file: &mut Vec<u8>) -> Result<(), String> {
    let f = walk(file)?;
    let mut all: Vec<&Container> = vec![&f.header];
    all.extend(f.containers.iter());
    let mut patches: Vec<(usize, u32)> = Vec::new();
    for c in all {
        let crc_off = c.offset + c.header_len - 4;
        patches.push((crc_off, crc32fast::hash(&file[c.offset..crc_off])));
        for b in &c.blocks {
            patches.push((b.crc_offset(), crc32fast::hash(&file[b.offset..b.crc_offset()])));
        }
    }
    for (off, crc) in patches {
        file[off..off + 4].copy_from_slice(&crc.to_le_bytes());
    }
    Ok(())
}

#[cfg(test)]
mod tests {
    use super::*;

    #[test]
    fn eof_constant_is_self_consistent() {
        let mut file = b"CRAM\x03\x00".to_vec();
        file.extend_from_slice(&[0u8; 20]);
        // a header container is required by `walk`; parse the EOF container alone instead
        let c = parse_container(&EOF_V3, 0).unwrap();
        assert!(c.is_eof);
        assert_eq!(c.crc_stored, c.crc_computed);
        assert_eq!(c.blocks.len(), 1);
        assert_eq!(c.blocks[0].crc_stored, c.blocks[0].crc_computed);
    }
}
