//! Independent reference-span arithmetic (one-based closed intervals), written from the format
//! specifications, not from noodles.
//!
//! * SAM/BAM: a record placed at `POS` covers `[POS, POS + max(1, Σ len(op)) − 1]` where the sum
//!   runs over the CIGAR operations that consume the reference: `M D N = X` (SAM spec §1.4, table of
//!   CIGAR operations, column "consumes reference"). A record without reference-consuming
//!   operations (no CIGAR, or only `I S H P`) is treated as covering one base — this is the
//!   convention of the index section (§5.1.1 / `bam_endpos`): "unmapped reads / zero-length
//!   alignments are treated as 1 bp long".
//! * VCF/BCF before fileformat 4.5: `[POS, END]` if INFO `END` is present, else
//!   `[POS, POS + len(REF) − 1]` (VCF 4.2–4.4 §1.6.1 INFO END: "End reference position (1-based),
//!   indicating the variant spans positions POS–END on reference/contig CHROM").
//!
//! VCF 4.5 (END deprecated, SVLEN / FORMAT LEN arithmetic) is deliberately not encoded here.

/// CIGAR operation kinds by their SAM letter.
#[derive(Clone, Copy, Debug, PartialEq, Eq)]
pub enum Op {
    M,
    I,
    D,
    N,
    S,
    H,
    P,
    Eq,
    X,
}

impl Op {
    pub fn consumes_reference(self) -> bool {
        matches!(self, Op::M | Op::D | Op::N | Op::Eq | Op::X)
    }
    pub fn consumes_query(self) -> bool {
        matches!(self, Op::M | Op::I | Op::S | Op::Eq | Op::X)
    }
}

/// Reference length of a CIGAR.
pub fn cigar_reference_len(ops: &[(Op, u64)]) -> u64 {
    ops.iter().filter(|(k, _)| k.consumes_reference()).map(|(_, n)| *n).sum()
}

/// Query (read) length of a CIGAR.
pub fn cigar_query_len(ops: &[(Op, u64)]) -> u64 {
    ops.iter().filter(|(k, _)| k.consumes_query()).map(|(_, n)| *n).sum()
}

/// One-based closed span of an alignment placed at `pos`.
pub fn bam_span(pos: u64, ops: &[(Op, u64)]) -> (u64, u64) {
    let len = cigar_reference_len(ops).max(1);
    (pos, pos + len - 1)
}

/// One-based closed span of a variant (fileformat < 4.5).
pub fn vcf_span(pos: u64, ref_len: u64, info_end: Option<u64>) -> (u64, u64) {
    match info_end {
        Some(e) => (pos, e),
        None => (pos, pos + ref_len.max(1) - 1),
    }
}

/// Closed-interval intersection with an optionally unbounded region.
pub fn intersects(span: (u64, u64), region: (Option<u64>, Option<u64>)) -> bool {
    let rs = region.0.unwrap_or(1);
    let re = region.1.unwrap_or(u64::MAX);
    span.0 <= re && rs <= span.1
}
