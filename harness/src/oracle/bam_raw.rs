//! Independent BAM framing and record field decoding, written from the SAM specification
//! (SAMv1 §4.2 "The BAM format", §4.2.4 "Auxiliary data encoding", §5.3 "C source code for
//! computing bin number"). Nothing here calls into noodles-bam.
//!
//! Input is the *uncompressed* BAM stream (for a BGZF file: `bgzf_walk::concat(&bgzf_walk::walk(..))`).
//!
//! Layout transcribed from the specification:
//!
//! ```text
//! magic "BAM\1" | l_text i32 | text[l_text] | n_ref i32 | { l_name i32 | name[l_name] (NUL-terminated) | l_ref i32 }*
//! record: block_size i32 | refID i32 | pos i32 | l_read_name u8 | mapq u8 | bin u16 | n_cigar_op u16 |
//!         flag u16 | l_seq i32 | next_refID i32 | next_pos i32 | tlen i32 | read_name[l_read_name] |
//!         cigar u32[n_cigar_op] (len<<4|op, op in "MIDNSHP=X") | seq u8[(l_seq+1)/2] (high nibble first,
//!         "=ACMGRSVTWYHKDBN") | qual u8[l_seq] | aux*
//! aux:    tag[2] | type | value; A c C: 1 byte; s S: 2; i I f: 4; Z H: NUL-terminated;
//!         B: subtype[1] count u32 values
//! ```

pub const MAGIC: [u8; 4] = *b"BAM\x01";
pub const BASES: &[u8; 16] = b"=ACMGRSVTWYHKDBN";
pub const CIGAR_OPS: &[u8; 9] = b"MIDNSHP=X";

/// SAMv1 §5.3, transcribed: `beg` 0-based inclusive, `end` 0-based exclusive.
pub fn reg2bin(beg: i64, end: i64) -> i64 {
    let end = end - 1;
    if beg >> 14 == end >> 14 {
        return ((1 << 15) - 1) / 7 + (beg >> 14);
    }
    if beg >> 17 == end >> 17 {
        return ((1 << 12) - 1) / 7 + (beg >> 17);
    }
    if beg >> 20 == end >> 20 {
        return ((1 << 9) - 1) / 7 + (beg >> 20);
    }
    if beg >> 23 == end >> 23 {
        return ((1 << 6) - 1) / 7 + (beg >> 23);
    }
    if beg >> 26 == end >> 26 {
        return ((1 << 3) - 1) / 7 + (beg >> 26);
    }
    0
}

/// Bin of a record by §4.2.1: 0-based start `pos0` (−1 when unplaced) and reference length
/// `ref_len` (Σ M/D/N/=/X); a zero length counts as one. `reg2bin(-1, 0)` = 4680.
pub fn record_bin(pos0: i64, ref_len: u64) -> i64 {
    reg2bin(pos0, pos0 + ref_len.max(1) as i64)
}

#[derive(Clone, Debug, PartialEq, Eq)]
pub struct RawHeader {
    pub text: Vec<u8>,
    /// (name without the NUL, l_ref)
    pub refs: Vec<(Vec<u8>, i32)>,
    /// offset of the first record's `block_size`
    pub records_offset: usize,
    /// (what, offset, width) of every length/count field — for structured mutation
    pub length_fields: Vec<(&'static str, usize, usize)>,
}

fn rd_i32(s: &[u8], off: usize, what: &str) -> Result<i32, String> {
    s.get(off..off + 4).map(|b| i32::from_le_bytes([b[0], b[1], b[2], b[3]])).ok_or_else(|| format!("{what}: stream ends at {} (need 4 bytes at {off})", s.len()))
}

fn rd_u32(s: &[u8], off: usize, what: &str) -> Result<u32, String> {
    rd_i32(s, off, what).map(|x| x as u32)
}

fn rd_u16(s: &[u8], off: usize, what: &str) -> Result<u16, String> {
    s.get(off..off + 2).map(|b| u16::from_le_bytes([b[0], b[1]])).ok_or_else(|| format!("{what}: stream ends at {} (need 2 bytes at {off})", s.len()))
}

pub fn parse_header(s: &[u8]) -> Result<RawHeader, String> {
    if s.len() < 4 || s[..4] != MAGIC {
        return Err("bad BAM magic".into());
    }
    let mut lf = vec![("l_text", 4usize, 4usize)];
    let l_text = rd_i32(s, 4, "l_text")?;
    if l_text < 0 {
        return Err(format!("l_text = {l_text}"));
    }
    let mut off = 8usize;
    let text = s.get(off..off + l_text as usize).ok_or("header text truncated")?.to_vec();
    off += l_text as usize;
    lf.push(("n_ref", off, 4));
    let n_ref = rd_i32(s, off, "n_ref")?;
    if n_ref < 0 {
        return Err(format!("n_ref = {n_ref}"));
    }
    off += 4;
    let mut refs = Vec::new();
    for i in 0..n_ref {
        lf.push(("l_name", off, 4));
        let l_name = rd_i32(s, off, "l_name")?;
        if l_name < 1 {
            return Err(format!("reference {i}: l_name = {l_name}"));
        }
        off += 4;
        let name = s.get(off..off + l_name as usize).ok_or_else(|| format!("reference {i}: name truncated"))?;
        if *name.last().unwrap_or(&1) != 0 {
            return Err(format!("reference {i}: name not NUL-terminated"));
        }
        if name[..name.len() - 1].contains(&0) {
            return Err(format!("reference {i}: NUL inside the name"));
        }
        let name = name[..name.len() - 1].to_vec();
        off += l_name as usize;
        let l_ref = rd_i32(s, off, "l_ref")?;
        off += 4;
        refs.push((name, l_ref));
    }
    Ok(RawHeader { text, refs, records_offset: off, length_fields: lf })
}

#[derive(Clone, Debug, PartialEq)]
pub enum RawAuxValue {
    /// `A`, `c`, `C`, `s`, `S`, `i`, `I`: the integer value (for `A` the byte)
    Int(i64),
    /// `f`: bit pattern
    Float(u32),
    /// `Z` / `H`: bytes without the NUL
    Text(Vec<u8>),
    /// `B` with an integer subtype
    IntArray(Vec<i64>),
    /// `B:f`: bit patterns
    FloatArray(Vec<u32>),
}

#[derive(Clone, Debug, PartialEq)]
pub struct RawAux {
    pub tag: [u8; 2],
    pub ty: u8,
    pub subtype: Option<u8>,
    /// `B`: the stored element count
    pub count: Option<u32>,
    pub value: RawAuxValue,
    /// offset of the tag within the stream
    pub offset: usize,
}

#[derive(Clone, Debug, PartialEq)]
pub struct RawRecord {
    /// offset of `block_size` in the stream
    pub offset: usize,
    pub block_size: u32,
    pub ref_id: i32,
    pub pos: i32,
    pub l_read_name: u8,
    pub mapq: u8,
    pub bin: u16,
    pub n_cigar_op: u16,
    pub flag: u16,
    pub l_seq: u32,
    pub next_ref_id: i32,
    pub next_pos: i32,
    pub tlen: i32,
    /// `l_read_name` bytes including the terminator
    pub read_name: Vec<u8>,
    /// raw `len<<4|op` words
    pub cigar: Vec<u32>,
    /// packed bases, `(l_seq+1)/2` bytes
    pub seq_packed: Vec<u8>,
    pub qual: Vec<u8>,
    pub aux: Vec<RawAux>,
    /// (what, offset, width) of every length/count field of this record
    pub length_fields: Vec<(&'static str, usize, usize)>,
}

impl RawRecord {
    /// `(op code 0..=8, length)`; `Err` for an op code > 8.
    pub fn cigar_ops(&self) -> Result<Vec<(u8, u64)>, String> {
        self.cigar
            .iter()
            .map(|w| {
                let k = (w & 0xf) as u8;
                if k > 8 { Err(format!("CIGAR op code {k}")) } else { Ok((k, (w >> 4) as u64)) }
            })
            .collect()
    }

    /// Unpacked bases (high nibble first).
    pub fn bases(&self) -> Vec<u8> {
        (0..self.l_seq as usize)
            .map(|i| {
                let b = self.seq_packed[i / 2];
                BASES[(if i % 2 == 0 { b >> 4 } else { b & 0xf }) as usize]
            })
            .collect()
    }

    /// Low nibble of the last sequence byte when `l_seq` is odd (the specification recommends 0).
    pub fn odd_padding_nibble(&self) -> Option<u8> {
        if self.l_seq % 2 == 1 { self.seq_packed.last().map(|b| b & 0xf) } else { None }
    }

    /// Name without the terminator; `None` for the `*` placeholder.
    pub fn name(&self) -> Result<Option<Vec<u8>>, String> {
        match self.read_name.split_last() {
            Some((0, body)) => {
                if body.contains(&0) {
                    Err("NUL inside read_name".into())
                } else if body == b"*" {
                    Ok(None)
                } else {
                    Ok(Some(body.to_vec()))
                }
            }
            _ => Err("read_name not NUL-terminated".into()),
        }
    }

    pub fn aux_by_tag(&self, tag: &[u8; 2]) -> Vec<&RawAux> {
        self.aux.iter().filter(|a| &a.tag == tag).collect()
    }
}

pub fn parse_aux(s: &[u8], mut off: usize, end: usize, lf: &mut Vec<(&'static str, usize, usize)>) -> Result<Vec<RawAux>, String> {
    let mut out = Vec::new();
    while off < end {
        let start = off;
        if off + 3 > end {
            return Err(format!("aux field at {off}: truncated tag/type"));
        }
        let tag = [s[off], s[off + 1]];
        let ty = s[off + 2];
        off += 3;
        let need = |off: usize, n: usize| -> Result<(), String> { if off + n > end { Err(format!("aux {}{} at {start}: value truncated", tag[0] as char, tag[1] as char)) } else { Ok(()) } };
        let int_at = |off: usize, t: u8| -> i64 {
            match t {
                b'A' | b'C' => s[off] as i64,
                b'c' => s[off] as i8 as i64,
                b's' => i16::from_le_bytes([s[off], s[off + 1]]) as i64,
                b'S' => u16::from_le_bytes([s[off], s[off + 1]]) as i64,
                b'i' => i32::from_le_bytes([s[off], s[off + 1], s[off + 2], s[off + 3]]) as i64,
                _ => u32::from_le_bytes([s[off], s[off + 1], s[off + 2], s[off + 3]]) as i64,
            }
        };
        let width = |t: u8| -> Option<usize> {
            match t {
                b'A' | b'c' | b'C' => Some(1),
                b's' | b'S' => Some(2),
                b'i' | b'I' | b'f' => Some(4),
                _ => None,
            }
        };
        let (mut subtype, mut count) = (None, None);
        let value = match ty {
            b'A' | b'c' | b'C' | b's' | b'S' | b'i' | b'I' => {
                let w = width(ty).unwrap_or(1);
                need(off, w)?;
                let v = int_at(off, ty);
                off += w;
                RawAuxValue::Int(v)
            }
            b'f' => {
                need(off, 4)?;
                let v = u32::from_le_bytes([s[off], s[off + 1], s[off + 2], s[off + 3]]);
                off += 4;
                RawAuxValue::Float(v)
            }
            b'Z' | b'H' => {
                let rel = s[off..end].iter().position(|b| *b == 0).ok_or_else(|| format!("aux at {start}: unterminated string"))?;
                let v = s[off..off + rel].to_vec();
                off += rel + 1;
                RawAuxValue::Text(v)
            }
            b'B' => {
                need(off, 5)?;
                let st = s[off];
                let w = match st {
                    b'c' | b'C' | b's' | b'S' | b'i' | b'I' | b'f' => width(st).unwrap_or(1),
                    _ => return Err(format!("aux at {start}: array subtype {:?}", st as char)),
                };
                lf.push(("aux_array_count", off + 1, 4));
                let n = u32::from_le_bytes([s[off + 1], s[off + 2], s[off + 3], s[off + 4]]);
                off += 5;
                need(off, w * n as usize)?;
                subtype = Some(st);
                count = Some(n);
                let v = if st == b'f' {
                    RawAuxValue::FloatArray((0..n as usize).map(|i| u32::from_le_bytes([s[off + 4 * i], s[off + 4 * i + 1], s[off + 4 * i + 2], s[off + 4 * i + 3]])).collect())
                } else {
                    RawAuxValue::IntArray((0..n as usize).map(|i| int_at(off + w * i, st)).collect())
                };
                off += w * n as usize;
                v
            }
            _ => return Err(format!("aux at {start}: type {:?}", ty as char)),
        };
        out.push(RawAux { tag, ty, subtype, count, value, offset: start });
    }
    Ok(out)
}

/// Parse the record whose `block_size` is at `off`. Returns the record and the offset of the next.
pub fn parse_record(s: &[u8], off: usize) -> Result<(RawRecord, usize), String> {
    let block_size = rd_u32(s, off, "block_size")?;
    let body = off + 4;
    let end = body.checked_add(block_size as usize).filter(|e| *e <= s.len()).ok_or_else(|| format!("record at {off}: block_size {block_size} overruns the stream ({} bytes)", s.len()))?;
    if block_size < 32 {
        return Err(format!("record at {off}: block_size {block_size} < 32"));
    }
    let mut lf = vec![("block_size", off, 4usize), ("l_read_name", body + 8, 1), ("n_cigar_op", body + 12, 2), ("l_seq", body + 16, 4)];
    let ref_id = rd_i32(s, body, "refID")?;
    let pos = rd_i32(s, body + 4, "pos")?;
    let l_read_name = s[body + 8];
    let mapq = s[body + 9];
    let bin = rd_u16(s, body + 10, "bin")?;
    let n_cigar_op = rd_u16(s, body + 12, "n_cigar_op")?;
    let flag = rd_u16(s, body + 14, "flag")?;
    let l_seq = rd_u32(s, body + 16, "l_seq")?;
    let next_ref_id = rd_i32(s, body + 20, "next_refID")?;
    let next_pos = rd_i32(s, body + 24, "next_pos")?;
    let tlen = rd_i32(s, body + 28, "tlen")?;
    let mut p = body + 32;
    let take = |p: &mut usize, n: usize, what: &str| -> Result<Vec<u8>, String> {
        if *p + n > end {
            return Err(format!("record at {off}: {what} ({n} bytes at {}) overruns block end {end}", *p));
        }
        let v = s[*p..*p + n].to_vec();
        *p += n;
        Ok(v)
    };
    let read_name = take(&mut p, l_read_name as usize, "read_name")?;
    let cigar_bytes = take(&mut p, 4 * n_cigar_op as usize, "cigar")?;
    let cigar = cigar_bytes.chunks(4).map(|c| u32::from_le_bytes([c[0], c[1], c[2], c[3]])).collect();
    let seq_packed = take(&mut p, (l_seq as usize).div_ceil(2), "seq")?;
    let qual = take(&mut p, l_seq as usize, "qual")?;
    let aux = parse_aux(s, p, end, &mut lf).map_err(|e| format!("record at {off}: {e}"))?;
    Ok((RawRecord { offset: off, block_size, ref_id, pos, l_read_name, mapq, bin, n_cigar_op, flag, l_seq, next_ref_id, next_pos, tlen, read_name, cigar, seq_packed, qual, aux, length_fields: lf }, end))
}

/// Header plus all records of an uncompressed BAM stream; the records must tile the rest exactly.
pub fn parse_stream(s: &[u8]) -> Result<(RawHeader, Vec<RawRecord>), String> {
    let h = parse_header(s)?;
    let mut off = h.records_offset;
    let mut recs = Vec::new();
    while off < s.len() {
        let (r, next) = parse_record(s, off)?;
        recs.push(r);
        off = next;
    }
    Ok((h, recs))
}

#[cfg(test)]
mod tests {
    use super::*;

    #[test]
    fn bins() {
        assert_eq!(reg2bin(-1, 0), 4680);
        assert_eq!(reg2bin(0, 1), 4681);
        assert_eq!(reg2bin(0, 16384), 4681);
        assert_eq!(reg2bin(0, 16385), 585);
        assert_eq!(reg2bin(16384, 16385), 4682);
        assert_eq!(reg2bin(0, 1 << 29), 0);
        assert_eq!(reg2bin((1 << 29) - 1, 1 << 29), 4681 + 32767);
    }
}
