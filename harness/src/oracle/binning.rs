//! Independent binning arithmetic for the UCSC/SAM/CSI binning scheme.
//!
//! Two formulations, written without looking at the noodles implementation:
//!
//! * `reg2bin_spec` / `reg2bins_spec` — line-by-line transcriptions of the C routines printed in
//!   the CSI specification (`CSIv1`, "reg2bin"/"reg2bins") and, for the fixed geometry (14, 5), in
//!   the SAM specification §5.3 (`reg2bin_sam`).
//! * `reg2bin_def` — the *definition*: level `l` (0 = root) consists of `8^l` bins of
//!   `2^(min_shift + 3·(depth − l))` positions each, numbered from `(8^l − 1)/7`; an interval belongs
//!   to the deepest level at which one bin contains it entirely.
//!
//! All functions take zero-based half-open `[beg, end)` like the specification does; the
//! `*_1based` helpers take one-based closed intervals.

/// CSI specification, `reg2bin`:
///
/// ```c
/// int reg2bin(int64_t beg, int64_t end, int min_shift, int depth)
/// {
///     int l, s = min_shift, t = ((1<<depth*3) - 1) / 7;
///     for (--end, l = depth; l > 0; --l, s += 3, t -= 1<<l*3)
///         if (beg>>s == end>>s) return t + (beg>>s);
///     return 0;
/// }
/// ```
pub fn reg2bin_spec(beg: i64, end: i64, min_shift: i32, depth: i32) -> i64 {
    let mut s = min_shift;
    let mut t: i64 = ((1i64 << (depth * 3)) - 1) / 7;
    let end = end - 1;
    let mut l = depth;
    while l > 0 {
        if beg >> s == end >> s {
            return t + (beg >> s);
        }
        // C update expression: --l, s += 3, t -= 1<<l*3   (l already decremented)
        l -= 1;
        s += 3;
        t -= 1i64 << (l * 3);
    }
    0
}

/// CSI specification, `reg2bins`:
///
/// ```c
/// int reg2bins(int64_t beg, int64_t end, int min_shift, int depth, int *bins)
/// {
///     int l, t, n, s = min_shift + depth*3;
///     for (--end, l = n = t = 0; l <= depth; s -= 3, t += 1<<l*3, ++l) {
///         int b = t + (beg>>s), e = t + (end>>s), i;
///         for (i = b; i <= e; ++i) bins[n++] = i;
///     }
///     return n;
/// }
/// ```
pub fn reg2bins_spec(beg: i64, end: i64, min_shift: i32, depth: i32) -> Vec<i64> {
    let mut bins = Vec::new();
    let mut s = min_shift + depth * 3;
    let end = end - 1;
    let mut t: i64 = 0;
    let mut l = 0;
    while l <= depth {
        let b = t + (beg >> s);
        let e = t + (end >> s);
        let mut i = b;
        while i <= e {
            bins.push(i);
            i += 1;
        }
        s -= 3;
        t += 1i64 << (l * 3);
        l += 1;
    }
    bins
}

/// SAM specification §5.3 (fixed 14/5 geometry):
///
/// ```c
/// int reg2bin(int beg, int end)
/// {
///     --end;
///     if (beg>>14 == end>>14) return ((1<<15)-1)/7 + (beg>>14);
///     if (beg>>17 == end>>17) return ((1<<12)-1)/7 + (beg>>17);
///     if (beg>>20 == end>>20) return ((1<<9)-1)/7 + (beg>>20);
///     if (beg>>23 == end>>23) return ((1<<6)-1)/7 + (beg>>23);
///     if (beg>>26 == end>>26) return ((1<<3)-1)/7 + (beg>>26);
///     return 0;
/// }
/// ```
pub fn reg2bin_sam(beg: i64, end: i64) -> i64 {
    let end = end - 1;
    if beg >> 14 == end >> 14 {
        return ((1 << 15) - 1) / 7 + (beg >> 14);
    }
    if beg >> 17 == end >> 17 {
        return ((1 << 12) - 1) / 7 + (beg >> 17);
    }
    if beg >> 20 == end >> 20 {
        return ((1 << 9) - 1) / 7 + (beg >> 20);
    }
    if beg >> 23 == end >> 23 {
        return ((1 << 6) - 1) / 7 + (beg >> 23);
    }
    if beg >> 26 == end >> 26 {
        return ((1 << 3) - 1) / 7 + (beg >> 26);
    }
    0
}

/// First bin id of level `l` (0 = root): (8^l − 1)/7.
pub fn level_offset(l: u32) -> u64 {
    ((1u64 << (3 * l)) - 1) / 7
}

/// Number of bins of a geometry: (8^(depth+1) − 1)/7. Real bin ids are `0..n_bins`.
pub fn n_bins(depth: u32) -> u64 {
    level_offset(depth + 1)
}

/// Number of addressable positions: 2^(min_shift + 3·depth).
pub fn n_positions(min_shift: u32, depth: u32) -> u64 {
    1u64 << (min_shift + 3 * depth)
}

/// Definition-based bin of `[beg, end)` (zero-based half-open, `beg < end ≤ n_positions`).
pub fn reg2bin_def(beg: u64, end: u64, min_shift: u32, depth: u32) -> u64 {
    let last = end - 1;
    let mut l = depth;
    loop {
        let width_log2 = min_shift + 3 * (depth - l);
        if beg >> width_log2 == last >> width_log2 {
            return level_offset(l) + (beg >> width_log2);
        }
        if l == 0 {
            // does not fit even the root (positions beyond the geometry): the spec routine says 0
            return 0;
        }
        l -= 1;
    }
}

/// Level (0 = root) of a bin id.
pub fn bin_level(id: u64, depth: u32) -> Option<u32> {
    (0..=depth).find(|&l| id >= level_offset(l) && id < level_offset(l + 1))
}

/// Zero-based half-open position range `[lo, hi)` covered by a bin.
pub fn bin_range(id: u64, min_shift: u32, depth: u32) -> Option<(u64, u64)> {
    let l = bin_level(id, depth)?;
    let w = min_shift + 3 * (depth - l);
    let k = id - level_offset(l);
    Some((k << w, (k + 1) << w))
}

/// Parent bin (None for the root).
pub fn parent(id: u64) -> Option<u64> {
    if id == 0 { None } else { Some((id - 1) / 8) }
}

pub fn reg2bin_1based(start: u64, end: u64, min_shift: u32, depth: u32) -> u64 {
    reg2bin_spec(start as i64 - 1, end as i64, min_shift as i32, depth as i32) as u64
}

pub fn reg2bins_1based(start: u64, end: u64, min_shift: u32, depth: u32) -> Vec<u64> {
    reg2bins_spec(start as i64 - 1, end as i64, min_shift as i32, depth as i32).into_iter().map(|b| b as u64).collect()
}

/// Self-test against the examples worked in the SAM specification text and against each other.
/// Returns a description of the first inconsistency (used by C17 before trusting the oracle).
pub fn self_check() -> Result<(), String> {
    // SAM spec §5.3: bin 0 spans 512 Mbp, bins 1-8 64 Mbp, 9-72 8 Mbp, 73-584 1 Mbp, 585-4680 128 kbp,
    // 4681-37448 16 kbp.
    let facts: [(u32, u64, u64); 6] = [(0, 0, 1 << 29), (1, 1, 1 << 26), (2, 9, 1 << 23), (3, 73, 1 << 20), (4, 585, 1 << 17), (5, 4681, 1 << 14)];
    for (l, first, width) in facts {
        if level_offset(l) != first {
            return Err(format!("level_offset({l}) = {} expected {first}", level_offset(l)));
        }
        let r = bin_range(first, 14, 5).ok_or("bin_range none")?;
        if r != (0, width) {
            return Err(format!("bin_range({first}) = {r:?} expected (0,{width})"));
        }
    }
    if n_bins(5) != 37449 {
        return Err(format!("n_bins(5) = {}", n_bins(5)));
    }
    // the three formulations agree on an edge-dense sample of the (14,5) geometry
    let edges: Vec<i64> = (0..=29).flat_map(|k| [(1i64 << k) - 1, 1i64 << k, (1i64 << k) + 1]).chain([3i64 << 13, 5 << 16, 7 << 19, 3 << 25]).filter(|&x| x >= 0 && x < (1 << 29)).collect();
    for &b in &edges {
        for &e in &edges {
            if e <= b {
                continue;
            }
            let a = reg2bin_spec(b, e, 14, 5);
            let c = reg2bin_sam(b, e);
            let d = reg2bin_def(b as u64, e as u64, 14, 5) as i64;
            if a != c || a != d {
                return Err(format!("reg2bin({b},{e}): csi-spec {a}, sam-spec {c}, definition {d}"));
            }
            let (lo, hi) = bin_range(a as u64, 14, 5).ok_or("range")?;
            if !(lo as i64 <= b && e <= hi as i64) {
                return Err(format!("bin {a} range [{lo},{hi}) does not contain [{b},{e})"));
            }
        }
    }
    Ok(())
}
