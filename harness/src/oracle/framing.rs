//! Minimal, independent framing parsers (record / container boundaries only) for BAM, BCF and CRAM,
//! written from the format specifications. Used by C13/C15 to know where structural units begin
//! and end without asking noodles.

fn u32_at(b: &[u8], off: usize) -> Option<u32> {
    b.get(off..off + 4).map(|s| u32::from_le_bytes([s[0], s[1], s[2], s[3]]))
}

#[derive(Clone, Debug, Default)]
pub struct Framing {
    /// offset of the first record (end of the header)
    pub header_end: usize,
    /// start offset of every record, plus the end offset of the last one
    pub boundaries: Vec<usize>,
    /// the stream parsed completely (no trailing garbage, no partial record)
    pub complete: bool,
}

impl Framing {
    pub fn is_boundary(&self, off: usize) -> bool {
        self.boundaries.binary_search(&off).is_ok()
    }
    pub fn n_records(&self) -> usize {
        self.boundaries.len().saturating_sub(1)
    }
}

/// Uncompressed BAM stream (SAMv1 §4.2).
pub fn bam(u: &[u8]) -> Option<Framing> {
    if u.get(..4)? != b"BAM\x01" {
        return None;
    }
    let l_text = u32_at(u, 4)? as usize;
    let mut off = 8 + l_text;
    let n_ref = u32_at(u, off)? as usize;
    off += 4;
    for _ in 0..n_ref {
        let l_name = u32_at(u, off)? as usize;
        off += 4 + l_name + 4;
    }
    if off > u.len() {
        return None;
    }
    let header_end = off;
    let mut boundaries = vec![off];
    let mut complete = true;
    while off < u.len() {
        let Some(bs) = u32_at(u, off) else {
            complete = false;
            break;
        };
        let next = off + 4 + bs as usize;
        if next > u.len() {
            complete = false;
            break;
        }
        off = next;
        boundaries.push(off);
    }
    Some(Framing { header_end, boundaries, complete })
}

/// Uncompressed BCF stream (VCFv4.3 §6.3): magic "BCF\2\2", l_text, text, then records of
/// l_shared + l_indiv.
pub fn bcf(u: &[u8]) -> Option<Framing> {
    if u.get(..3)? != b"BCF" {
        return None;
    }
    let l_text = u32_at(u, 5)? as usize;
    let mut off = 9 + l_text;
    if off > u.len() {
        return None;
    }
    let header_end = off;
    let mut boundaries = vec![off];
    let mut complete = true;
    while off < u.len() {
        let (Some(ls), Some(li)) = (u32_at(u, off), u32_at(u, off + 4)) else {
            complete = false;
            break;
        };
        let next = off + 8 + ls as usize + li as usize;
        if next > u.len() {
            complete = false;
            break;
        }
        off = next;
        boundaries.push(off);
    }
    Some(Framing { header_end, boundaries, complete })
}

/// ITF8 per CRAMv3 §2.3; returns (value, bytes used).
pub fn itf8(b: &[u8]) -> Option<(i32, usize)> {
    let b0 = *b.first()? as u32;
    if b0 & 0x80 == 0 {
        Some((b0 as i32, 1))
    } else if b0 & 0x40 == 0 {
        Some(((((b0 & 0x7f) << 8) | *b.get(1)? as u32) as i32, 2))
    } else if b0 & 0x20 == 0 {
        Some(((((b0 & 0x3f) << 16) | (*b.get(1)? as u32) << 8 | *b.get(2)? as u32) as i32, 3))
    } else if b0 & 0x10 == 0 {
        Some(((((b0 & 0x1f) << 24) | (*b.get(1)? as u32) << 16 | (*b.get(2)? as u32) << 8 | *b.get(3)? as u32) as i32, 4))
    } else {
        let v = ((b0 & 0x0f) << 28) | (*b.get(1)? as u32) << 20 | (*b.get(2)? as u32) << 12 | (*b.get(3)? as u32) << 4 | (*b.get(4)? as u32 & 0x0f);
        Some((v as i32, 5))
    }
}

/// LTF8 length only (CRAMv3 §2.3): number of bytes from the count of leading one bits.
pub fn ltf8_len(b: &[u8]) -> Option<usize> {
    let b0 = *b.first()?;
    Some(b0.leading_ones() as usize + 1).map(|n| n.min(9))
}

#[derive(Clone, Debug, Default)]
pub struct CramFraming {
    /// start offsets of every container (the first is at 26), plus the end of the last one
    pub boundaries: Vec<usize>,
    /// (header length, body length, number of records, number of blocks) per container
    pub containers: Vec<(usize, usize, i32, i32)>,
    pub complete: bool,
}

/// CRAM 3.x container framing: 26-byte file definition, then containers
/// (length i32 LE, itf8 ref id, itf8 start, itf8 span, itf8 n_records, ltf8 record counter,
/// ltf8 bases, itf8 n_blocks, itf8 array of landmarks, crc32).
pub fn cram(b: &[u8]) -> Option<CramFraming> {
    if b.get(..4)? != b"CRAM" || b.len() < 26 {
        return None;
    }
    let mut off = 26;
    let mut f = CramFraming { boundaries: vec![26], containers: vec![], complete: true };
    while off < b.len() {
        let start = off;
        let parsed = (|| -> Option<(usize, usize, i32, i32)> {
            let length = u32_at(b, off)? as i32;
            let mut p = off + 4;
            let mut n_records = 0;
            let mut n_blocks = 0;
            for i in 0..4 {
                let (v, n) = itf8(b.get(p..)?)?;
                if i == 3 {
                    n_records = v;
                }
                p += n;
            }
            p += ltf8_len(b.get(p..)?)?;
            p += ltf8_len(b.get(p..)?)?;
            let (v, n) = itf8(b.get(p..)?)?;
            n_blocks = n_blocks.max(v);
            p += n;
            let (n_landmarks, n) = itf8(b.get(p..)?)?;
            p += n;
            for _ in 0..n_landmarks.max(0) {
                let (_, n) = itf8(b.get(p..)?)?;
                p += n;
            }
            p += 4; // crc32
            if length < 0 || p > b.len() {
                return None;
            }
            Some((p - start, length as usize, n_records, n_blocks))
        })();
        let Some((hlen, blen, nrec, nblk)) = parsed else {
            f.complete = false;
            break;
        };
        let next = start + hlen + blen;
        if next > b.len() {
            f.complete = false;
            break;
        }
        f.containers.push((hlen, blen, nrec, nblk));
        off = next;
        f.boundaries.push(off);
    }
    Some(f)
}

/// CRC32 (IEEE) as used by CRAM container headers and blocks.
fn crc32(b: &[u8]) -> u32 {
    crc32fast::hash(b)
}

/// Recompute the CRC32 of every container header and every block of a (possibly mutated) CRAM
/// 3.x file, as far as the structure can still be walked, so that a corruption reaches the
/// decoders instead of being caught by a checksum. Returns the number of checksums rewritten.
pub fn cram_reseal(b: &mut [u8]) -> usize {
    let mut fixed = 0;
    if b.len() < 26 || &b[..4] != b"CRAM" {
        return 0;
    }
    let mut off = 26usize;
    while off < b.len() {
        // container header
        let start = off;
        let hdr = (|| -> Option<(usize, usize)> {
            let length = u32_at(b, off)? as i32;
            let mut p = off + 4;
            for _ in 0..4 {
                let (_, n) = itf8(b.get(p..)?)?;
                p += n;
            }
            p += ltf8_len(b.get(p..)?)?;
            p += ltf8_len(b.get(p..)?)?;
            let (_, n) = itf8(b.get(p..)?)?;
            p += n;
            let (n_landmarks, n) = itf8(b.get(p..)?)?;
            p += n;
            for _ in 0..n_landmarks.clamp(0, 10_000) {
                let (_, n) = itf8(b.get(p..)?)?;
                p += n;
            }
            if length < 0 || p + 4 > b.len() {
                return None;
            }
            Some((p, length as usize))
        })();
        let Some((crc_at, body_len)) = hdr else { break };
        let c = crc32(&b[start..crc_at]).to_le_bytes();
        if b[crc_at..crc_at + 4] != c {
            b[crc_at..crc_at + 4].copy_from_slice(&c);
            fixed += 1;
        }
        let body_start = crc_at + 4;
        let body_end = (body_start + body_len).min(b.len());
        // blocks
        let mut p = body_start;
        while p < body_end {
            let bstart = p;
            let blk = (|| -> Option<usize> {
                let mut q = p + 2; // method, content type
                let (_, n) = itf8(b.get(q..)?)?; // content id
                q += n;
                let (size, n) = itf8(b.get(q..)?)?;
                q += n;
                let (_, n) = itf8(b.get(q..)?)?; // raw size
                q += n;
                if size < 0 {
                    return None;
                }
                let end = q + size as usize;
                if end + 4 > b.len() {
                    return None;
                }
                Some(end)
            })();
            let Some(data_end) = blk else { break };
            let c = crc32(&b[bstart..data_end]).to_le_bytes();
            if b[data_end..data_end + 4] != c {
                b[data_end..data_end + 4].copy_from_slice(&c);
                fixed += 1;
            }
            p = data_end + 4;
        }
        if body_start + body_len <= start {
            break;
        }
        off = body_start + body_len;
    }
    fixed
}

/// An uncompressed BAM stream with `k` NUL bytes of padding appended to its header text (`l_text`
/// grows by `k`): SAMv1 §4.2 lets the text be NUL padded; noodles' writer never does it, its reader
/// has a branch for it. `None` when the stream does not start like BAM.
pub fn bam_with_padded_header(stream: &[u8], k: usize) -> Option<Vec<u8>> {
    if stream.len() < 12 || &stream[..4] != b"BAM\x01" {
        return None;
    }
    let l_text = u32::from_le_bytes([stream[4], stream[5], stream[6], stream[7]]) as usize;
    let end = 8usize.checked_add(l_text)?;
    if end > stream.len() {
        return None;
    }
    let mut v = Vec::with_capacity(stream.len() + k);
    v.extend_from_slice(&stream[..4]);
    v.extend_from_slice(&((l_text + k) as u32).to_le_bytes());
    v.extend_from_slice(&stream[8..end]);
    v.extend(std::iter::repeat(0u8).take(k));
    v.extend_from_slice(&stream[end..]);
    Some(v)
}
