//! Naive whole-file FASTA / FASTQ parsers: the oracle for C11.
//!
//! Nothing here is shared with noodles: the file is cut into lines at `\n`, one trailing `\r` is
//! removed from each line, a line starting with `>` opens a record, every other line belongs to the
//! sequence of the open record. The faidx values follow the `samtools faidx` definition of the
//! five columns (NAME, LENGTH, OFFSET, LINEBASES, LINEWIDTH): offset of the first base, bases in
//! the first sequence line, bytes in the first sequence line including its terminator.

#[derive(Clone, Debug, PartialEq, Eq)]
pub struct NaiveLine {
    /// file offset of the first byte of the line
    pub start: u64,
    /// bytes that are bases (terminator removed)
    pub bases: usize,
    /// bytes in the file, terminator included (the last line of a file may have none)
    pub width: usize,
}

#[derive(Clone, Debug, PartialEq, Eq)]
pub struct NaiveRecord {
    pub name: Vec<u8>,
    pub description: Option<Vec<u8>>,
    /// offset of the `>`
    pub def_offset: u64,
    /// offset of the first byte after the definition line
    pub seq_offset: u64,
    /// all bases, terminators removed
    pub seq: Vec<u8>,
    /// every line between the definition line and the next definition line / end of file,
    /// blank lines included
    pub lines: Vec<NaiveLine>,
}

#[derive(Clone, Debug, PartialEq, Eq)]
pub struct NaiveFai {
    pub name: Vec<u8>,
    pub length: u64,
    pub offset: u64,
    pub line_bases: u64,
    pub line_width: u64,
}

/// How well a record fits the faidx model "all lines but the last have the same length".
#[derive(Clone, Copy, Debug, PartialEq, Eq)]
pub enum Shape {
    /// uniform lines, last line not longer (bases and bytes) than the first, no blank lines:
    /// an indexer must accept it
    Strict,
    /// uniform once trailing blank lines are ignored (or the last line has a longer terminator):
    /// the arithmetic of the index is still right, but an indexer may be pickier
    Lenient,
    /// an interior (or first) line differs from the first line in bases or bytes, or the last line
    /// has more bases than the first: no fai record can describe it
    Ragged,
    /// no bases in the first line
    Empty,
}

fn is_ws(b: u8) -> bool {
    matches!(b, b' ' | b'\t' | b'\n' | b'\r' | 0x0c)
}

fn trim(mut s: &[u8]) -> &[u8] {
    while let [first, rest @ ..] = s {
        if is_ws(*first) {
            s = rest;
        } else {
            break;
        }
    }
    while let [rest @ .., last] = s {
        if is_ws(*last) {
            s = rest;
        } else {
            break;
        }
    }
    s
}

/// (start offset, content without terminator, bytes including terminator)
pub fn split_lines(bytes: &[u8]) -> Vec<(u64, &[u8], usize)> {
    let mut out = Vec::new();
    let mut s = 0usize;
    while s < bytes.len() {
        let (e, width) = match bytes[s..].iter().position(|b| *b == b'\n') {
            Some(i) => (s + i, i + 1),
            None => (bytes.len(), bytes.len() - s),
        };
        let mut content = &bytes[s..e];
        if let [rest @ .., b'\r'] = content {
            content = rest;
        }
        out.push((s as u64, content, width));
        s += width;
    }
    out
}

pub fn parse(bytes: &[u8]) -> Result<Vec<NaiveRecord>, String> {
    let mut out: Vec<NaiveRecord> = Vec::new();
    for (start, content, width) in split_lines(bytes) {
        if content.first() == Some(&b'>') {
            let body = &content[1..];
            let cut = body.iter().position(|b| is_ws(*b)).unwrap_or(body.len());
            let name = body[..cut].to_vec();
            if name.is_empty() {
                return Err(format!("definition at {start} has no name"));
            }
            let desc = trim(&body[cut..]);
            out.push(NaiveRecord {
                name,
                description: if desc.is_empty() { None } else { Some(desc.to_vec()) },
                def_offset: start,
                seq_offset: start + width as u64,
                seq: Vec::new(),
                lines: Vec::new(),
            });
        } else {
            let Some(rec) = out.last_mut() else {
                return Err(format!("sequence line at {start} before any definition"));
            };
            rec.seq.extend_from_slice(content);
            rec.lines.push(NaiveLine { start, bases: content.len(), width });
        }
    }
    Ok(out)
}

impl NaiveRecord {
    pub fn shape(&self) -> Shape {
        let Some(first) = self.lines.first() else { return Shape::Empty };
        if first.bases == 0 {
            return Shape::Empty;
        }
        let mut core = self.lines.len();
        while core > 0 && self.lines[core - 1].bases == 0 {
            core -= 1;
        }
        let blank_tail = core < self.lines.len();
        let core = &self.lines[..core];
        let last = core.len() - 1;
        for l in &core[..last] {
            if l.bases != first.bases || l.width != first.width {
                return Shape::Ragged;
            }
        }
        if core[last].bases > first.bases {
            return Shape::Ragged;
        }
        if blank_tail || core[last].width > first.width { Shape::Lenient } else { Shape::Strict }
    }

    pub fn fai(&self) -> Option<NaiveFai> {
        let first = self.lines.first()?;
        Some(NaiveFai {
            name: self.name.clone(),
            length: self.seq.len() as u64,
            offset: self.seq_offset,
            line_bases: first.bases as u64,
            line_width: first.width as u64,
        })
    }

    /// 1-based closed interval, clipped at the sequence end; `None` when the start lies beyond
    /// the end.
    pub fn slice(&self, start: u64, end: Option<u64>) -> Option<&[u8]> {
        let len = self.seq.len() as u64;
        if start == 0 || start > len {
            return None;
        }
        let e = end.map(|e| e.min(len)).unwrap_or(len);
        if e < start {
            return Some(&[]);
        }
        Some(&self.seq[(start - 1) as usize..e as usize])
    }

    /// Number of non-blank sequence lines.
    pub fn seq_lines(&self) -> usize {
        self.lines.iter().filter(|l| l.bases > 0).count()
    }
}

// ------------------------------------------------------------------------------------------------
// FASTQ (strict four-line records)

#[derive(Clone, Debug, PartialEq, Eq)]
pub struct NaiveFastq {
    pub name: Vec<u8>,
    pub description: Vec<u8>,
    pub seq: Vec<u8>,
    pub qual: Vec<u8>,
    /// offset of the first base
    pub seq_offset: u64,
    /// bytes of the sequence line including its terminator
    pub seq_line_width: u64,
    /// offset of the first quality character
    pub qual_offset: u64,
}

/// Four lines per record: `@name[ \t]description`, sequence, `+…`, qualities.
pub fn parse_fastq(bytes: &[u8]) -> Result<Vec<NaiveFastq>, String> {
    let mut lines = split_lines(bytes);
    if lines.len() % 4 == 3 {
        // an empty quality line without terminator at the very end of the file
        lines.push((bytes.len() as u64, &bytes[bytes.len()..], 0));
    }
    if lines.len() % 4 != 0 {
        return Err(format!("{} lines is not a multiple of four", lines.len()));
    }
    let mut out = Vec::new();
    for q in lines.chunks(4) {
        let (s0, def, _) = q[0];
        if def.first() != Some(&b'@') {
            return Err(format!("line at {s0} does not start with '@'"));
        }
        let body = &def[1..];
        let cut = body.iter().position(|b| *b == b' ' || *b == b'\t');
        let (name, description) = match cut {
            Some(i) => (body[..i].to_vec(), body[i + 1..].to_vec()),
            None => (body.to_vec(), Vec::new()),
        };
        if q[2].1.first() != Some(&b'+') {
            return Err(format!("line at {} does not start with '+'", q[2].0));
        }
        out.push(NaiveFastq {
            name,
            description,
            seq: q[1].1.to_vec(),
            qual: q[3].1.to_vec(),
            seq_offset: q[1].0,
            seq_line_width: q[1].2 as u64,
            qual_offset: q[3].0,
        });
    }
    Ok(out)
}

#[cfg(test)]
mod tests {
    use super::*;

    #[test]
    fn basic() {
        let recs = parse(b">s1\nACGT\n>seq2 desc\r\nAC\r\nG\r\n").unwrap();
        assert_eq!(recs.len(), 2);
        assert_eq!(recs[0].fai().unwrap(), NaiveFai { name: b"s1".to_vec(), length: 4, offset: 4, line_bases: 4, line_width: 5 });
        assert_eq!(recs[1].fai().unwrap(), NaiveFai { name: b"seq2".to_vec(), length: 3, offset: 22, line_bases: 2, line_width: 4 });
        assert_eq!(recs[1].description.as_deref(), Some(&b"desc"[..]));
        assert_eq!(recs[1].shape(), Shape::Strict);
    }
}
