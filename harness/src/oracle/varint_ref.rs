//! ITF8 / LTF8 (CRAM 3.0 §2.3 "Writing bytes to a byte stream") and uint7 (CRAM codecs, "variable
//! sized unsigned integers, 7 bits at a time, most significant group first") written from the
//! specification text, independently of noodles.
//!
//! ITF8: the number of leading 1 bits of the first byte gives the number of bytes that follow
//! (0..4). The value bits of the first byte are the most significant ones. In the 5-byte form the
//! first byte carries bits 31..28 and **only the low 4 bits of the fifth byte are used** (bits 3..0).
//! LTF8: the same scheme with up to 8 following bytes; the 9-byte form is `0xff` followed by the 64
//! bits big-endian. Negative numbers are encoded through their two's-complement bit pattern, so they
//! always take the longest form.

/// Encode the 32-bit pattern of `v` as ITF8.
pub fn itf8_encode(v: i32) -> Vec<u8> {
    let u = v as u32;
    if u < 0x80 {
        vec![u as u8]
    } else if u < 0x4000 {
        vec![0x80 | (u >> 8) as u8, u as u8]
    } else if u < 0x20_0000 {
        vec![0xc0 | (u >> 16) as u8, (u >> 8) as u8, u as u8]
    } else if u < 0x1000_0000 {
        vec![0xe0 | (u >> 24) as u8, (u >> 16) as u8, (u >> 8) as u8, u as u8]
    } else {
        vec![0xf0 | (u >> 28) as u8, (u >> 20) as u8, (u >> 12) as u8, (u >> 4) as u8, (u & 0x0f) as u8]
    }
}

/// Number of bytes of the canonical ITF8 form.
pub fn itf8_len(v: i32) -> usize {
    let u = v as u32;
    match u {
        0..=0x7f => 1,
        0x80..=0x3fff => 2,
        0x4000..=0x1f_ffff => 3,
        0x20_0000..=0x0fff_ffff => 4,
        _ => 5,
    }
}

/// Decode one ITF8 value; returns the value and the number of bytes consumed.
pub fn itf8_decode(b: &[u8]) -> Result<(i32, usize), String> {
    let b0 = *b.first().ok_or("itf8: empty")? as u32;
    let extra = (b0 as u8).leading_ones().min(4) as usize;
    if b.len() < 1 + extra {
        return Err(format!("itf8: need {} bytes, have {}", 1 + extra, b.len()));
    }
    let u: u32 = match extra {
        0 => b0,
        1 => ((b0 & 0x3f) << 8) | b[1] as u32,
        2 => ((b0 & 0x1f) << 16) | (b[1] as u32) << 8 | b[2] as u32,
        3 => ((b0 & 0x0f) << 24) | (b[1] as u32) << 16 | (b[2] as u32) << 8 | b[3] as u32,
        _ => ((b0 & 0x0f) << 28) | (b[1] as u32) << 20 | (b[2] as u32) << 12 | (b[3] as u32) << 4 | (b[4] as u32 & 0x0f),
    };
    Ok((u as i32, 1 + extra))
}

/// Encode the 64-bit pattern of `v` as LTF8.
pub fn ltf8_encode(v: i64) -> Vec<u8> {
    let u = v as u64;
    // the form with k following bytes holds 7 + 7k value bits for k = 0..7 (prefix of k ones and a
    // zero), and the k = 8 form holds all 64
    for k in 0..8u32 {
        let bits = 7 + 7 * k;
        if u >> bits == 0 {
            let mut out = Vec::with_capacity(1 + k as usize);
            let prefix: u8 = if k == 0 { 0 } else { (0xffu16 << (8 - k)) as u8 };
            let first_bits = if k == 7 { 0 } else { (u >> (8 * k)) as u8 };
            out.push(prefix | first_bits);
            for i in (0..k).rev() {
                out.push((u >> (8 * i)) as u8);
            }
            return out;
        }
    }
    let mut out = vec![0xff];
    out.extend_from_slice(&u.to_be_bytes());
    out
}

pub fn ltf8_len(v: i64) -> usize {
    let u = v as u64;
    for k in 0..8u32 {
        if u >> (7 + 7 * k) == 0 {
            return 1 + k as usize;
        }
    }
    9
}

pub fn ltf8_decode(b: &[u8]) -> Result<(i64, usize), String> {
    let b0 = *b.first().ok_or("ltf8: empty")?;
    let extra = b0.leading_ones() as usize; // 0..=8
    if b.len() < 1 + extra {
        return Err(format!("ltf8: need {} bytes, have {}", 1 + extra, b.len()));
    }
    let mut u: u64 = if extra >= 7 { 0 } else { (b0 & (0x7f >> extra)) as u64 };
    for x in &b[1..1 + extra] {
        u = (u << 8) | *x as u64;
    }
    Ok((u as i64, 1 + extra))
}

/// uint7: big-endian groups of 7 bits, the top bit of every byte but the last is set.
pub fn uint7_encode(v: u32) -> Vec<u8> {
    let mut groups = vec![(v & 0x7f) as u8];
    let mut rest = v >> 7;
    while rest > 0 {
        groups.push(0x80 | (rest & 0x7f) as u8);
        rest >>= 7;
    }
    groups.reverse();
    groups
}

pub fn uint7_len(v: u32) -> usize {
    match v {
        0..=0x7f => 1,
        0x80..=0x3fff => 2,
        0x4000..=0x1f_ffff => 3,
        0x20_0000..=0x0fff_ffff => 4,
        _ => 5,
    }
}

pub fn uint7_decode(b: &[u8]) -> Result<(u32, usize), String> {
    let mut v: u64 = 0;
    for (i, x) in b.iter().enumerate() {
        v = (v << 7) | (*x & 0x7f) as u64;
        if v > u32::MAX as u64 {
            return Err("uint7: value exceeds 32 bits".into());
        }
        if x & 0x80 == 0 {
            return Ok((v as u32, i + 1));
        }
        if i >= 4 {
            return Err("uint7: more than 5 bytes".into());
        }
    }
    Err("uint7: truncated".into())
}

/// Pins: the literal vectors of noodles' unit tests (`io/{reader,writer}/num/{itf8,ltf8,vlq}.rs`,
/// transcribed) plus length-class boundary values worked out by hand from the layout in the
/// specification. A mismatch means the reference must not be trusted (the caller turns it into a
/// harness error).
pub fn self_test() -> Result<(), String> {
    let itf8: &[(i32, &[u8])] = &[
        (0, &[0x00]),
        (87, &[0x57]),
        (127, &[0x7f]),
        (128, &[0x80, 0x80]),
        (626, &[0x82, 0x72]),
        (16383, &[0xbf, 0xff]),
        (16384, &[0xc0, 0x40, 0x00]),
        (439, &[0x81, 0xb7]),
        (2097151, &[0xdf, 0xff, 0xff]),
        (2097152, &[0xe0, 0x20, 0x00, 0x00]),
        (268435455, &[0xef, 0xff, 0xff, 0xff]),
        (268435456, &[0xf1, 0x00, 0x00, 0x00, 0x00]),
        (i32::MAX, &[0xf7, 0xff, 0xff, 0xff, 0x0f]),
        (i32::MIN, &[0xf8, 0x00, 0x00, 0x00, 0x00]),
        (-1, &[0xff, 0xff, 0xff, 0xff, 0x0f]),
        // noodles unit tests
        (1877, &[0x87, 0x55]),
        (480665, &[0xc7, 0x55, 0x99]),
        (123050342, &[0xe7, 0x55, 0x99, 0x66]),
        (1968805474, &[0xf7, 0x55, 0x99, 0x66, 0x02]),
    ];
    // the high nibble of the fifth byte is ignored on reading
    for last in [0x12u8, 0x22, 0x42, 0x82, 0xf2] {
        if itf8_decode(&[0xf7, 0x55, 0x99, 0x66, last])? != (1968805474, 5) {
            return Err("itf8_decode: high nibble of byte 5 must be ignored".into());
        }
    }
    for (v, bytes) in itf8 {
        if itf8_encode(*v) != *bytes {
            return Err(format!("itf8_encode({v}) = {:02x?}, pinned {:02x?}", itf8_encode(*v), bytes));
        }
        if itf8_decode(bytes)? != (*v, bytes.len()) {
            return Err(format!("itf8_decode({bytes:02x?}) != {v}"));
        }
        if itf8_len(*v) != bytes.len() {
            return Err(format!("itf8_len({v})"));
        }
    }
    let ltf8: &[(i64, &[u8])] = &[
        (0, &[0x00]),
        (85, &[0x55]),
        (127, &[0x7f]),
        (128, &[0x80, 0x80]),
        (16383, &[0xbf, 0xff]),
        (16384, &[0xc0, 0x40, 0x00]),
        (2097151, &[0xdf, 0xff, 0xff]),
        (2097152, &[0xe0, 0x20, 0x00, 0x00]),
        (268435455, &[0xef, 0xff, 0xff, 0xff]),
        (268435456, &[0xf0, 0x10, 0x00, 0x00, 0x00]),
        (34359738367, &[0xf7, 0xff, 0xff, 0xff, 0xff]),
        (34359738368, &[0xf8, 0x08, 0x00, 0x00, 0x00, 0x00]),
        (4398046511103, &[0xfb, 0xff, 0xff, 0xff, 0xff, 0xff]),
        (4398046511104, &[0xfc, 0x04, 0x00, 0x00, 0x00, 0x00, 0x00]),
        (562949953421311, &[0xfd, 0xff, 0xff, 0xff, 0xff, 0xff, 0xff]),
        (562949953421312, &[0xfe, 0x02, 0x00, 0x00, 0x00, 0x00, 0x00, 0x00]),
        (72057594037927935, &[0xfe, 0xff, 0xff, 0xff, 0xff, 0xff, 0xff, 0xff]),
        (72057594037927936, &[0xff, 0x01, 0x00, 0x00, 0x00, 0x00, 0x00, 0x00, 0x00]),
        (-1, &[0xff, 0xff, 0xff, 0xff, 0xff, 0xff, 0xff, 0xff, 0xff]),
        (i64::MIN, &[0xff, 0x80, 0x00, 0x00, 0x00, 0x00, 0x00, 0x00, 0x00]),
        // noodles unit tests
        (170, &[0x80, 0xaa]),
        (21930, &[0xc0, 0x55, 0xaa]),
        (5614284, &[0xe0, 0x55, 0xaa, 0xcc]),
        (1437256755, &[0xf0, 0x55, 0xaa, 0xcc, 0x33]),
        (367937729507, &[0xf8, 0x55, 0xaa, 0xcc, 0x33, 0xe3]),
        (94192058753820, &[0xfc, 0x55, 0xaa, 0xcc, 0x33, 0xe3, 0x1c]),
        (24113167040978160, &[0xfe, 0x55, 0xaa, 0xcc, 0x33, 0xe3, 0x1c, 0xf0]),
        (6172970762490408975, &[0xff, 0x55, 0xaa, 0xcc, 0x33, 0xe3, 0x1c, 0xf0, 0x0f]),
        (-170, &[0xff, 0xff, 0xff, 0xff, 0xff, 0xff, 0xff, 0xff, 0x56]),
    ];
    for (v, bytes) in ltf8 {
        if ltf8_encode(*v) != *bytes {
            return Err(format!("ltf8_encode({v}) = {:02x?}, pinned {:02x?}", ltf8_encode(*v), bytes));
        }
        if ltf8_decode(bytes)? != (*v, bytes.len()) {
            return Err(format!("ltf8_decode({bytes:02x?}) != {v}"));
        }
        if ltf8_len(*v) != bytes.len() {
            return Err(format!("ltf8_len({v})"));
        }
    }
    let uint7: &[(u32, &[u8])] = &[
        (0, &[0x00]),
        (127, &[0x7f]),
        (128, &[0x81, 0x00]),
        (300, &[0x82, 0x2c]),
        (16383, &[0xff, 0x7f]),
        (16384, &[0x81, 0x80, 0x00]),
        (2097151, &[0xff, 0xff, 0x7f]),
        (2097152, &[0x81, 0x80, 0x80, 0x00]),
        (268435455, &[0xff, 0xff, 0xff, 0x7f]),
        (268435456, &[0x81, 0x80, 0x80, 0x80, 0x00]),
        (u32::MAX, &[0x8f, 0xff, 0xff, 0xff, 0x7f]),
        // noodles unit tests (Wikipedia VLQ examples)
        (8192, &[0xc0, 0x00]),
        (134217728, &[0xc0, 0x80, 0x80, 0x00]),
    ];
    for (v, bytes) in uint7 {
        if uint7_encode(*v) != *bytes {
            return Err(format!("uint7_encode({v}) = {:02x?}, pinned {:02x?}", uint7_encode(*v), bytes));
        }
        if uint7_decode(bytes)? != (*v, bytes.len()) {
            return Err(format!("uint7_decode({bytes:02x?}) != {v}"));
        }
        if uint7_len(*v) != bytes.len() {
            return Err(format!("uint7_len({v})"));
        }
    }
    Ok(())
}

/// Allocation-free forms for the exhaustive sweeps: bytes in a fixed array plus the length.
pub fn itf8_bytes(v: i32) -> ([u8; 5], usize) {
    let u = v as u32;
    if u < 0x80 {
        ([u as u8, 0, 0, 0, 0], 1)
    } else if u < 0x4000 {
        ([0x80 | (u >> 8) as u8, u as u8, 0, 0, 0], 2)
    } else if u < 0x20_0000 {
        ([0xc0 | (u >> 16) as u8, (u >> 8) as u8, u as u8, 0, 0], 3)
    } else if u < 0x1000_0000 {
        ([0xe0 | (u >> 24) as u8, (u >> 16) as u8, (u >> 8) as u8, u as u8, 0], 4)
    } else {
        ([0xf0 | (u >> 28) as u8, (u >> 20) as u8, (u >> 12) as u8, (u >> 4) as u8, (u & 0x0f) as u8], 5)
    }
}

pub fn uint7_bytes(v: u32) -> ([u8; 5], usize) {
    let n = uint7_len(v);
    let mut out = [0u8; 5];
    for i in 0..n {
        let shift = 7 * (n - 1 - i) as u32;
        let g = ((v >> shift) & 0x7f) as u8;
        out[i] = if i + 1 < n { g | 0x80 } else { g };
    }
    (out, n)
}

pub fn ltf8_bytes(v: i64) -> ([u8; 9], usize) {
    let e = ltf8_encode(v);
    let mut out = [0u8; 9];
    out[..e.len()].copy_from_slice(&e);
    (out, e.len())
}
