//! Independent BCF2 structure reader, written from the BCF 2.2 specification (VCF spec §6), no
//! noodles code. It works on the *uncompressed* stream (inflate the BGZF file with
//! `oracle::bgzf_walk` first) and keeps every typed value raw, sentinels included, so that a check
//! can look at the stored width and at the missing / end-of-vector codes directly.
//!
//! Facts used (all from §6.3 of the specification):
//!   file    = "BCF" 2 <minor> | l_text:u32 | text (NUL-terminated) | records
//!   record  = l_shared:u32 l_indiv:u32 | CHROM:i32 POS:i32(0-based) rlen:i32 QUAL:f32
//!             n_allele<<16|n_info:u32  n_fmt<<24|n_sample:u32 | ID | alleles… | FILTER | INFO (key,value)… |
//!             FORMAT: key, type byte, n_sample × len values
//!   typed   = byte (len<<4 | type), len 15 ⇒ the real length follows as a typed integer;
//!             type 0 missing/flag, 1 int8, 2 int16, 3 int32, 5 float, 7 characters
//!   integers: missing = MIN, end-of-vector = MIN+1, MIN+2..MIN+7 reserved (per width)
//!   floats:   missing = 0x7F800001, end-of-vector = 0x7F800002

#[derive(Clone, Debug, PartialEq)]
pub enum Typed {
    /// type 0
    Missing,
    Int8(Vec<i8>),
    Int16(Vec<i16>),
    Int32(Vec<i32>),
    /// bit patterns
    Float(Vec<u32>),
    Str(Vec<u8>),
}

pub const FLOAT_MISSING: u32 = 0x7F80_0001;
pub const FLOAT_EOV: u32 = 0x7F80_0002;

/// One stored integer, widened, with its role decoded by the width's sentinels.
#[derive(Clone, Copy, Debug, PartialEq, Eq)]
pub enum IntCell {
    Value(i32),
    Missing,
    EndOfVector,
    Reserved(i32),
}

impl Typed {
    pub fn type_name(&self) -> &'static str {
        match self {
            Typed::Missing => "missing",
            Typed::Int8(_) => "int8",
            Typed::Int16(_) => "int16",
            Typed::Int32(_) => "int32",
            Typed::Float(_) => "float",
            Typed::Str(_) => "string",
        }
    }
    pub fn len(&self) -> usize {
        match self {
            Typed::Missing => 0,
            Typed::Int8(v) => v.len(),
            Typed::Int16(v) => v.len(),
            Typed::Int32(v) => v.len(),
            Typed::Float(v) => v.len(),
            Typed::Str(v) => v.len(),
        }
    }
    pub fn is_empty(&self) -> bool {
        self.len() == 0
    }
    pub fn is_int(&self) -> bool {
        matches!(self, Typed::Int8(_) | Typed::Int16(_) | Typed::Int32(_))
    }
    /// Integer cells with the sentinels of the stored width applied.
    pub fn int_cells(&self) -> Option<Vec<IntCell>> {
        fn cell(v: i64, min: i64) -> IntCell {
            if v == min {
                IntCell::Missing
            } else if v == min + 1 {
                IntCell::EndOfVector
            } else if v <= min + 7 {
                IntCell::Reserved(v as i32)
            } else {
                IntCell::Value(v as i32)
            }
        }
        match self {
            Typed::Int8(v) => Some(v.iter().map(|&x| cell(x as i64, i8::MIN as i64)).collect()),
            Typed::Int16(v) => Some(v.iter().map(|&x| cell(x as i64, i16::MIN as i64)).collect()),
            Typed::Int32(v) => Some(v.iter().map(|&x| cell(x as i64, i32::MIN as i64)).collect()),
            _ => None,
        }
    }
    /// A scalar non-negative integer (dictionary index, length).
    pub fn as_index(&self) -> Option<usize> {
        match self.int_cells()?.as_slice() {
            [IntCell::Value(n)] if *n >= 0 => Some(*n as usize),
            _ => None,
        }
    }
}

#[derive(Clone, Debug)]
pub struct RawFormat {
    pub key: Typed,
    /// one typed vector per sample, all of the declared type and length
    pub samples: Vec<Typed>,
    pub len: usize,
}

#[derive(Clone, Debug)]
pub struct RawRecord {
    pub l_shared: u32,
    pub l_indiv: u32,
    pub chrom: i32,
    pub pos: i32,
    pub rlen: i32,
    pub qual: u32,
    pub n_info: u16,
    pub n_allele: u16,
    pub n_sample: u32,
    pub n_fmt: u8,
    pub id: Typed,
    pub alleles: Vec<Typed>,
    pub filter: Typed,
    pub info: Vec<(Typed, Typed)>,
    pub format: Vec<RawFormat>,
}

#[derive(Clone, Debug)]
pub struct RawFile {
    pub major: u8,
    pub minor: u8,
    /// header text without the terminating NUL(s)
    pub text: Vec<u8>,
    /// offset of the first record in the stream
    pub records_at: usize,
    pub records: Vec<Result<RawRecord, String>>,
    pub ranges: Vec<std::ops::Range<usize>>,
}

struct Cur<'a> {
    b: &'a [u8],
    at: usize,
}

impl<'a> Cur<'a> {
    fn take(&mut self, n: usize) -> Result<&'a [u8], String> {
        if self.b.len() - self.at < n {
            return Err(format!("need {n} bytes at offset {}, {} left", self.at, self.b.len() - self.at));
        }
        let s = &self.b[self.at..self.at + n];
        self.at += n;
        Ok(s)
    }
    fn u8(&mut self) -> Result<u8, String> {
        Ok(self.take(1)?[0])
    }
    fn u16(&mut self) -> Result<u16, String> {
        Ok(u16::from_le_bytes(self.take(2)?.try_into().unwrap()))
    }
    fn u32(&mut self) -> Result<u32, String> {
        Ok(u32::from_le_bytes(self.take(4)?.try_into().unwrap()))
    }
    fn i32(&mut self) -> Result<i32, String> {
        Ok(i32::from_le_bytes(self.take(4)?.try_into().unwrap()))
    }
    fn done(&self) -> bool {
        self.at == self.b.len()
    }
    /// type byte (+ overflow length) → (type code, length)
    fn descriptor(&mut self) -> Result<(u8, usize), String> {
        let d = self.u8()?;
        let ty = d & 0x0F;
        let mut len = (d >> 4) as usize;
        if len == 15 {
            let (t2, l2) = {
                let d2 = self.u8()?;
                (d2 & 0x0F, (d2 >> 4) as usize)
            };
            if l2 != 1 {
                return Err(format!("overflow length is a typed value of length {l2}, expected a scalar"));
            }
            let n: i64 = match t2 {
                1 => self.u8()? as i8 as i64,
                2 => i16::from_le_bytes(self.take(2)?.try_into().unwrap()) as i64,
                3 => self.i32()? as i64,
                t => return Err(format!("overflow length has type {t}, expected an integer type")),
            };
            if n < 15 {
                return Err(format!("overflow length {n} < 15"));
            }
            len = n as usize;
        }
        Ok((ty, len))
    }
    fn values(&mut self, ty: u8, len: usize) -> Result<Typed, String> {
        Ok(match ty {
            0 => {
                if len != 0 {
                    return Err(format!("type 0 with length {len}"));
                }
                Typed::Missing
            }
            1 => Typed::Int8(self.take(len)?.iter().map(|&b| b as i8).collect()),
            2 => Typed::Int16(self.take(len * 2)?.chunks(2).map(|c| i16::from_le_bytes(c.try_into().unwrap())).collect()),
            3 => Typed::Int32(self.take(len * 4)?.chunks(4).map(|c| i32::from_le_bytes(c.try_into().unwrap())).collect()),
            5 => Typed::Float(self.take(len * 4)?.chunks(4).map(|c| u32::from_le_bytes(c.try_into().unwrap())).collect()),
            7 => Typed::Str(self.take(len)?.to_vec()),
            t => return Err(format!("unknown type code {t}")),
        })
    }
    fn typed(&mut self) -> Result<Typed, String> {
        let (ty, len) = self.descriptor()?;
        self.values(ty, len)
    }
}

pub fn parse_record(shared: &[u8], indiv: &[u8]) -> Result<RawRecord, String> {
    let mut c = Cur { b: shared, at: 0 };
    let chrom = c.i32()?;
    let pos = c.i32()?;
    let rlen = c.i32()?;
    let qual = c.u32()?;
    let n_info = c.u16()?;
    let n_allele = c.u16()?;
    let nfs = c.u32()?;
    let n_sample = nfs & 0x00FF_FFFF;
    let n_fmt = (nfs >> 24) as u8;
    let id = c.typed().map_err(|e| format!("ID: {e}"))?;
    let mut alleles = Vec::new();
    for i in 0..n_allele {
        alleles.push(c.typed().map_err(|e| format!("allele {i}: {e}"))?);
    }
    let filter = c.typed().map_err(|e| format!("FILTER: {e}"))?;
    let mut info = Vec::new();
    for i in 0..n_info {
        let k = c.typed().map_err(|e| format!("INFO key {i}: {e}"))?;
        let v = c.typed().map_err(|e| format!("INFO value {i}: {e}"))?;
        info.push((k, v));
    }
    if !c.done() {
        return Err(format!("{} bytes of the shared block are left after n_info={} fields", shared.len() - c.at, n_info));
    }
    let mut c = Cur { b: indiv, at: 0 };
    let mut format = Vec::new();
    for i in 0..n_fmt {
        let key = c.typed().map_err(|e| format!("FORMAT key {i}: {e}"))?;
        let (ty, len) = c.descriptor().map_err(|e| format!("FORMAT {i} type: {e}"))?;
        let mut samples = Vec::new();
        for s in 0..n_sample {
            samples.push(c.values(ty, len).map_err(|e| format!("FORMAT {i} sample {s}: {e}"))?);
        }
        format.push(RawFormat { key, samples, len });
    }
    if !c.done() {
        return Err(format!("{} bytes of the individual block are left after n_fmt={} fields", indiv.len() - c.at, n_fmt));
    }
    Ok(RawRecord { l_shared: shared.len() as u32, l_indiv: indiv.len() as u32, chrom, pos, rlen, qual, n_info, n_allele, n_sample, n_fmt, id, alleles, filter, info, format })
}

/// Parse a whole uncompressed BCF stream. Framing (l_shared / l_indiv) is followed even when a
/// record's content does not parse: such a record is `Err` in `records`. `ranges[i]` is the byte
/// range of record i in the stream (lengths included).
pub fn parse(stream: &[u8]) -> Result<RawFile, String> {
    let mut c = Cur { b: stream, at: 0 };
    let magic = c.take(5).map_err(|e| format!("magic: {e}"))?;
    if &magic[..3] != b"BCF" {
        return Err(format!("magic is {:?}", &magic[..3]));
    }
    let (major, minor) = (magic[3], magic[4]);
    let l_text = c.u32()? as usize;
    let text = c.take(l_text).map_err(|e| format!("header text: {e}"))?;
    if text.last() != Some(&0) {
        return Err("header text is not NUL-terminated".into());
    }
    let end = text.iter().position(|&b| b == 0).unwrap_or(text.len());
    let text = text[..end].to_vec();
    let records_at = c.at;
    let mut records = Vec::new();
    let mut ranges = Vec::new();
    while !c.done() {
        let i = records.len();
        let start = c.at;
        let l_shared = c.u32().map_err(|e| format!("record {i} l_shared: {e}"))? as usize;
        let l_indiv = c.u32().map_err(|e| format!("record {i} l_indiv: {e}"))? as usize;
        let shared = c.take(l_shared).map_err(|e| format!("record {i} shared block: {e}"))?;
        let indiv = c.take(l_indiv).map_err(|e| format!("record {i} individual block: {e}"))?;
        ranges.push(start..c.at);
        if l_shared < 24 {
            records.push(Err(format!("l_shared = {l_shared} < 24")));
        } else {
            records.push(parse_record(shared, indiv));
        }
    }
    Ok(RawFile { major, minor, text, records_at, records, ranges })
}

/// Re-frame a stream with a different header text (used to inject `IDX=` fields, which the
/// repository's header writer cannot emit): magic + l_text + text + NUL + the records unchanged.
pub fn with_header_text(stream: &[u8], file: &RawFile, new_text: &[u8]) -> Vec<u8> {
    let mut out = Vec::with_capacity(stream.len() + new_text.len());
    out.extend_from_slice(&stream[..5]);
    out.extend_from_slice(&((new_text.len() + 1) as u32).to_le_bytes());
    out.extend_from_slice(new_text);
    out.push(0);
    out.extend_from_slice(&stream[file.records_at..]);
    out
}
