pub mod bgzf_walk; pub mod pyzlib;
