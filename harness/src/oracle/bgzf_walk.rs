//! Independent BGZF walker and builder: own header parse, raw-deflate inflate through
//! `miniz_oxide` (noodles-bgzf uses zlib-rs), CRC32 through `crc32fast`.

use miniz_oxide::inflate::TINFLStatus;
use miniz_oxide::inflate::core::{DecompressorOxide, decompress, inflate_flags};

/// The end-of-file marker block, transcribed from SAMv1 §4.1.2.
pub const EOF_MARKER: [u8; 28] = [
    0x1f, 0x8b, 0x08, 0x04, 0x00, 0x00, 0x00, 0x00, 0x00, 0xff, 0x06, 0x00, 0x42, 0x43, 0x02, 0x00, 0x1b, 0x00, 0x03, 0x00, 0x00, 0x00, 0x00, 0x00, 0x00, 0x00, 0x00, 0x00,
];

#[derive(Clone, Debug)]
pub struct Member {
    /// compressed offset of the member in the file
    pub cpos: u64,
    /// total member length (BSIZE + 1)
    pub clen: usize,
    /// uncompressed offset of the first byte of this member
    pub ustart: u64,
    /// inflated data
    pub data: Vec<u8>,
}

/// Inflate a raw deflate stream; returns the data and requires the whole input to be consumed.
pub fn inflate_raw(body: &[u8], limit: usize) -> Result<Vec<u8>, String> {
    let mut out = vec![0u8; limit + 1];
    let mut d = DecompressorOxide::new();
    let flags = inflate_flags::TINFL_FLAG_USING_NON_WRAPPING_OUTPUT_BUF;
    let (status, in_used, out_len) = decompress(&mut d, body, &mut out, 0, flags);
    match status {
        TINFLStatus::Done => {}
        TINFLStatus::HasMoreOutput => return Err(format!("inflates to more than {limit} bytes")),
        s => return Err(format!("inflate status {s:?}")),
    }
    if in_used != body.len() {
        return Err(format!("deflate stream ends after {in_used} of {} body bytes", body.len()));
    }
    if out_len > limit {
        return Err(format!("inflates to more than {limit} bytes"));
    }
    out.truncate(out_len);
    Ok(out)
}

/// Inflate a raw deflate stream the lenient way zlib does: stop at the end-of-stream marker and
/// ignore whatever follows. Returns the number of bytes produced, or `None` if the stream is
/// broken or produces more than `limit` bytes.
pub fn inflate_len_lenient(body: &[u8], limit: usize) -> Option<usize> {
    let mut out = vec![0u8; limit + 1];
    let mut d = DecompressorOxide::new();
    let flags = inflate_flags::TINFL_FLAG_USING_NON_WRAPPING_OUTPUT_BUF;
    let (status, _in_used, out_len) = decompress(&mut d, body, &mut out, 0, flags);
    match status {
        TINFLStatus::Done if out_len <= limit => Some(out_len),
        _ => None,
    }
}

/// Parse one member starting at `off`. Checks everything the BGZF section of the SAM
/// specification requires of a block.
pub fn parse_member(bytes: &[u8], off: usize) -> Result<(usize, Vec<u8>), String> {
    let b = &bytes[off..];
    if b.len() < 12 {
        return Err(format!("member at {off}: fewer than 12 header bytes"));
    }
    if b[0] != 0x1f || b[1] != 0x8b {
        return Err(format!("member at {off}: bad gzip magic {:02x}{:02x}", b[0], b[1]));
    }
    if b[2] != 8 {
        return Err(format!("member at {off}: CM={} (want 8)", b[2]));
    }
    if b[3] & 4 == 0 {
        return Err(format!("member at {off}: FLG.FEXTRA not set (FLG={:#x})", b[3]));
    }
    if b[3] != 4 {
        return Err(format!("member at {off}: FLG={:#x} (BGZF prescribes 4)", b[3]));
    }
    let xlen = u16::from_le_bytes([b[10], b[11]]) as usize;
    if b.len() < 12 + xlen {
        return Err(format!("member at {off}: extra field truncated"));
    }
    // find the BC subfield
    let extra = &b[12..12 + xlen];
    let mut i = 0;
    let mut bsize: Option<usize> = None;
    while i + 4 <= extra.len() {
        let (si1, si2) = (extra[i], extra[i + 1]);
        let slen = u16::from_le_bytes([extra[i + 2], extra[i + 3]]) as usize;
        if i + 4 + slen > extra.len() {
            return Err(format!("member at {off}: extra subfield overruns XLEN"));
        }
        if si1 == b'B' && si2 == b'C' {
            if slen != 2 {
                return Err(format!("member at {off}: BC subfield SLEN={slen}"));
            }
            if bsize.is_some() {
                return Err(format!("member at {off}: duplicate BC subfield"));
            }
            bsize = Some(u16::from_le_bytes([extra[i + 4], extra[i + 5]]) as usize);
        }
        i += 4 + slen;
    }
    if i != extra.len() {
        return Err(format!("member at {off}: extra field has trailing garbage"));
    }
    let Some(bsize) = bsize else { return Err(format!("member at {off}: no BC subfield")) };
    let clen = bsize + 1;
    if clen > 65536 {
        return Err(format!("member at {off}: length {clen} > 65536"));
    }
    if clen < 12 + xlen + 8 {
        return Err(format!("member at {off}: BSIZE+1={clen} smaller than header+trailer"));
    }
    if b.len() < clen {
        return Err(format!("member at {off}: BSIZE+1={clen} but only {} bytes remain", b.len()));
    }
    let body = &b[12 + xlen..clen - 8];
    let crc = u32::from_le_bytes([b[clen - 8], b[clen - 7], b[clen - 6], b[clen - 5]]);
    let isize_ = u32::from_le_bytes([b[clen - 4], b[clen - 3], b[clen - 2], b[clen - 1]]) as usize;
    if isize_ > 65536 {
        return Err(format!("member at {off}: ISIZE={isize_} > 65536"));
    }
    let data = inflate_raw(body, 65536).map_err(|e| format!("member at {off}: {e}"))?;
    if data.len() != isize_ {
        return Err(format!("member at {off}: ISIZE={isize_} but inflates to {}", data.len()));
    }
    let actual = crc32fast::hash(&data);
    if actual != crc {
        return Err(format!("member at {off}: CRC32 field {crc:#010x} != {actual:#010x}"));
    }
    Ok((clen, data))
}

/// Walk a whole file: members must tile it exactly.
pub fn walk(bytes: &[u8]) -> Result<Vec<Member>, String> {
    let mut out = Vec::new();
    let mut off = 0usize;
    let mut ustart = 0u64;
    while off < bytes.len() {
        let (clen, data) = parse_member(bytes, off)?;
        let n = data.len() as u64;
        out.push(Member { cpos: off as u64, clen, ustart, data });
        ustart += n;
        off += clen;
    }
    Ok(out)
}

/// Walk as far as the bytes are well-formed (for truncated / corrupted files): returns the
/// members that parse and the offset where parsing stopped.
pub fn walk_prefix(bytes: &[u8]) -> (Vec<Member>, usize) {
    let mut out = Vec::new();
    let mut off = 0usize;
    let mut ustart = 0u64;
    while off < bytes.len() {
        match parse_member(bytes, off) {
            Ok((clen, data)) => {
                let n = data.len() as u64;
                out.push(Member { cpos: off as u64, clen, ustart, data });
                ustart += n;
                off += clen;
            }
            Err(_) => break,
        }
    }
    (out, off)
}

pub fn concat(members: &[Member]) -> Vec<u8> {
    let mut v = Vec::with_capacity(members.iter().map(|m| m.data.len()).sum());
    for m in members {
        v.extend_from_slice(&m.data);
    }
    v
}

/// Build one BGZF member around `data` (≤ 65536 bytes) with miniz_oxide at `level` (0..=10).
/// Returns `None` when the member would exceed 65536 bytes.
pub fn build_member(data: &[u8], level: u8) -> Option<Vec<u8>> {
    assert!(data.len() <= 65536);
    let body = miniz_oxide::deflate::compress_to_vec(data, level);
    let clen = 18 + body.len() + 8;
    if clen > 65536 {
        return None;
    }
    let mut v = Vec::with_capacity(clen);
    v.extend_from_slice(&[0x1f, 0x8b, 0x08, 0x04, 0, 0, 0, 0, 0x00, 0xff, 0x06, 0x00, b'B', b'C', 0x02, 0x00]);
    v.extend_from_slice(&((clen - 1) as u16).to_le_bytes());
    v.extend_from_slice(&body);
    v.extend_from_slice(&crc32fast::hash(data).to_le_bytes());
    v.extend_from_slice(&(data.len() as u32).to_le_bytes());
    Some(v)
}

/// Build a BGZF file from explicit block contents (each ≤ 65536 bytes), optionally with the EOF
/// marker. Falls back to a higher compression level when a block would not fit.
pub fn build_file(blocks: &[Vec<u8>], level: u8, eof: bool) -> Vec<u8> {
    let mut v = Vec::new();
    for b in blocks {
        let m = build_member(b, level).or_else(|| build_member(b, 6)).expect("block does not fit a BGZF member");
        v.extend_from_slice(&m);
    }
    if eof {
        v.extend_from_slice(&EOF_MARKER);
    }
    v
}

/// gzi index the way `bgzip -i` defines it: one (compressed, uncompressed) offset pair for every
/// block after the first.
pub fn gzi_of(members: &[Member]) -> Vec<(u64, u64)> {
    members.iter().skip(1).map(|m| (m.cpos, m.ustart)).collect()
}

/// The file with one empty member (the 28-byte EOF marker block) inserted at a member boundary
/// chosen by `sel` (per-mille over the boundaries, the start of the file included): the shape
/// `cat a.bgz b.bgz` produces. The result is a valid BGZF file with the same payload. `None` when
/// the input does not walk as BGZF.
pub fn with_empty_member(file: &[u8], sel: u16) -> Option<Vec<u8>> {
    let members = walk(file).ok()?;
    if members.is_empty() {
        return None;
    }
    let idx = (sel as usize % 1001) * members.len() / 1001;
    let at = members[idx].cpos as usize;
    let mut v = Vec::with_capacity(file.len() + EOF_MARKER.len());
    v.extend_from_slice(&file[..at]);
    v.extend_from_slice(&EOF_MARKER);
    v.extend_from_slice(&file[at..]);
    Some(v)
}

/// The same payload re-cut into blocks whose boundaries fall at arbitrary byte offsets (sizes from a
/// seeded generator: many tiny blocks of 1–7 bytes, some of a few hundred, some large): a valid BGZF
/// file that puts block boundaries inside records, length prefixes and lines — where noodles' own
/// writers, flushed between records, never put them. `None` when the input does not walk as BGZF.
pub fn reframed(file: &[u8], seed: u32) -> Option<Vec<u8>> {
    let members = walk(file).ok()?;
    let payload = concat(&members);
    let mut r = crate::r#gen::payload::XorShift::new(seed as u64 + 0x5eed);
    let mut blocks: Vec<Vec<u8>> = Vec::new();
    let mut off = 0usize;
    while off < payload.len() {
        let x = r.next();
        let n = match x % 10 {
            0..=4 => 1 + (x >> 8) as usize % 7,
            5..=7 => 8 + (x >> 8) as usize % 400,
            8 => 400 + (x >> 8) as usize % 8000,
            _ => 20_000 + (x >> 8) as usize % 40_000,
        };
        let end = (off + n).min(payload.len());
        blocks.push(payload[off..end].to_vec());
        off = end;
        // keep the file small: after 400 blocks the rest goes into large ones
        if blocks.len() > 400 {
            while off < payload.len() {
                let end = (off + 60_000).min(payload.len());
                blocks.push(payload[off..end].to_vec());
                off = end;
            }
        }
    }
    Some(build_file(&blocks, 1 + (seed % 6) as u8, true))
}
