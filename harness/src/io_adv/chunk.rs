//! Read-side adversaries: `ChunkRead` (short reads, scripted sizes, stop-at-boundary cuts, spurious
//! `Interrupted`) and `WindowBufRead` (a direct `BufRead` whose `fill_buf` exposes scripted windows).

use serde::{Deserialize, Serialize};
use std::io::{self, BufRead, Read, Seek, SeekFrom};
use std::sync::{Arc, Mutex};

/// How a byte source delivers its data.
#[derive(Clone, Debug, Default, Serialize, Deserialize, PartialEq)]
pub struct ReadScript {
    /// sizes returned by successive `read` calls (cycled; each ≥ 1; empty = unlimited)
    pub sizes: Vec<u32>,
    /// absolute offsets at which a read must stop (a read never crosses the next cut)
    pub cuts: Vec<u32>,
    /// pattern over calls (cycled): `true` = return `ErrorKind::Interrupted` instead of data.
    /// Must contain a `false`; empty = never. At most `MAX_INTERRUPTS` are delivered in total: a
    /// *placement* of spurious interrupts is finite — an interrupter that is periodic forever can
    /// livelock even a correct retry loop around an operation that needs several reads without
    /// making persistent progress (e.g. three reads that all return 0 at end of file).
    pub interrupts: Vec<bool>,
}

impl ReadScript {
    pub fn plain() -> Self {
        Self::default()
    }
    pub fn has_interrupts(&self) -> bool {
        self.interrupts.iter().any(|b| *b) && self.interrupts.iter().any(|b| !*b)
    }
}

pub const MAX_INTERRUPTS: u64 = 64;

#[derive(Clone, Debug, Default)]
pub struct ReadStats {
    pub calls: u64,
    pub short_reads: u64,
    pub interrupts: u64,
    /// offsets at which a read ended before the end of data (the actual split points)
    pub splits: Vec<usize>,
}

pub struct ChunkRead {
    data: Arc<Vec<u8>>,
    pos: usize,
    script: ReadScript,
    call: usize,
    size_i: usize,
    pub stats: Arc<Mutex<ReadStats>>,
    track_splits: bool,
}

impl ChunkRead {
    pub fn new(data: Arc<Vec<u8>>, mut script: ReadScript) -> Self {
        script.cuts.sort_unstable();
        script.sizes.retain(|s| *s > 0);
        if !script.has_interrupts() {
            script.interrupts.clear();
        }
        ChunkRead { data, pos: 0, script, call: 0, size_i: 0, stats: Arc::new(Mutex::new(ReadStats::default())), track_splits: true }
    }
    pub fn position(&self) -> usize {
        self.pos
    }
    fn next_len(&mut self, want: usize) -> usize {
        let remaining = self.data.len() - self.pos;
        let mut n = want.min(remaining);
        if !self.script.sizes.is_empty() {
            let s = self.script.sizes[self.size_i % self.script.sizes.len()] as usize;
            self.size_i += 1;
            n = n.min(s.max(1));
        }
        // stop at the next cut strictly after pos
        let idx = self.script.cuts.partition_point(|c| (*c as usize) <= self.pos);
        if let Some(c) = self.script.cuts.get(idx) {
            n = n.min(*c as usize - self.pos);
        }
        n
    }
}

impl Read for ChunkRead {
    fn read(&mut self, buf: &mut [u8]) -> io::Result<usize> {
        let stats = self.stats.clone();
        let mut st = stats.lock().unwrap();
        st.calls += 1;
        if !self.script.interrupts.is_empty() {
            let i = self.call % self.script.interrupts.len();
            self.call += 1;
            if self.script.interrupts[i] && st.interrupts < MAX_INTERRUPTS {
                st.interrupts += 1;
                return Err(io::Error::new(io::ErrorKind::Interrupted, "injected interrupt"));
            }
        }
        if buf.is_empty() || self.pos >= self.data.len() {
            return Ok(0);
        }
        let n = self.next_len(buf.len());
        buf[..n].copy_from_slice(&self.data[self.pos..self.pos + n]);
        self.pos += n;
        if n < buf.len() && self.pos < self.data.len() {
            st.short_reads += 1;
            if self.track_splits && st.splits.len() < 100_000 {
                st.splits.push(self.pos);
            }
        }
        Ok(n)
    }
}

impl Seek for ChunkRead {
    fn seek(&mut self, pos: SeekFrom) -> io::Result<u64> {
        let new = match pos {
            SeekFrom::Start(p) => p as i128,
            SeekFrom::End(d) => self.data.len() as i128 + d as i128,
            SeekFrom::Current(d) => self.pos as i128 + d as i128,
        };
        if new < 0 {
            return Err(io::Error::new(io::ErrorKind::InvalidInput, "seek before start"));
        }
        self.pos = (new as u128).min(usize::MAX as u128) as usize;
        Ok(self.pos as u64)
    }
}

/// A direct `BufRead`: `fill_buf` exposes only the current scripted window (down to one byte)
/// until it has been consumed.
pub struct WindowBufRead {
    data: Arc<Vec<u8>>,
    pos: usize,
    window_end: usize,
    sizes: Vec<u32>,
    size_i: usize,
    interrupts: Vec<bool>,
    call: usize,
    pub stats: Arc<Mutex<ReadStats>>,
}

impl WindowBufRead {
    pub fn new(data: Arc<Vec<u8>>, script: ReadScript) -> Self {
        let mut sizes = script.sizes.clone();
        sizes.retain(|s| *s > 0);
        let interrupts = if script.has_interrupts() { script.interrupts.clone() } else { Vec::new() };
        WindowBufRead { data, pos: 0, window_end: 0, sizes, size_i: 0, interrupts, call: 0, stats: Arc::new(Mutex::new(ReadStats::default())) }
    }
}

impl BufRead for WindowBufRead {
    fn fill_buf(&mut self) -> io::Result<&[u8]> {
        if self.pos >= self.window_end {
            if !self.interrupts.is_empty() {
                let i = self.call % self.interrupts.len();
                self.call += 1;
                if self.interrupts[i] && self.stats.lock().unwrap().interrupts < MAX_INTERRUPTS {
                    self.stats.lock().unwrap().interrupts += 1;
                    return Err(io::Error::new(io::ErrorKind::Interrupted, "injected interrupt"));
                }
            }
            let remaining = self.data.len() - self.pos;
            let n = if self.sizes.is_empty() {
                remaining
            } else {
                let s = self.sizes[self.size_i % self.sizes.len()] as usize;
                self.size_i += 1;
                s.max(1).min(remaining)
            };
            self.window_end = self.pos + n;
            let mut st = self.stats.lock().unwrap();
            st.calls += 1;
            if n < remaining {
                st.short_reads += 1;
                if st.splits.len() < 100_000 {
                    st.splits.push(self.window_end);
                }
            }
        }
        Ok(&self.data[self.pos..self.window_end])
    }
    fn consume(&mut self, amt: usize) {
        self.pos = (self.pos + amt).min(self.window_end);
    }
}

impl Read for WindowBufRead {
    fn read(&mut self, buf: &mut [u8]) -> io::Result<usize> {
        let src = self.fill_buf()?;
        let n = src.len().min(buf.len());
        buf[..n].copy_from_slice(&src[..n]);
        self.consume(n);
        Ok(n)
    }
}

impl Seek for WindowBufRead {
    fn seek(&mut self, pos: SeekFrom) -> io::Result<u64> {
        let new = match pos {
            SeekFrom::Start(p) => p as i128,
            SeekFrom::End(d) => self.data.len() as i128 + d as i128,
            SeekFrom::Current(d) => self.pos as i128 + d as i128,
        };
        if new < 0 {
            return Err(io::Error::new(io::ErrorKind::InvalidInput, "seek before start"));
        }
        self.pos = (new as usize).min(self.data.len());
        self.window_end = self.pos;
        Ok(self.pos as u64)
    }
}
