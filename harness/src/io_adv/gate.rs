//! Gate scheduler for the H1 task hook of noodles-bgzf (`noodles_bgzf::verif`, cfg noodles_verif).
//!
//! Every deflate task of `MultithreadedWriter` and every inflate task of `MultithreadedReader`
//! calls the hook as its first statement. While a gate is installed the task parks there on a
//! condvar; a controller thread releases parked tasks in the order a generated schedule dictates
//! and (in strict steps) waits for the task's End event before it releases the next one, so the
//! *completion order* of the block tasks is owned by the test case.
//!
//! A schedule is a list of picks; each pick is an index into the set of currently parked tasks
//! (sorted by submission index, clamped to the set), so every schedule is feasible by construction
//! and shrinks towards FIFO (all zeros).
//!
//! The controller decides only when the parked set is *stable*: either every pool thread is held by
//! a parked/running task, or every task that the writer/reader can have spawned without a further
//! completion has arrived (a small model of the ticket windows, see `Plan`). With that rule the
//! parked set — and therefore the realised schedule — is a deterministic function of the case.
//! Every wait has a fallback timeout which only affects exploration (a task is released although
//! the set was not known to be stable); fallbacks are counted in the statistics, never turned
//! into a verdict. The harness cannot deadlock itself: a parked task is always released at the
//! latest after `fallback`, and releases itself after `TASK_FALLBACK` if the controller is gone.
//!
//! The hook is process-global. `Gate::uninstall` (also run by `Drop`) opens the gate for good,
//! removes the hook, joins the controller and waits until every task that entered the hook has
//! left it, so a case cannot leak parked tasks into the next case of the same shard process.

use noodles_bgzf::verif::{Phase, Task, set_task_hook};
use std::collections::BTreeMap;
use std::sync::{Arc, Condvar, Mutex, MutexGuard};
use std::thread::JoinHandle;
use std::time::{Duration, Instant};

/// A parked task releases itself after this long (only if the controller has died).
const TASK_FALLBACK: Duration = Duration::from_secs(5);
/// Upper bound for the waits in `end_run` / `uninstall`.
const DRAIN_LIMIT: Duration = Duration::from_secs(3);
/// `end_run` gives up on announced-but-never-seen tasks after this long without any hook event.
const DRAIN_QUIET: Duration = Duration::from_millis(60);

#[derive(Clone, Copy, Debug, Default, PartialEq, Eq)]
pub struct Pick {
    /// index into the parked set (sorted by submission index), clamped to its size
    pub idx: u8,
    /// release without waiting for the End event of this task before the next release (the two
    /// tasks then really run concurrently; their completion order is left to the OS)
    pub overlap: bool,
}

/// Which tasks can have been spawned, given the length `c` of the completed prefix.
#[derive(Clone, Debug)]
pub enum Plan {
    /// `MultithreadedWriter`: the ticket channel is `bounded(pool)` and the writer thread holds one
    /// more ticket, so block k is submitted iff k <= c + pool.
    Writer { pool: usize },
    /// `MultithreadedReader`: `buffers` (= pool + 2) buffers circulate, the consumer returns one per
    /// block it takes and takes at most `consume` blocks in this run.
    Reader { buffers: usize, consume: usize },
}

#[derive(Clone, Debug)]
pub struct RunPlan {
    /// identity (see `ident`) of every task this run can spawn, in submission order
    pub idents: Vec<u64>,
    pub plan: Plan,
    /// completions of blocks at or beyond `need` are not observable (orphan read-ahead)
    pub need: usize,
    /// where in the schedule this run starts (`None`: continue)
    pub sched_offset: Option<usize>,
}

#[derive(Clone, Debug, Default)]
pub struct Decision {
    /// size of the parked set
    pub options: usize,
    /// position chosen in the sorted parked set
    pub chosen: usize,
    /// submission index of the released task
    pub index: usize,
    /// the parked set was not known to be stable (fallback timer)
    pub fallback: bool,
    /// the completed prefix was still shorter than `need`
    pub needed: bool,
}

#[derive(Clone, Debug, Default)]
pub struct RunReport {
    /// submission indices in the order the tasks ended
    pub completion: Vec<usize>,
    /// submission indices in the order the tasks started
    pub starts: Vec<usize>,
    pub decisions: Vec<Decision>,
    /// tasks whose data matched no planned block
    pub unknown: usize,
    /// most tasks parked or running at one time
    pub max_in_flight: usize,
    /// the drain at the end of the run hit its time limit
    pub drain_timeout: bool,
}

impl RunReport {
    /// Realised completion order differs from submission order.
    pub fn reordered(&self) -> bool {
        self.completion.windows(2).any(|w| w[0] > w[1])
    }
    /// A task completed before an earlier-submitted task that was in flight (parked) at the same
    /// time — measured from the hook events.
    pub fn overtook_in_flight(&self) -> bool {
        self.decisions.iter().any(|d| d.options >= 2 && d.chosen > 0) && self.reordered()
    }
}

#[derive(Clone, Debug, Default)]
pub struct Stats {
    pub fallbacks: usize,
    pub task_fallbacks: usize,
    pub unknown: usize,
    pub passed_through: usize,
    pub leaked: usize,
}

#[derive(Clone, Copy, PartialEq, Eq, Debug)]
enum TState {
    Parked,
    Running,
    Ended,
}

struct TaskRec {
    index: usize,
    state: TState,
}

struct Run {
    plan: RunPlan,
    assigned: Vec<bool>,
    done: Vec<bool>,
    tasks: BTreeMap<u64, TaskRec>,
    /// all hook starts / ends seen while this run was current (known or not)
    n_started: usize,
    n_ended: usize,
    n_known_started: usize,
    report: RunReport,
}

impl Run {
    fn completed_prefix(&self) -> usize {
        self.done.iter().position(|d| !*d).unwrap_or(self.done.len())
    }
    fn target(&self) -> usize {
        let n = self.plan.idents.len();
        let c = self.completed_prefix();
        match self.plan.plan {
            Plan::Writer { pool } => n.min(c + pool + 1),
            Plan::Reader { buffers, consume } => n.min(buffers + consume.min(c)),
        }
    }
    fn parked(&self) -> Vec<(usize, u64)> {
        let mut v: Vec<(usize, u64)> = self.tasks.iter().filter(|(_, t)| t.state == TState::Parked).map(|(tok, t)| (t.index, *tok)).collect();
        v.sort();
        v
    }
    fn running(&self) -> usize {
        self.tasks.values().filter(|t| t.state == TState::Running).count()
    }
}

struct St {
    shutdown: bool,
    open: bool,
    pool: usize,
    schedule: Vec<Pick>,
    cursor: usize,
    run: Option<Run>,
    /// tokens that passed through unparked (still inside the task)
    passing: BTreeMap<u64, ()>,
    started: u64,
    ended: u64,
    last_event: Instant,
    awaiting: Option<u64>,
    stats: Stats,
    /// current no-progress fallback; shrinks after the first fallback (the model of the ticket
    /// windows is evidently off for this case, so waiting for it only costs time)
    fallback: Duration,
}

/// How long the controller waits for the End event of a task it released strictly.
const AWAIT_END: Duration = Duration::from_secs(2);
/// No-progress fallback after the first fallback of a gate.
const IMPATIENT: Duration = Duration::from_millis(8);

struct Inner {
    m: Mutex<St>,
    cv: Condvar,
}

impl Inner {
    fn lock(&self) -> MutexGuard<'_, St> {
        match self.m.lock() {
            Ok(g) => g,
            Err(p) => p.into_inner(),
        }
    }
}

pub struct Gate {
    inner: Arc<Inner>,
    controller: Option<JoinHandle<()>>,
}

/// Identity of a task by its data (the uncompressed block / the raw frame). Tasks with equal data
/// are interchangeable in everything the harness observes.
pub fn ident(data: &[u8]) -> u64 {
    ((data.len() as u64) << 32) | crc32fast::hash(data) as u64
}

fn on_event(inner: &Inner, _task: Task, phase: Phase, token: u64, data: &[u8]) {
    match phase {
        Phase::Start => {
            let id = ident(data);
            let mut g = inner.lock();
            g.started += 1;
            g.last_event = Instant::now();
            let pass = g.shutdown || g.open;
            let mut parked = false;
            if let Some(run) = g.run.as_mut() {
                run.n_started += 1;
                let slot = (0..run.plan.idents.len()).find(|&i| !run.assigned[i] && run.plan.idents[i] == id);
                match slot {
                    Some(i) => {
                        run.assigned[i] = true;
                        run.n_known_started += 1;
                        run.report.starts.push(i);
                        run.tasks.insert(token, TaskRec { index: i, state: if pass { TState::Running } else { TState::Parked } });
                        parked = !pass;
                        let in_flight = run.tasks.values().filter(|t| t.state != TState::Ended).count();
                        run.report.max_in_flight = run.report.max_in_flight.max(in_flight);
                    }
                    None => {
                        run.report.unknown += 1;
                        g.stats.unknown += 1;
                        g.passing.insert(token, ());
                    }
                }
            } else {
                g.passing.insert(token, ());
            }
            if !parked {
                g.stats.passed_through += 1;
                inner.cv.notify_all();
                return;
            }
            inner.cv.notify_all();
            let t0 = Instant::now();
            loop {
                let still_parked = !g.shutdown && !g.open && g.run.as_ref().and_then(|r| r.tasks.get(&token)).map(|t| t.state == TState::Parked).unwrap_or(false);
                if !still_parked {
                    break;
                }
                let waited = t0.elapsed();
                if waited >= TASK_FALLBACK {
                    g.stats.task_fallbacks += 1;
                    break;
                }
                g = match inner.cv.wait_timeout(g, TASK_FALLBACK - waited) {
                    Ok((g, _)) => g,
                    Err(p) => p.into_inner().0,
                };
            }
            if let Some(t) = g.run.as_mut().and_then(|r| r.tasks.get_mut(&token)) {
                if t.state == TState::Parked {
                    t.state = TState::Running;
                }
            }
            g.last_event = Instant::now();
            inner.cv.notify_all();
        }
        Phase::End => {
            let mut g = inner.lock();
            g.ended += 1;
            g.last_event = Instant::now();
            if g.passing.remove(&token).is_some() {
                if let Some(run) = g.run.as_mut() {
                    run.n_ended += 1;
                }
            } else if let Some(run) = g.run.as_mut() {
                if let Some(t) = run.tasks.get_mut(&token) {
                    t.state = TState::Ended;
                    let i = t.index;
                    run.done[i] = true;
                    run.report.completion.push(i);
                    run.n_ended += 1;
                }
            }
            if g.awaiting == Some(token) {
                g.awaiting = None;
            }
            inner.cv.notify_all();
        }
    }
}

fn controller(inner: Arc<Inner>) {
    let mut g = inner.lock();
    loop {
        if g.shutdown {
            return;
        }
        let fallback = g.fallback;
        let idle = g.last_event.elapsed();
        let mut wait = Duration::from_millis(500);
        if !g.open {
            // a strict release is outstanding: wait for its End event
            if let Some(tok) = g.awaiting {
                let ended = g.run.as_ref().and_then(|r| r.tasks.get(&tok)).map(|t| t.state == TState::Ended).unwrap_or(true);
                if ended {
                    g.awaiting = None;
                    continue;
                }
                // the task is known to be running: be generous before giving up on its End event
                let limit = fallback.max(AWAIT_END);
                if idle >= limit {
                    g.awaiting = None;
                    g.stats.fallbacks += 1;
                    g.last_event = Instant::now();
                    continue;
                }
                wait = limit - idle;
            } else {
                let pool = g.pool;
                let decision = g.run.as_ref().and_then(|run| {
                    let parked = run.parked();
                    if parked.is_empty() {
                        return None;
                    }
                    let stable = parked.len() + run.running() >= pool || run.n_known_started >= run.target();
                    Some((parked, stable, run.completed_prefix() < run.plan.need))
                });
                if let Some((parked, stable, needed)) = decision {
                    if stable || idle >= fallback {
                        let pick = g.schedule.get(g.cursor).copied().unwrap_or_default();
                        g.cursor += 1;
                        let j = (pick.idx as usize).min(parked.len() - 1);
                        let (index, tok) = parked[j];
                        if !stable {
                            g.stats.fallbacks += 1;
                            g.fallback = g.fallback.min(IMPATIENT);
                        }
                        if let Some(run) = g.run.as_mut() {
                            if let Some(t) = run.tasks.get_mut(&tok) {
                                t.state = TState::Running;
                            }
                            run.report.decisions.push(Decision { options: parked.len(), chosen: j, index, fallback: !stable, needed });
                        }
                        if !pick.overlap {
                            g.awaiting = Some(tok);
                        }
                        g.last_event = Instant::now();
                        inner.cv.notify_all();
                        continue;
                    }
                    wait = fallback - idle;
                }
            }
        }
        g = match inner.cv.wait_timeout(g, wait.max(Duration::from_millis(1))) {
            Ok((g, _)) => g,
            Err(p) => p.into_inner().0,
        };
    }
}

impl Gate {
    /// Install the process-wide hook and start the controller. `pool` = rayon worker count.
    pub fn install(pool: usize, schedule: Vec<Pick>, fallback: Duration) -> Gate {
        let inner = Arc::new(Inner {
            m: Mutex::new(St {
                shutdown: false,
                open: true,
                pool: pool.max(1),
                schedule,
                cursor: 0,
                run: None,
                passing: BTreeMap::new(),
                started: 0,
                ended: 0,
                last_event: Instant::now(),
                awaiting: None,
                stats: Stats::default(),
                fallback,
            }),
            cv: Condvar::new(),
        });
        let hook_inner = inner.clone();
        set_task_hook(Some(Arc::new(move |task, phase, token, data: &[u8]| on_event(&hook_inner, task, phase, token, data))));
        let ctl_inner = inner.clone();
        let controller = std::thread::Builder::new().name("gate-controller".into()).spawn(move || controller(ctl_inner)).ok();
        Gate { inner, controller }
    }

    /// Start a run: tasks arriving from now on are matched against `plan.idents` and parked.
    pub fn begin_run(&self, plan: RunPlan) {
        let mut g = self.inner.lock();
        let n = plan.idents.len();
        if let Some(off) = plan.sched_offset {
            g.cursor = off;
        }
        g.run = Some(Run { plan, assigned: vec![false; n], done: vec![false; n], tasks: BTreeMap::new(), n_started: 0, n_ended: 0, n_known_started: 0, report: RunReport::default() });
        g.open = false;
        g.awaiting = None;
        g.last_event = Instant::now();
        self.inner.cv.notify_all();
    }

    /// Open the gate (everything parked is released, arrivals pass) without ending the run.
    pub fn open(&self) {
        let mut g = self.inner.lock();
        g.open = true;
        g.awaiting = None;
        self.inner.cv.notify_all();
    }

    /// End the run: open the gate, wait until `spawned` tasks of this run have ended (bounded),
    /// and return what happened.
    pub fn end_run(&self, spawned: usize) -> RunReport {
        let mut g = self.inner.lock();
        g.open = true;
        g.awaiting = None;
        self.inner.cv.notify_all();
        let t0 = Instant::now();
        let mut timed_out = false;
        loop {
            let (started, ended) = g.run.as_ref().map(|r| (r.n_started, r.n_ended)).unwrap_or((0, 0));
            if ended >= spawned && ended >= started {
                break;
            }
            let waited = t0.elapsed();
            // fewer tasks than announced and nothing in flight for a while: the announcement was
            // wrong (the model does not fit this case); do not sit out the whole limit
            let quiet = ended >= started && g.last_event.elapsed() >= DRAIN_QUIET && waited >= DRAIN_QUIET;
            if waited >= DRAIN_LIMIT || quiet {
                timed_out = true;
                break;
            }
            g = match self.inner.cv.wait_timeout(g, (DRAIN_LIMIT - waited).min(DRAIN_QUIET)) {
                Ok((g, _)) => g,
                Err(p) => p.into_inner().0,
            };
        }
        // Tasks that were spawned but have not started yet (possible when `spawned` is only a lower
        // bound, e.g. after a sink error) must not start in the next run / next case: the injector
        // of the pool is FIFO, so once a marker task spawned now has run, everything spawned
        // before it has started; then wait until everything that started has ended.
        drop(g);
        let (tx, rx) = std::sync::mpsc::channel::<()>();
        rayon::spawn(move || {
            let _ = tx.send(());
        });
        let _ = rx.recv_timeout(DRAIN_LIMIT);
        let mut g = self.inner.lock();
        let t1 = Instant::now();
        loop {
            let (started, ended) = g.run.as_ref().map(|r| (r.n_started, r.n_ended)).unwrap_or((0, 0));
            if ended >= started {
                break;
            }
            let waited = t1.elapsed();
            if waited >= DRAIN_LIMIT {
                timed_out = true;
                break;
            }
            g = match self.inner.cv.wait_timeout(g, DRAIN_LIMIT - waited) {
                Ok((g, _)) => g,
                Err(p) => p.into_inner().0,
            };
        }
        let mut report = g.run.take().map(|r| r.report).unwrap_or_default();
        report.drain_timeout = timed_out;
        report
    }

    pub fn stats(&self) -> Stats {
        self.inner.lock().stats.clone()
    }

    fn shutdown(&mut self) -> Stats {
        {
            let mut g = self.inner.lock();
            g.shutdown = true;
            g.open = true;
            self.inner.cv.notify_all();
        }
        set_task_hook(None);
        if let Some(h) = self.controller.take() {
            let _ = h.join();
        }
        // wait until every task that entered the hook has left it
        let mut g = self.inner.lock();
        let t0 = Instant::now();
        while g.ended < g.started {
            let waited = t0.elapsed();
            if waited >= DRAIN_LIMIT {
                g.stats.leaked += (g.started - g.ended) as usize;
                break;
            }
            g = match self.inner.cv.wait_timeout(g, DRAIN_LIMIT - waited) {
                Ok((g, _)) => g,
                Err(p) => p.into_inner().0,
            };
        }
        g.stats.clone()
    }

    /// Remove the hook, stop the controller, drain. Returns the statistics of the whole gate.
    pub fn uninstall(mut self) -> Stats {
        self.shutdown()
    }
}

impl Drop for Gate {
    fn drop(&mut self) {
        if self.controller.is_some() {
            let _ = self.shutdown();
        }
    }
}
