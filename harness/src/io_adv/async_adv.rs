//! Async adversaries: `AsyncRead`/`AsyncSeek` source and `AsyncWrite` sink driven by a poll script
//! (`Pending` with self-wake, partial transfers).

use serde::{Deserialize, Serialize};
use std::io::{self, SeekFrom};
use std::pin::Pin;
use std::sync::{Arc, Mutex};
use std::task::{Context, Poll};
use tokio::io::{AsyncRead, AsyncSeek, AsyncWrite, ReadBuf};

/// At most this many `Pending`s are returned per endpoint: a *schedule* of spurious pendings is
/// finite. An endpoint that is periodically pending forever can livelock even correct code whose
/// operation needs two consecutive ready polls and restarts from the first one after every wake
/// (e.g. `poll_close` = `poll_flush` then `poll_shutdown`).
pub const MAX_PENDINGS: u64 = 96;

#[derive(Clone, Debug, Default, Serialize, Deserialize, PartialEq)]
pub struct PollScript {
    /// per poll (cycled): 0 = return Pending (and wake), n>0 = transfer at most n bytes.
    /// Empty = transfer everything at once. Must contain a non-zero entry.
    pub steps: Vec<u32>,
}

impl PollScript {
    pub fn plain() -> Self {
        Self::default()
    }
    fn normalised(&self) -> Vec<u32> {
        if self.steps.iter().any(|s| *s > 0) { self.steps.clone() } else { Vec::new() }
    }
}

#[derive(Clone, Debug, Default)]
pub struct PollStats {
    pub polls: u64,
    pub pendings: u64,
    pub partials: u64,
}

pub struct AdvAsyncRead {
    data: Arc<Vec<u8>>,
    pos: usize,
    steps: Vec<u32>,
    i: usize,
    pub stats: Arc<Mutex<PollStats>>,
    seek_target: Option<u64>,
    pendings_given: u64,
}

impl AdvAsyncRead {
    pub fn new(data: Arc<Vec<u8>>, script: &PollScript) -> Self {
        AdvAsyncRead { data, pos: 0, steps: script.normalised(), i: 0, stats: Arc::new(Mutex::new(PollStats::default())), seek_target: None, pendings_given: 0 }
    }
    fn step(&mut self) -> Option<u32> {
        if self.steps.is_empty() {
            return Some(u32::MAX);
        }
        let s = self.steps[self.i % self.steps.len()];
        self.i += 1;
        if s == 0 {
            if self.pendings_given >= MAX_PENDINGS {
                return Some(1);
            }
            self.pendings_given += 1;
            None
        } else {
            Some(s)
        }
    }
}

impl AsyncRead for AdvAsyncRead {
    fn poll_read(mut self: Pin<&mut Self>, cx: &mut Context<'_>, buf: &mut ReadBuf<'_>) -> Poll<io::Result<()>> {
        let stats = self.stats.clone();
        let mut st = stats.lock().unwrap();
        st.polls += 1;
        match self.step() {
            None => {
                st.pendings += 1;
                cx.waker().wake_by_ref();
                Poll::Pending
            }
            Some(n) => {
                let remaining = self.data.len().saturating_sub(self.pos);
                let want = buf.remaining().min(remaining);
                let k = want.min(n as usize);
                if k < want {
                    st.partials += 1;
                }
                let p = self.pos;
                buf.put_slice(&self.data[p..p + k]);
                self.pos += k;
                Poll::Ready(Ok(()))
            }
        }
    }
}

impl AsyncSeek for AdvAsyncRead {
    fn start_seek(mut self: Pin<&mut Self>, position: SeekFrom) -> io::Result<()> {
        let new = match position {
            SeekFrom::Start(p) => p as i128,
            SeekFrom::End(d) => self.data.len() as i128 + d as i128,
            SeekFrom::Current(d) => self.pos as i128 + d as i128,
        };
        if new < 0 {
            return Err(io::Error::new(io::ErrorKind::InvalidInput, "seek before start"));
        }
        self.seek_target = Some(new as u64);
        Ok(())
    }
    fn poll_complete(mut self: Pin<&mut Self>, cx: &mut Context<'_>) -> Poll<io::Result<u64>> {
        if self.seek_target.is_some() {
            if self.step().is_none() {
                self.stats.lock().unwrap().pendings += 1;
                cx.waker().wake_by_ref();
                return Poll::Pending;
            }
            let t = self.seek_target.take().unwrap();
            self.pos = (t as usize).min(usize::MAX);
        }
        Poll::Ready(Ok(self.pos as u64))
    }
}

#[derive(Clone)]
pub struct AdvAsyncWrite {
    pub bytes: Arc<Mutex<Vec<u8>>>,
    steps: Vec<u32>,
    i: usize,
    pub stats: Arc<Mutex<PollStats>>,
    pub shutdown_called: Arc<Mutex<bool>>,
    pendings_given: u64,
}

impl AdvAsyncWrite {
    pub fn new(script: &PollScript) -> Self {
        AdvAsyncWrite {
            bytes: Arc::new(Mutex::new(Vec::new())),
            steps: script.normalised(),
            i: 0,
            stats: Arc::new(Mutex::new(PollStats::default())),
            shutdown_called: Arc::new(Mutex::new(false)),
            pendings_given: 0,
        }
    }
    fn step(&mut self) -> Option<u32> {
        if self.steps.is_empty() {
            return Some(u32::MAX);
        }
        let s = self.steps[self.i % self.steps.len()];
        self.i += 1;
        if s == 0 {
            if self.pendings_given >= MAX_PENDINGS {
                return Some(1);
            }
            self.pendings_given += 1;
            None
        } else {
            Some(s)
        }
    }
}

impl AsyncWrite for AdvAsyncWrite {
    fn poll_write(mut self: Pin<&mut Self>, cx: &mut Context<'_>, buf: &[u8]) -> Poll<io::Result<usize>> {
        let stats = self.stats.clone();
        let mut st = stats.lock().unwrap();
        st.polls += 1;
        match self.step() {
            None => {
                st.pendings += 1;
                cx.waker().wake_by_ref();
                Poll::Pending
            }
            Some(n) => {
                let k = buf.len().min((n as usize).max(1));
                if k < buf.len() {
                    st.partials += 1;
                }
                self.bytes.lock().unwrap().extend_from_slice(&buf[..k]);
                Poll::Ready(Ok(k))
            }
        }
    }
    fn poll_flush(mut self: Pin<&mut Self>, cx: &mut Context<'_>) -> Poll<io::Result<()>> {
        if self.step().is_none() {
            self.stats.lock().unwrap().pendings += 1;
            cx.waker().wake_by_ref();
            return Poll::Pending;
        }
        Poll::Ready(Ok(()))
    }
    fn poll_shutdown(mut self: Pin<&mut Self>, cx: &mut Context<'_>) -> Poll<io::Result<()>> {
        if self.step().is_none() {
            self.stats.lock().unwrap().pendings += 1;
            cx.waker().wake_by_ref();
            return Poll::Pending;
        }
        *self.shutdown_called.lock().unwrap() = true;
        Poll::Ready(Ok(()))
    }
}
