pub mod async_adv;
pub mod chunk;
pub mod faulty;
pub mod gate;
pub mod sink;
