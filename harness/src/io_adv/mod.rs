pub mod sink;
