//! Write-side adversary: a sink that fails at a scripted call, accepts only part of each buffer,
//! or returns `Interrupted`; it records every accepted byte and every error it delivered.

use serde::{Deserialize, Serialize};
use std::io::{self, Write};
use std::sync::{Arc, Mutex};

#[derive(Clone, Copy, Debug, Serialize, Deserialize, PartialEq)]
pub enum FaultKind {
    Other,
    BrokenPipe,
    StorageFull,
    WriteZero,
    PermissionDenied,
}

impl FaultKind {
    pub fn to_io(self) -> io::ErrorKind {
        match self {
            FaultKind::Other => io::ErrorKind::Other,
            FaultKind::BrokenPipe => io::ErrorKind::BrokenPipe,
            FaultKind::StorageFull => io::ErrorKind::StorageFull,
            FaultKind::WriteZero => io::ErrorKind::WriteZero,
            FaultKind::PermissionDenied => io::ErrorKind::PermissionDenied,
        }
    }
}

#[derive(Clone, Debug, Default, Serialize, Deserialize, PartialEq)]
pub struct SinkScript {
    /// fail the k-th call (0-based, counting `write` and `flush` calls together)
    pub fail_at: Option<u32>,
    pub kind: Option<FaultKind>,
    /// keep failing on every later call
    pub sticky: bool,
    /// accepted sizes of successive `write` calls (cycled; each ≥ 1; empty = whole buffer)
    pub accept: Vec<u32>,
    /// pattern over `write` calls (cycled): `true` = return `Interrupted`. Needs a `false`.
    pub interrupts: Vec<bool>,
}

#[derive(Clone, Debug, Default)]
pub struct SinkLog {
    pub bytes: Vec<u8>,
    pub calls: u32,
    pub write_calls: u32,
    pub flush_calls: u32,
    pub errors_delivered: u32,
    pub short_writes: u32,
    pub interrupts_delivered: u32,
}

/// Clones share all state (log and script cursors), so a clone can be handed to a writer that
/// needs an owned `'static` sink while the test keeps observing it.
#[derive(Clone)]
pub struct FaultySink {
    pub log: Arc<Mutex<SinkLog>>,
    script: Arc<SinkScript>,
    state: Arc<Mutex<State>>,
}

#[derive(Default)]
struct State {
    accept_i: usize,
    intr_i: usize,
    failed: bool,
}

impl FaultySink {
    pub fn new(mut script: SinkScript) -> Self {
        script.accept.retain(|s| *s > 0);
        if !(script.interrupts.iter().any(|b| *b) && script.interrupts.iter().any(|b| !*b)) {
            script.interrupts.clear();
        }
        FaultySink { log: Arc::new(Mutex::new(SinkLog::default())), script: Arc::new(script), state: Arc::new(Mutex::new(State::default())) }
    }
    pub fn snapshot(&self) -> SinkLog {
        self.log.lock().unwrap().clone()
    }
    fn fault(&mut self, log: &mut SinkLog) -> Option<io::Error> {
        let idx = log.calls;
        log.calls += 1;
        let mut st = self.state.lock().unwrap();
        let hit = match self.script.fail_at {
            Some(k) => idx == k || (self.script.sticky && st.failed),
            None => false,
        };
        if hit {
            st.failed = true;
            log.errors_delivered += 1;
            let kind = self.script.kind.unwrap_or(FaultKind::Other).to_io();
            Some(io::Error::new(kind, "injected sink failure"))
        } else {
            None
        }
    }
}

impl Write for FaultySink {
    fn write(&mut self, buf: &[u8]) -> io::Result<usize> {
        let log_arc = self.log.clone();
        let mut log = log_arc.lock().unwrap();
        log.write_calls += 1;
        if let Some(e) = self.fault(&mut log) {
            return Err(e);
        }
        let mut st = self.state.lock().unwrap();
        if !self.script.interrupts.is_empty() {
            let i = st.intr_i % self.script.interrupts.len();
            st.intr_i += 1;
            if self.script.interrupts[i] && log.interrupts_delivered < 64 {
                log.interrupts_delivered += 1;
                return Err(io::Error::new(io::ErrorKind::Interrupted, "injected interrupt"));
            }
        }
        let mut n = buf.len();
        if !self.script.accept.is_empty() && n > 0 {
            let s = self.script.accept[st.accept_i % self.script.accept.len()] as usize;
            st.accept_i += 1;
            if s < n {
                n = s.max(1);
                log.short_writes += 1;
            }
        }
        log.bytes.extend_from_slice(&buf[..n]);
        Ok(n)
    }
    fn flush(&mut self) -> io::Result<()> {
        let log_arc = self.log.clone();
        let mut log = log_arc.lock().unwrap();
        log.flush_calls += 1;
        if let Some(e) = self.fault(&mut log) {
            return Err(e);
        }
        Ok(())
    }
}

/// A sink that can be cloned into an owned `'static + Send` handle observing the same state.
pub trait DynSink: Write + Send {
    fn boxed_clone(&self) -> Box<dyn DynSink>;
}

impl DynSink for FaultySink {
    fn boxed_clone(&self) -> Box<dyn DynSink> {
        Box::new(self.clone())
    }
}

impl DynSink for crate::io_adv::sink::SyncSink {
    fn boxed_clone(&self) -> Box<dyn DynSink> {
        Box::new(self.clone())
    }
}
