//! Sinks whose contents stay observable after the writer is dropped.

use std::cell::RefCell;
use std::io::{self, Write};
use std::rc::Rc;
use std::sync::{Arc, Mutex};

#[derive(Clone, Default)]
pub struct SharedSink(pub Rc<RefCell<Vec<u8>>>);

impl SharedSink {
    pub fn new() -> Self {
        Self::default()
    }
    pub fn bytes(&self) -> Vec<u8> {
        self.0.borrow().clone()
    }
}

impl Write for SharedSink {
    fn write(&mut self, buf: &[u8]) -> io::Result<usize> {
        self.0.borrow_mut().extend_from_slice(buf);
        Ok(buf.len())
    }
    fn flush(&mut self) -> io::Result<()> {
        Ok(())
    }
}

/// Thread-safe variant (multithreaded writers need `Send`).
#[derive(Clone, Default)]
pub struct SyncSink(pub Arc<Mutex<Vec<u8>>>);

impl SyncSink {
    pub fn new() -> Self {
        Self::default()
    }
    pub fn bytes(&self) -> Vec<u8> {
        self.0.lock().unwrap().clone()
    }
}

impl Write for SyncSink {
    fn write(&mut self, buf: &[u8]) -> io::Result<usize> {
        self.0.lock().unwrap().extend_from_slice(buf);
        Ok(buf.len())
    }
    fn flush(&mut self) -> io::Result<()> {
        Ok(())
    }
}

/// A shared sink that accepts at most `max` bytes per `write` call (a legitimate `Write`: callers
/// that need everything written use `write_all`). What a pipe, a socket or a BGZF writer at a block
/// boundary does.
#[derive(Clone)]
pub struct ShortSink {
    pub inner: SharedSink,
    pub max: usize,
}

impl ShortSink {
    pub fn new(max: usize) -> Self {
        ShortSink { inner: SharedSink::new(), max: max.max(1) }
    }
    pub fn bytes(&self) -> Vec<u8> {
        self.inner.bytes()
    }
}

impl Write for ShortSink {
    fn write(&mut self, buf: &[u8]) -> io::Result<usize> {
        let n = buf.len().min(self.max);
        self.inner.0.borrow_mut().extend_from_slice(&buf[..n]);
        Ok(n)
    }
    fn flush(&mut self) -> io::Result<()> {
        Ok(())
    }
}
