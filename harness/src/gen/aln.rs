//! (stub)
