//! G-alnhdr / G-aln: plain, serialisable models of SAM headers and alignment records, conversions
//! to and from the noodles types, proptest strategies over the SAM data model, and canonical
//! comparison / rendering helpers.
//!
//! This module is shared: it contains no property-specific logic. The usual flow is
//!
//! ```ignore
//! let doc: AlnDoc = ...;                       // from `document(..)`
//! let header = doc.header.to_noodles()?;       // sam::Header
//! let rec = doc.records[0].to_noodles()?;      // sam::alignment::RecordBuf
//! let back = AlnRecord::from_noodles(&rec2);   // model of what was read
//! assert_eq!(back, doc.records[0].normalized(Norm::BAM));
//! ```
//!
//! Validity ("valid ⇒ accepted by the writer") is kept strictly inside what the writers validate
//! (`noodles-sam/src/io/writer/record/*`, `noodles-bam/src/record/codec/encoder/*`) and inside the
//! SAM specification's grammar:
//!
//! * name: missing or 1..=254 bytes of `[!-?A-~]`, never `*`;
//! * flags: the 12 defined bits;
//! * reference / mate reference id: missing or `< n_ref`;
//! * positions: missing or 1..=2^31−1;
//! * MAPQ: missing (255) or 0..=254;
//! * CIGAR: 0..k ops over all nine kinds, op length ≤ 2^28−1;
//! * sequence: missing, or (when the CIGAR consumes ≥1 read base) exactly the CIGAR's read length;
//!   BAM target: any byte (the BAM alphabet folding is the stated normal form); SAM target:
//!   `[A-Za-z=.]`;
//! * qualities: missing, or one score 0..=93 per base; for SAM targets never the single score 9 on a
//!   one-base read (it renders as `*`, which SAM itself defines as "missing": the format cannot
//!   represent that value, so it is outside the domain of a text round trip);
//! * aux: unique tags `[A-Za-z][A-Za-z0-9]` except the BAM-reserved `CG`; `A` in `[!-~]`, `Z` in
//!   `[ -~]*`, `H` in `([0-9A-F]{2})*`, every integer width at its boundaries, `f` any bit pattern for
//!   BAM and finite for SAM, `B` arrays of every subtype with 0..k elements.

use crate::engine::{Tier, pick_idx};
use crate::r#gen::payload::XorShift;
use noodles_core::Position;
use noodles_sam as sam;
use proptest::prelude::*;
use sam::alignment::RecordBuf;
use sam::alignment::record::cigar::{Op, op::Kind};
use sam::alignment::record::data::field::Tag as NTag;
use sam::alignment::record::{Flags, MappingQuality};
use sam::alignment::record_buf::data::field::{Value, value::Array};
use serde::{Deserialize, Deserializer, Serialize, Serializer};
use std::fmt;

// ---------------------------------------------------------------------------------------------
// byte strings and tags that stay readable in replay files
// ---------------------------------------------------------------------------------------------

/// A byte string, serialised as a Latin-1 string (lossless; ASCII stays readable in replay files).
#[derive(Clone, PartialEq, Eq, Hash, PartialOrd, Ord, Default)]
pub struct B(pub Vec<u8>);

impl B {
    pub fn new(b: impl AsRef<[u8]>) -> B {
        B(b.as_ref().to_vec())
    }
    pub fn as_bytes(&self) -> &[u8] {
        &self.0
    }
    pub fn len(&self) -> usize {
        self.0.len()
    }
    pub fn is_empty(&self) -> bool {
        self.0.is_empty()
    }
}

impl fmt::Debug for B {
    fn fmt(&self, f: &mut fmt::Formatter<'_>) -> fmt::Result {
        write!(f, "b\"{}\"", self.0.escape_ascii())
    }
}

impl Serialize for B {
    fn serialize<S: Serializer>(&self, s: S) -> Result<S::Ok, S::Error> {
        let t: String = self.0.iter().map(|&b| b as char).collect();
        s.serialize_str(&t)
    }
}

impl<'de> Deserialize<'de> for B {
    fn deserialize<D: Deserializer<'de>>(d: D) -> Result<B, D::Error> {
        let t = String::deserialize(d)?;
        let mut v = Vec::with_capacity(t.len());
        for c in t.chars() {
            let n = c as u32;
            if n > 255 {
                return Err(serde::de::Error::custom("byte string holds a code point above U+00FF"));
            }
            v.push(n as u8);
        }
        Ok(B(v))
    }
}

/// A two-byte tag (header field tag or aux tag), serialised as a two-character string.
#[derive(Clone, Copy, PartialEq, Eq, Hash, PartialOrd, Ord)]
pub struct Tag(pub [u8; 2]);

impl fmt::Debug for Tag {
    fn fmt(&self, f: &mut fmt::Formatter<'_>) -> fmt::Result {
        write!(f, "{}", self.0.escape_ascii())
    }
}

impl Serialize for Tag {
    fn serialize<S: Serializer>(&self, s: S) -> Result<S::Ok, S::Error> {
        B(self.0.to_vec()).serialize(s)
    }
}

impl<'de> Deserialize<'de> for Tag {
    fn deserialize<D: Deserializer<'de>>(d: D) -> Result<Tag, D::Error> {
        let b = B::deserialize(d)?;
        if b.0.len() != 2 {
            return Err(serde::de::Error::custom("tag is not two bytes"));
        }
        Ok(Tag([b.0[0], b.0[1]]))
    }
}

pub const fn tag(s: &[u8; 2]) -> Tag {
    Tag(*s)
}

// ---------------------------------------------------------------------------------------------
// header model
// ---------------------------------------------------------------------------------------------

pub type Fields = Vec<(Tag, B)>;

#[derive(Clone, Debug, PartialEq, Eq, Serialize, Deserialize)]
pub struct HdLine {
    pub major: u32,
    pub minor: u32,
    /// every field except `VN`, in order
    pub other: Fields,
}

#[derive(Clone, Debug, PartialEq, Eq, Serialize, Deserialize)]
pub struct SqLine {
    pub name: B,
    pub len: u64,
    /// every field except `SN`/`LN`, in order
    pub other: Fields,
}

/// `@RG` and `@PG` lines: an id plus ordered other fields.
#[derive(Clone, Debug, PartialEq, Eq, Serialize, Deserialize)]
pub struct IdLine {
    pub id: B,
    pub other: Fields,
}

#[derive(Clone, Debug, PartialEq, Eq, Serialize, Deserialize, Default)]
pub struct AlnHeader {
    pub hd: Option<HdLine>,
    pub refs: Vec<SqLine>,
    pub read_groups: Vec<IdLine>,
    pub programs: Vec<IdLine>,
    pub comments: Vec<B>,
}

/// What a record generator needs to know about the header.
#[derive(Clone, Debug, Default)]
pub struct RefCtx {
    pub ref_lens: Vec<u64>,
}

impl RefCtx {
    pub fn n_ref(&self) -> usize {
        self.ref_lens.len()
    }
}

fn other_fields<S>(fields: &Fields, what: &str) -> Result<indexmap::IndexMap<sam::header::record::value::map::tag::Other<S>, bstr::BString>, String>
where
    S: sam::header::record::value::map::tag::Standard,
{
    let mut m = indexmap::IndexMap::new();
    for (t, v) in fields {
        let key = sam::header::record::value::map::tag::Other::<S>::try_from(t.0).map_err(|_| format!("{what}: tag {t:?} is a standard tag of this line type"))?;
        if m.insert(key, bstr::BString::from(v.0.clone())).is_some() {
            return Err(format!("{what}: duplicate tag {t:?}"));
        }
    }
    Ok(m)
}

impl AlnHeader {
    pub fn n_ref(&self) -> usize {
        self.refs.len()
    }

    pub fn ref_ctx(&self) -> RefCtx {
        RefCtx { ref_lens: self.refs.iter().map(|r| r.len).collect() }
    }

    pub fn is_empty(&self) -> bool {
        self.hd.is_none() && self.refs.is_empty() && self.read_groups.is_empty() && self.programs.is_empty() && self.comments.is_empty()
    }

    /// Build the noodles header. Fails (with a description) only for models outside the domain
    /// (duplicate names/ids/tags, a standard tag among the other fields, a zero length).
    pub fn to_noodles(&self) -> Result<sam::Header, String> {
        use sam::header::record::value::{
            Map,
            map::{self, header::Version},
        };
        let mut h = sam::Header::default();
        if let Some(hd) = &self.hd {
            let mut m = Map::<map::Header>::new(Version::new(hd.major, hd.minor));
            *m.other_fields_mut() = other_fields(&hd.other, "@HD")?;
            *h.header_mut() = Some(m);
        }
        for sq in &self.refs {
            let len = std::num::NonZero::new(sq.len as usize).ok_or_else(|| format!("@SQ {:?}: zero length", sq.name))?;
            let mut m = Map::<map::ReferenceSequence>::new(len);
            *m.other_fields_mut() = other_fields(&sq.other, "@SQ")?;
            if h.reference_sequences_mut().insert(bstr::BString::from(sq.name.0.clone()), m).is_some() {
                return Err(format!("duplicate reference sequence name {:?}", sq.name));
            }
        }
        for rg in &self.read_groups {
            let mut m = Map::<map::ReadGroup>::default();
            *m.other_fields_mut() = other_fields(&rg.other, "@RG")?;
            if h.read_groups_mut().insert(bstr::BString::from(rg.id.0.clone()), m).is_some() {
                return Err(format!("duplicate read group id {:?}", rg.id));
            }
        }
        for pg in &self.programs {
            let mut m = Map::<map::Program>::default();
            *m.other_fields_mut() = other_fields(&pg.other, "@PG")?;
            if h.programs_mut().as_mut().insert(bstr::BString::from(pg.id.0.clone()), m).is_some() {
                return Err(format!("duplicate program id {:?}", pg.id));
            }
        }
        for c in &self.comments {
            h.comments_mut().push(bstr::BString::from(c.0.clone()));
        }
        Ok(h)
    }

    /// Model of a noodles header (field order preserved — `IndexMap` equality ignores order, this
    /// model does not).
    pub fn from_noodles(h: &sam::Header) -> AlnHeader {
        fn fields<S>(m: &indexmap::IndexMap<sam::header::record::value::map::tag::Other<S>, bstr::BString>) -> Fields {
            m.iter().map(|(k, v)| (Tag(*AsRef::<[u8; 2]>::as_ref(k)), B(v.to_vec()))).collect()
        }
        AlnHeader {
            hd: h.header().map(|m| HdLine { major: m.version().major(), minor: m.version().minor(), other: fields(m.other_fields()) }),
            refs: h.reference_sequences().iter().map(|(n, m)| SqLine { name: B(n.to_vec()), len: usize::from(m.length()) as u64, other: fields(m.other_fields()) }).collect(),
            read_groups: h.read_groups().iter().map(|(n, m)| IdLine { id: B(n.to_vec()), other: fields(m.other_fields()) }).collect(),
            programs: h.programs().as_ref().iter().map(|(n, m)| IdLine { id: B(n.to_vec()), other: fields(m.other_fields()) }).collect(),
            comments: h.comments().iter().map(|c| B(c.to_vec())).collect(),
        }
    }

    /// SAM text of the header in the order `@HD`, `@SQ*`, `@RG*`, `@PG*`, `@CO*`, with the
    /// identifying fields (`VN`; `SN`,`LN`; `ID`) first on their lines — rendered by the harness
    /// from the grammar in SAMv1 §1.3, not by noodles.
    pub fn to_text(&self) -> Vec<u8> {
        let mut lines = Vec::new();
        if let Some(l) = self.hd_line() {
            lines.push(l);
        }
        lines.extend(self.sq_lines());
        lines.extend(self.rg_lines());
        lines.extend(self.pg_lines());
        lines.extend(self.co_lines());
        lines.concat()
    }

    fn push_fields(line: &mut Vec<u8>, fields: &Fields) {
        for (t, v) in fields {
            line.push(b'\t');
            line.extend_from_slice(&t.0);
            line.push(b':');
            line.extend_from_slice(&v.0);
        }
    }

    pub fn hd_line(&self) -> Option<Vec<u8>> {
        self.hd.as_ref().map(|hd| {
            let mut l = format!("@HD\tVN:{}.{}", hd.major, hd.minor).into_bytes();
            Self::push_fields(&mut l, &hd.other);
            l.push(b'\n');
            l
        })
    }

    pub fn sq_lines(&self) -> Vec<Vec<u8>> {
        self.refs
            .iter()
            .map(|sq| {
                let mut l = b"@SQ\tSN:".to_vec();
                l.extend_from_slice(&sq.name.0);
                l.extend_from_slice(format!("\tLN:{}", sq.len).as_bytes());
                Self::push_fields(&mut l, &sq.other);
                l.push(b'\n');
                l
            })
            .collect()
    }

    fn id_lines(kind: &[u8], lines: &[IdLine]) -> Vec<Vec<u8>> {
        lines
            .iter()
            .map(|x| {
                let mut l = b"@".to_vec();
                l.extend_from_slice(kind);
                l.extend_from_slice(b"\tID:");
                l.extend_from_slice(&x.id.0);
                Self::push_fields(&mut l, &x.other);
                l.push(b'\n');
                l
            })
            .collect()
    }

    pub fn rg_lines(&self) -> Vec<Vec<u8>> {
        Self::id_lines(b"RG", &self.read_groups)
    }

    pub fn pg_lines(&self) -> Vec<Vec<u8>> {
        Self::id_lines(b"PG", &self.programs)
    }

    pub fn co_lines(&self) -> Vec<Vec<u8>> {
        self.comments
            .iter()
            .map(|c| {
                let mut l = b"@CO\t".to_vec();
                l.extend_from_slice(&c.0);
                l.push(b'\n');
                l
            })
            .collect()
    }

    /// Field-wise differences between two header models (empty = equal). Each entry names the
    /// part that differs (`hd`, `refs`, `read_groups`, `programs`, `comments`).
    pub fn diff(&self, other: &AlnHeader) -> Vec<(&'static str, String)> {
        let mut d = Vec::new();
        macro_rules! cmp {
            ($f:ident) => {
                if self.$f != other.$f {
                    d.push((stringify!($f), format!("{:?} vs {:?}", self.$f, other.$f)));
                }
            };
        }
        cmp!(hd);
        cmp!(refs);
        cmp!(read_groups);
        cmp!(programs);
        cmp!(comments);
        d
    }
}

// ---------------------------------------------------------------------------------------------
// record model
// ---------------------------------------------------------------------------------------------

/// CIGAR operation kinds in BAM code order.
pub const KIND_CHARS: &[u8; 9] = b"MIDNSHP=X";

pub fn kind_of(code: u8) -> Kind {
    match code {
        0 => Kind::Match,
        1 => Kind::Insertion,
        2 => Kind::Deletion,
        3 => Kind::Skip,
        4 => Kind::SoftClip,
        5 => Kind::HardClip,
        6 => Kind::Pad,
        7 => Kind::SequenceMatch,
        _ => Kind::SequenceMismatch,
    }
}

pub fn code_of(kind: Kind) -> u8 {
    match kind {
        Kind::Match => 0,
        Kind::Insertion => 1,
        Kind::Deletion => 2,
        Kind::Skip => 3,
        Kind::SoftClip => 4,
        Kind::HardClip => 5,
        Kind::Pad => 6,
        Kind::SequenceMatch => 7,
        Kind::SequenceMismatch => 8,
    }
}

/// `M I S = X` consume read bases.
pub fn consumes_read(code: u8) -> bool {
    matches!(code, 0 | 1 | 4 | 7 | 8)
}

/// `M D N = X` consume reference bases.
pub fn consumes_ref(code: u8) -> bool {
    matches!(code, 0 | 2 | 3 | 7 | 8)
}

/// A CIGAR: explicit, or a compact description of a very long one (expanded deterministically).
#[derive(Clone, Debug, PartialEq, Eq, Serialize, Deserialize)]
pub enum CigarSpec {
    /// `(kind code 0..=8 in "MIDNSHP=X" order, length)`
    Ops(Vec<(u8, u64)>),
    /// `n_ops` operations with pseudo-random kinds (all nine occur) and lengths 1..=3
    Huge { n_ops: u32, seed: u32 },
}

impl CigarSpec {
    pub fn ops(&self) -> Vec<(u8, u64)> {
        match self {
            CigarSpec::Ops(v) => v.clone(),
            CigarSpec::Huge { n_ops, seed } => {
                let mut r = XorShift::new(*seed as u64 + 0x5eed);
                let mut v = Vec::with_capacity(*n_ops as usize);
                let mut prev = 9u8;
                for _ in 0..*n_ops {
                    let x = r.next();
                    let mut k = (x % 9) as u8;
                    if k == prev {
                        k = (k + 1) % 9;
                    }
                    prev = k;
                    v.push((k, 1 + (x >> 8) % 3));
                }
                v
            }
        }
    }
    pub fn n_ops(&self) -> usize {
        match self {
            CigarSpec::Ops(v) => v.len(),
            CigarSpec::Huge { n_ops, .. } => *n_ops as usize,
        }
    }
}

/// The 16-letter BAM base alphabet in code order.
pub const BAM_BASES: &[u8; 16] = b"=ACMGRSVTWYHKDBN";

/// Bases: explicit, or derived from the CIGAR's read length (for very long reads).
#[derive(Clone, Debug, PartialEq, Eq, Serialize, Deserialize)]
pub enum SeqSpec {
    Bases(B),
    /// as many bases as the CIGAR consumes, pseudo-random over the upper-case BAM alphabet
    Auto { seed: u32 },
}

/// Quality scores (raw Phred values, not offset by 33): explicit, or one per base.
#[derive(Clone, Debug, PartialEq, Eq, Serialize, Deserialize)]
pub enum QualSpec {
    Scores(Vec<u8>),
    /// one pseudo-random score 10..=93 per base
    Auto { seed: u32 },
}

/// A typed auxiliary value. Floats are held as bit patterns so that equality is bit equality.
#[derive(Clone, Debug, PartialEq, Eq, Serialize, Deserialize)]
pub enum AuxValue {
    Char(u8),
    I8(i8),
    U8(u8),
    I16(i16),
    U16(u16),
    I32(i32),
    U32(u32),
    /// width-less integer: only produced by `Norm::numeric_ints`
    Int(i64),
    F32(u32),
    Str(B),
    Hex(B),
    ArrI8(Vec<i8>),
    ArrU8(Vec<u8>),
    ArrI16(Vec<i16>),
    ArrU16(Vec<u16>),
    ArrI32(Vec<i32>),
    ArrU32(Vec<u32>),
    ArrF32(Vec<u32>),
}

impl AuxValue {
    pub fn as_int(&self) -> Option<i64> {
        Some(match self {
            AuxValue::I8(n) => *n as i64,
            AuxValue::U8(n) => *n as i64,
            AuxValue::I16(n) => *n as i64,
            AuxValue::U16(n) => *n as i64,
            AuxValue::I32(n) => *n as i64,
            AuxValue::U32(n) => *n as i64,
            AuxValue::Int(n) => *n,
            _ => return None,
        })
    }

    pub fn is_array(&self) -> bool {
        matches!(self, AuxValue::ArrI8(_) | AuxValue::ArrU8(_) | AuxValue::ArrI16(_) | AuxValue::ArrU16(_) | AuxValue::ArrI32(_) | AuxValue::ArrU32(_) | AuxValue::ArrF32(_))
    }

    pub fn array_len(&self) -> Option<usize> {
        Some(match self {
            AuxValue::ArrI8(v) => v.len(),
            AuxValue::ArrU8(v) => v.len(),
            AuxValue::ArrI16(v) => v.len(),
            AuxValue::ArrU16(v) => v.len(),
            AuxValue::ArrI32(v) => v.len(),
            AuxValue::ArrU32(v) => v.len(),
            AuxValue::ArrF32(v) => v.len(),
            _ => return None,
        })
    }

    /// BAM type letter (`A c C s S i I f Z H B`); `Int` reports `i`.
    pub fn bam_type(&self) -> u8 {
        match self {
            AuxValue::Char(_) => b'A',
            AuxValue::I8(_) => b'c',
            AuxValue::U8(_) => b'C',
            AuxValue::I16(_) => b's',
            AuxValue::U16(_) => b'S',
            AuxValue::I32(_) | AuxValue::Int(_) => b'i',
            AuxValue::U32(_) => b'I',
            AuxValue::F32(_) => b'f',
            AuxValue::Str(_) => b'Z',
            AuxValue::Hex(_) => b'H',
            _ => b'B',
        }
    }

    /// BAM array subtype letter for arrays.
    pub fn bam_subtype(&self) -> Option<u8> {
        Some(match self {
            AuxValue::ArrI8(_) => b'c',
            AuxValue::ArrU8(_) => b'C',
            AuxValue::ArrI16(_) => b's',
            AuxValue::ArrU16(_) => b'S',
            AuxValue::ArrI32(_) => b'i',
            AuxValue::ArrU32(_) => b'I',
            AuxValue::ArrF32(_) => b'f',
            _ => return None,
        })
    }

    pub fn has_nonfinite_float(&self) -> bool {
        match self {
            AuxValue::F32(b) => !f32::from_bits(*b).is_finite(),
            AuxValue::ArrF32(v) => v.iter().any(|b| !f32::from_bits(*b).is_finite()),
            _ => false,
        }
    }

    pub fn to_noodles(&self) -> Value {
        match self {
            AuxValue::Char(c) => Value::Character(*c),
            AuxValue::I8(n) => Value::Int8(*n),
            AuxValue::U8(n) => Value::UInt8(*n),
            AuxValue::I16(n) => Value::Int16(*n),
            AuxValue::U16(n) => Value::UInt16(*n),
            AuxValue::I32(n) => Value::Int32(*n),
            AuxValue::U32(n) => Value::UInt32(*n),
            AuxValue::Int(n) => {
                if *n < 0 {
                    Value::Int32(*n as i32)
                } else {
                    Value::UInt32(*n as u32)
                }
            }
            AuxValue::F32(b) => Value::Float(f32::from_bits(*b)),
            AuxValue::Str(s) => Value::String(s.0.clone().into()),
            AuxValue::Hex(s) => Value::Hex(s.0.clone().into()),
            AuxValue::ArrI8(v) => Value::Array(Array::Int8(v.clone())),
            AuxValue::ArrU8(v) => Value::Array(Array::UInt8(v.clone())),
            AuxValue::ArrI16(v) => Value::Array(Array::Int16(v.clone())),
            AuxValue::ArrU16(v) => Value::Array(Array::UInt16(v.clone())),
            AuxValue::ArrI32(v) => Value::Array(Array::Int32(v.clone())),
            AuxValue::ArrU32(v) => Value::Array(Array::UInt32(v.clone())),
            AuxValue::ArrF32(v) => Value::Array(Array::Float(v.iter().map(|b| f32::from_bits(*b)).collect())),
        }
    }

    pub fn from_noodles(v: &Value) -> AuxValue {
        match v {
            Value::Character(c) => AuxValue::Char(*c),
            Value::Int8(n) => AuxValue::I8(*n),
            Value::UInt8(n) => AuxValue::U8(*n),
            Value::Int16(n) => AuxValue::I16(*n),
            Value::UInt16(n) => AuxValue::U16(*n),
            Value::Int32(n) => AuxValue::I32(*n),
            Value::UInt32(n) => AuxValue::U32(*n),
            Value::Float(x) => AuxValue::F32(x.to_bits()),
            Value::String(s) => AuxValue::Str(B(s.to_vec())),
            Value::Hex(s) => AuxValue::Hex(B(s.to_vec())),
            Value::Array(a) => match a {
                Array::Int8(v) => AuxValue::ArrI8(v.clone()),
                Array::UInt8(v) => AuxValue::ArrU8(v.clone()),
                Array::Int16(v) => AuxValue::ArrI16(v.clone()),
                Array::UInt16(v) => AuxValue::ArrU16(v.clone()),
                Array::Int32(v) => AuxValue::ArrI32(v.clone()),
                Array::UInt32(v) => AuxValue::ArrU32(v.clone()),
                Array::Float(v) => AuxValue::ArrF32(v.iter().map(|x| x.to_bits()).collect()),
            },
        }
    }

    /// Model of a borrowed ("lazy") aux value as the format readers hand it out.
    pub fn from_lazy(v: &sam::alignment::record::data::field::Value<'_>) -> std::io::Result<AuxValue> {
        use sam::alignment::record::data::field::{Value as L, value::Array as LA};
        Ok(match v {
            L::Character(c) => AuxValue::Char(*c),
            L::Int8(n) => AuxValue::I8(*n),
            L::UInt8(n) => AuxValue::U8(*n),
            L::Int16(n) => AuxValue::I16(*n),
            L::UInt16(n) => AuxValue::U16(*n),
            L::Int32(n) => AuxValue::I32(*n),
            L::UInt32(n) => AuxValue::U32(*n),
            L::Float(x) => AuxValue::F32(x.to_bits()),
            L::String(s) => AuxValue::Str(B(s.to_vec())),
            L::Hex(s) => AuxValue::Hex(B(s.to_vec())),
            L::Array(a) => match a {
                LA::Int8(v) => AuxValue::ArrI8(v.iter().collect::<std::io::Result<_>>()?),
                LA::UInt8(v) => AuxValue::ArrU8(v.iter().collect::<std::io::Result<_>>()?),
                LA::Int16(v) => AuxValue::ArrI16(v.iter().collect::<std::io::Result<_>>()?),
                LA::UInt16(v) => AuxValue::ArrU16(v.iter().collect::<std::io::Result<_>>()?),
                LA::Int32(v) => AuxValue::ArrI32(v.iter().collect::<std::io::Result<_>>()?),
                LA::UInt32(v) => AuxValue::ArrU32(v.iter().collect::<std::io::Result<_>>()?),
                LA::Float(v) => AuxValue::ArrF32(v.iter().map(|r| r.map(|x| x.to_bits())).collect::<std::io::Result<_>>()?),
            },
        })
    }

    /// `TYPE:VALUE` rendering for transcripts: exact integer type letters, floats as hex bit
    /// patterns (so that it never depends on a float formatter).
    pub fn canonical(&self) -> String {
        fn arr<T: fmt::Display>(c: char, v: &[T]) -> String {
            let mut s = format!("B:{c}");
            for x in v {
                s.push(',');
                s.push_str(&x.to_string());
            }
            s
        }
        match self {
            AuxValue::Char(c) => format!("A:{}", [*c].escape_ascii()),
            AuxValue::I8(n) => format!("c:{n}"),
            AuxValue::U8(n) => format!("C:{n}"),
            AuxValue::I16(n) => format!("s:{n}"),
            AuxValue::U16(n) => format!("S:{n}"),
            AuxValue::I32(n) => format!("i:{n}"),
            AuxValue::U32(n) => format!("I:{n}"),
            AuxValue::Int(n) => format!("int:{n}"),
            AuxValue::F32(b) => format!("f:0x{b:08x}"),
            AuxValue::Str(s) => format!("Z:{}", s.0.escape_ascii()),
            AuxValue::Hex(s) => format!("H:{}", s.0.escape_ascii()),
            AuxValue::ArrI8(v) => arr('c', v),
            AuxValue::ArrU8(v) => arr('C', v),
            AuxValue::ArrI16(v) => arr('s', v),
            AuxValue::ArrU16(v) => arr('S', v),
            AuxValue::ArrI32(v) => arr('i', v),
            AuxValue::ArrU32(v) => arr('I', v),
            AuxValue::ArrF32(v) => {
                let mut s = "B:f".to_string();
                for b in v {
                    s.push_str(&format!(",0x{b:08x}"));
                }
                s
            }
        }
    }
}

#[derive(Clone, Debug, PartialEq, Eq, Serialize, Deserialize)]
pub struct AlnRecord {
    pub name: Option<B>,
    /// the 12 defined flag bits
    pub flags: u16,
    pub ref_id: Option<u64>,
    /// 1-based
    pub pos: Option<u64>,
    /// `None` = 255
    pub mapq: Option<u8>,
    pub cigar: CigarSpec,
    pub mate_ref_id: Option<u64>,
    /// 1-based
    pub mate_pos: Option<u64>,
    pub tlen: i32,
    pub seq: SeqSpec,
    pub qual: QualSpec,
    pub aux: Vec<(Tag, AuxValue)>,
}

impl Default for AlnRecord {
    fn default() -> Self {
        AlnRecord {
            name: None,
            flags: 4,
            ref_id: None,
            pos: None,
            mapq: None,
            cigar: CigarSpec::Ops(vec![]),
            mate_ref_id: None,
            mate_pos: None,
            tlen: 0,
            seq: SeqSpec::Bases(B::default()),
            qual: QualSpec::Scores(vec![]),
            aux: vec![],
        }
    }
}

/// Normal forms under which records are compared.
#[derive(Clone, Copy, Debug, PartialEq, Eq)]
pub struct Norm {
    /// BAM base alphabet folding: upper-case, everything outside `=ACMGRSVTWYHKDBN` → `N`
    pub fold_bases: bool,
    /// integer aux values lose their storage width (SAM text has a single `i` type)
    pub numeric_ints: bool,
}

impl Norm {
    /// nothing folded (explicit form only)
    pub const EXACT: Norm = Norm { fold_bases: false, numeric_ints: false };
    /// what a BAM round trip preserves
    pub const BAM: Norm = Norm { fold_bases: true, numeric_ints: false };
    /// what a SAM text round trip preserves
    pub const SAM: Norm = Norm { fold_bases: false, numeric_ints: true };
    /// what survives both (SAM ↔ BAM comparisons)
    pub const CROSS: Norm = Norm { fold_bases: true, numeric_ints: true };
}

/// BAM base folding of one byte (SAMv1 §4.2.3: case-insensitive, everything else is `N`).
pub fn fold_base(b: u8) -> u8 {
    let u = b.to_ascii_uppercase();
    if BAM_BASES.contains(&u) { u } else { b'N' }
}

impl AlnRecord {
    pub fn cigar_ops(&self) -> Vec<(u8, u64)> {
        self.cigar.ops()
    }

    /// Σ lengths of `M I S = X`
    pub fn read_len(&self) -> u64 {
        self.cigar_ops().iter().filter(|(k, _)| consumes_read(*k)).map(|(_, l)| *l).sum()
    }

    /// Σ lengths of `M D N = X`
    pub fn ref_span(&self) -> u64 {
        self.cigar_ops().iter().filter(|(k, _)| consumes_ref(*k)).map(|(_, l)| *l).sum()
    }

    /// 1-based inclusive end: `pos + max(1, span) − 1`
    pub fn end(&self) -> Option<u64> {
        self.pos.map(|p| p + self.ref_span().max(1) - 1)
    }

    pub fn bases(&self) -> Vec<u8> {
        match &self.seq {
            SeqSpec::Bases(b) => b.0.clone(),
            SeqSpec::Auto { seed } => {
                let n = self.read_len() as usize;
                let mut r = XorShift::new(*seed as u64 + 0xba5e);
                (0..n).map(|_| BAM_BASES[(r.next() % 16) as usize]).collect()
            }
        }
    }

    pub fn quals(&self) -> Vec<u8> {
        match &self.qual {
            QualSpec::Scores(v) => v.clone(),
            QualSpec::Auto { seed } => {
                let n = self.bases().len();
                let mut r = XorShift::new(*seed as u64 + 0x9a1);
                (0..n).map(|_| 10 + (r.next() % 84) as u8).collect()
            }
        }
    }

    /// The same record with compact specs expanded.
    pub fn explicit(&self) -> AlnRecord {
        let mut r = self.clone();
        r.cigar = CigarSpec::Ops(self.cigar_ops());
        r.seq = SeqSpec::Bases(B(self.bases()));
        r.qual = QualSpec::Scores(self.quals());
        r
    }

    /// Explicit form under a normal form.
    pub fn normalized(&self, n: Norm) -> AlnRecord {
        let mut r = self.explicit();
        if n.fold_bases {
            if let SeqSpec::Bases(b) = &mut r.seq {
                for x in b.0.iter_mut() {
                    *x = fold_base(*x);
                }
            }
        }
        if n.numeric_ints {
            for (_, v) in r.aux.iter_mut() {
                if let Some(i) = v.as_int() {
                    *v = AuxValue::Int(i);
                }
            }
        }
        r
    }

    pub fn to_noodles(&self) -> Result<RecordBuf, String> {
        let mut r = RecordBuf::default();
        *r.name_mut() = self.name.as_ref().map(|n| n.0.clone().into());
        *r.flags_mut() = Flags::from(self.flags);
        *r.reference_sequence_id_mut() = self.ref_id.map(|i| i as usize);
        *r.alignment_start_mut() = match self.pos {
            None => None,
            Some(p) => Some(Position::new(p as usize).ok_or("position 0")?),
        };
        *r.mapping_quality_mut() = match self.mapq {
            None => None,
            Some(q) => Some(MappingQuality::new(q).ok_or("mapping quality 255 given as a value")?),
        };
        *r.cigar_mut() = self.cigar_ops().iter().map(|(k, l)| Op::new(kind_of(*k), *l as usize)).collect();
        *r.mate_reference_sequence_id_mut() = self.mate_ref_id.map(|i| i as usize);
        *r.mate_alignment_start_mut() = match self.mate_pos {
            None => None,
            Some(p) => Some(Position::new(p as usize).ok_or("mate position 0")?),
        };
        *r.template_length_mut() = self.tlen;
        *r.sequence_mut() = self.bases().into();
        *r.quality_scores_mut() = self.quals().into();
        let data = r.data_mut();
        for (t, v) in &self.aux {
            if data.insert(NTag::new(t.0[0], t.0[1]), v.to_noodles()).is_some() {
                return Err(format!("duplicate aux tag {t:?}"));
            }
        }
        Ok(r)
    }

    pub fn from_noodles(r: &RecordBuf) -> AlnRecord {
        AlnRecord {
            name: r.name().map(|n| B(n.to_vec())),
            flags: u16::from(r.flags()),
            ref_id: r.reference_sequence_id().map(|i| i as u64),
            pos: r.alignment_start().map(|p| p.get() as u64),
            mapq: r.mapping_quality().map(u8::from),
            cigar: CigarSpec::Ops(r.cigar().as_ref().iter().map(|op| (code_of(op.kind()), op.len() as u64)).collect()),
            mate_ref_id: r.mate_reference_sequence_id().map(|i| i as u64),
            mate_pos: r.mate_alignment_start().map(|p| p.get() as u64),
            tlen: r.template_length(),
            seq: SeqSpec::Bases(B(r.sequence().as_ref().to_vec())),
            qual: QualSpec::Scores(r.quality_scores().as_ref().to_vec()),
            aux: r.data().iter().map(|(t, v)| (Tag(*AsRef::<[u8; 2]>::as_ref(&t)), AuxValue::from_noodles(v))).collect(),
        }
    }

    /// Field-wise differences of the explicit forms (empty = equal); entries name the field.
    pub fn diff(&self, other: &AlnRecord) -> Vec<(&'static str, String)> {
        let (a, b) = (self.explicit(), other.explicit());
        let mut d = Vec::new();
        macro_rules! cmp {
            ($f:ident) => {
                if a.$f != b.$f {
                    d.push((stringify!($f), format!("{} vs {}", crate::engine::trunc(&format!("{:?}", a.$f), 300), crate::engine::trunc(&format!("{:?}", b.$f), 300))));
                }
            };
        }
        cmp!(name);
        cmp!(flags);
        cmp!(ref_id);
        cmp!(pos);
        cmp!(mapq);
        cmp!(cigar);
        cmp!(mate_ref_id);
        cmp!(mate_pos);
        cmp!(tlen);
        cmp!(seq);
        cmp!(qual);
        cmp!(aux);
        d
    }

    /// An empty `B` array that is not the last aux field (the class of a known lazy-SAM-reader defect).
    pub fn has_nonlast_empty_array(&self) -> bool {
        let n = self.aux.len();
        self.aux.iter().enumerate().any(|(i, (_, v))| i + 1 < n && v.array_len() == Some(0))
    }

    /// CIGAR in SAM notation (`*` when empty).
    pub fn cigar_string(&self) -> String {
        let ops = self.cigar_ops();
        if ops.is_empty() {
            return "*".into();
        }
        let mut s = String::new();
        for (k, l) in ops {
            s.push_str(&l.to_string());
            s.push(KIND_CHARS[(k as usize).min(8)] as char);
        }
        s
    }
}

/// One-line canonical rendering for transcripts: SAM-like columns with numeric reference ids,
/// exact aux types and float bit patterns. Independent of every noodles formatter.
pub fn canonical_text(r: &AlnRecord) -> String {
    let opt = |x: Option<u64>| x.map(|v| v.to_string()).unwrap_or_else(|| "*".into());
    let bases = r.bases();
    let quals = r.quals();
    let mut s = format!(
        "{}\t{}\t{}\t{}\t{}\t{}\t{}\t{}\t{}\t{}\t{}",
        r.name.as_ref().map(|n| n.0.escape_ascii().to_string()).unwrap_or_else(|| "*".into()),
        r.flags,
        opt(r.ref_id),
        opt(r.pos),
        r.mapq.map(|q| q.to_string()).unwrap_or_else(|| "255".into()),
        r.cigar_string(),
        opt(r.mate_ref_id),
        opt(r.mate_pos),
        r.tlen,
        if bases.is_empty() { "*".to_string() } else { bases.escape_ascii().to_string() },
        if quals.is_empty() { "*".to_string() } else { quals.iter().map(|q| format!("{q:02x}")).collect::<String>() },
    );
    for (t, v) in &r.aux {
        s.push('\t');
        s.push_str(&format!("{}:{}", t.0.escape_ascii(), v.canonical()));
    }
    s
}

#[derive(Clone, Debug, PartialEq, Eq, Serialize, Deserialize, Default)]
pub struct AlnDoc {
    pub header: AlnHeader,
    pub records: Vec<AlnRecord>,
}

impl AlnDoc {
    /// The noodles header and records of the document.
    pub fn to_noodles(&self) -> Result<(sam::Header, Vec<RecordBuf>), String> {
        Ok((self.header.to_noodles()?, self.records.iter().map(|r| r.to_noodles()).collect::<Result<_, _>>()?))
    }

    /// Canonical transcript lines: the header text (harness rendering) followed by one
    /// [`canonical_text`] line per record under `norm`.
    pub fn canonical_lines(&self, norm: Norm) -> Vec<String> {
        let mut v: Vec<String> = String::from_utf8_lossy(&self.header.to_text()).lines().map(|l| l.to_string()).collect();
        v.extend(self.records.iter().map(|r| canonical_text(&r.normalized(norm))));
        v
    }
}

// ---------------------------------------------------------------------------------------------
// strategies: headers
// ---------------------------------------------------------------------------------------------

/// Which reference dictionaries the header strategy produces.
#[derive(Clone, Copy, Debug, PartialEq, Eq)]
pub enum Refs {
    /// with and without a dictionary
    Any,
    /// never a dictionary
    None,
    /// at least one reference
    Some,
}

#[derive(Clone, Debug)]
pub struct HeaderParams {
    pub refs: Refs,
    /// upper bound for the common case; a small fraction of headers holds up to `many_refs`
    pub max_refs: usize,
    pub many_refs: usize,
    /// 0..=max of each of @RG, @PG, @CO
    pub max_lines: usize,
    /// reference lengths at most this (≤ 2^31−1)
    pub max_ref_len: u64,
}

impl HeaderParams {
    pub fn for_tier(tier: Tier) -> HeaderParams {
        HeaderParams { refs: Refs::Any, max_refs: 5, many_refs: tier.pick(300, 1200), max_lines: 4, max_ref_len: (1 << 31) - 1 }
    }
    pub fn with_refs(mut self, r: Refs) -> Self {
        self.refs = r;
        self
    }
}

/// `[ -~]+` header field values, with the separators the grammar allows inside a value.
fn header_value() -> BoxedStrategy<B> {
    prop_oneof![
        4 => proptest::collection::vec(0x20u8..=0x7e, 1..12).prop_map(B),
        2 => proptest::sample::select(vec!["coordinate", "queryname", "unsorted", "unknown", "query", "none", "reference", "ILLUMINA", "bwa mem -t 4 ref.fa r.fq", "a:b:c", " lead", "trail ", "@x", "1", "*", "="]).prop_map(B::new),
        1 => proptest::collection::vec(0x20u8..=0x7e, 12..80).prop_map(B),
    ]
    .boxed()
}

fn user_tag() -> BoxedStrategy<Tag> {
    (prop_oneof![(b'a'..=b'z'), (b'A'..=b'Z')], prop_oneof![(b'a'..=b'z'), (b'A'..=b'Z'), (b'0'..=b'9')]).prop_map(|(a, b)| Tag([a, b])).boxed()
}

/// Ordered other-fields with unique tags, none of which is in `reserved`.
fn fields(standard: &'static [&'static [u8; 2]], reserved: &'static [&'static [u8; 2]], max: usize) -> BoxedStrategy<Fields> {
    let std_tags: Vec<Tag> = standard.iter().map(|t| Tag(**t)).collect();
    let t = prop_oneof![3 => proptest::sample::select(std_tags), 2 => user_tag()];
    proptest::collection::vec((t, header_value()), 0..=max)
        .prop_map(move |v| {
            let mut out: Fields = Vec::new();
            for (t, val) in v {
                if reserved.iter().any(|r| **r == t.0) || out.iter().any(|(u, _)| *u == t) {
                    continue;
                }
                out.push((t, val));
            }
            out
        })
        .boxed()
}

fn version() -> BoxedStrategy<(u32, u32)> {
    prop_oneof![
        6 => proptest::sample::select(vec![(1u32, 0u32), (1, 3), (1, 4), (1, 5), (1, 6), (1, 7)]),
        1 => (0u32..4, 0u32..20),
        1 => (any::<u32>(), any::<u32>()),
    ]
    .boxed()
}

/// First byte: `[0-9A-Za-z!#$%&+./:;?@^_|~-]`, rest additionally `*` and `=` (SAMv1 §1.2.1).
fn rname_char(first: bool) -> BoxedStrategy<u8> {
    let mut all: Vec<u8> = (b'!'..=b'~').filter(|b| !b"\\,\"`'()[]{}<>".contains(b)).collect();
    if first {
        all.retain(|b| *b != b'*' && *b != b'=');
    }
    prop_oneof![
        5 => prop_oneof![(b'a'..=b'z'), (b'A'..=b'Z'), (b'0'..=b'9'), Just(b'_'), Just(b'.')],
        1 => proptest::sample::select(all),
    ]
    .boxed()
}

fn rname() -> BoxedStrategy<B> {
    prop_oneof![
        3 => (rname_char(true), proptest::collection::vec(rname_char(false), 0..8)).prop_map(|(f, mut r)| {
            let mut v = vec![f];
            v.append(&mut r);
            B(v)
        }),
        1 => (0u32..100).prop_map(|i| B::new(format!("chr{i}"))),
        1 => (rname_char(true), proptest::collection::vec(rname_char(false), 8..60)).prop_map(|(f, mut r)| {
            let mut v = vec![f];
            v.append(&mut r);
            B(v)
        }),
    ]
    .boxed()
}

fn ref_len(max: u64) -> BoxedStrategy<u64> {
    let b: Vec<u64> = vec![1, 2, 100, 16383, 16384, 16385, 1 << 20, (1 << 29) - 1, 1 << 29, (1 << 29) + 1, (1 << 31) - 2, (1 << 31) - 1].into_iter().filter(|x| *x <= max).collect();
    prop_oneof![
        2 => proptest::sample::select(b),
        2 => 1u64..=max.min(100_000),
        1 => 1u64..=max,
    ]
    .boxed()
}

/// id values for @RG / @PG (`[ -~]+`).
fn id_value() -> BoxedStrategy<B> {
    prop_oneof![
        3 => proptest::collection::vec(prop_oneof![(b'a'..=b'z'), (b'0'..=b'9'), Just(b'.'), Just(b'-')], 1..8).prop_map(B),
        1 => proptest::collection::vec(0x20u8..=0x7e, 1..16).prop_map(B),
    ]
    .boxed()
}

/// Comment text: anything but line terminators (tabs, leading/trailing blanks and UTF-8 included).
fn comment() -> BoxedStrategy<B> {
    prop_oneof![
        3 => proptest::collection::vec(prop_oneof![8 => 0x20u8..=0x7e, 1 => Just(b'\t')], 0..30).prop_map(B),
        1 => proptest::sample::select(vec!["", " ", "\t", "\ttab first", "trailing tab\t", "@HD\tVN:1.6", "@CO\tnested", "naïve café — ünïcödé ✓", "a\tb\tc", "key:value\tSN:x"]).prop_map(B::new),
    ]
    .boxed()
}

fn dedup_by_key<T, K: PartialEq>(v: Vec<T>, key: impl Fn(&T) -> K) -> Vec<T> {
    let mut out: Vec<T> = Vec::new();
    for x in v {
        if !out.iter().any(|y| key(y) == key(&x)) {
            out.push(x);
        }
    }
    out
}

const HD_STD: &[&[u8; 2]] = &[b"SO", b"GO", b"SS"];
const SQ_STD: &[&[u8; 2]] = &[b"AH", b"AN", b"AS", b"DS", b"M5", b"SP", b"TP", b"UR"];
const RG_STD: &[&[u8; 2]] = &[b"BC", b"CN", b"DS", b"DT", b"FO", b"KS", b"LB", b"PG", b"PI", b"PL", b"PM", b"PU", b"SM"];
const PG_STD: &[&[u8; 2]] = &[b"PN", b"CL", b"PP", b"DS", b"VN"];

pub fn header_with(p: &HeaderParams) -> BoxedStrategy<AlnHeader> {
    let hd = prop_oneof![
        1 => Just(None),
        3 => (version(), fields(HD_STD, &[b"VN"], 3)).prop_map(|((major, minor), other)| Some(HdLine { major, minor, other })),
    ];
    let max_ref_len = p.max_ref_len;
    let sq = move || (rname(), ref_len(max_ref_len), prop_oneof![3 => Just(Vec::new()), 1 => fields(SQ_STD, &[b"SN", b"LN"], 3)]).prop_map(|(name, len, other)| SqLine { name, len, other });
    let few = proptest::collection::vec(sq(), 0..=p.max_refs);
    let few1 = proptest::collection::vec(sq(), 1..=p.max_refs.max(1));
    let many = proptest::collection::vec(sq(), p.max_refs.max(1)..=p.many_refs.max(p.max_refs.max(1)));
    let refs: BoxedStrategy<Vec<SqLine>> = match p.refs {
        Refs::None => Just(Vec::new()).boxed(),
        Refs::Any => prop_oneof![3 => Just(Vec::new()), 12 => few, 1 => many].boxed(),
        Refs::Some => prop_oneof![12 => few1, 1 => many].boxed(),
    };
    let need_ref = p.refs == Refs::Some;
    let rg = proptest::collection::vec((id_value(), fields(RG_STD, &[b"ID"], 3)).prop_map(|(id, other)| IdLine { id, other }), 0..=p.max_lines);
    let pg = proptest::collection::vec((id_value(), fields(PG_STD, &[b"ID"], 3)).prop_map(|(id, other)| IdLine { id, other }), 0..=p.max_lines);
    let co = proptest::collection::vec(comment(), 0..=p.max_lines);
    let general = (hd, refs, rg, pg, co)
        .prop_map(move |(hd, refs, rg, pg, co)| {
            let mut refs = dedup_by_key(refs, |r| r.name.clone());
            if need_ref && refs.is_empty() {
                refs.push(SqLine { name: B::new("ref"), len: 1000, other: vec![] });
            }
            AlnHeader { hd, refs, read_groups: dedup_by_key(rg, |r| r.id.clone()), programs: dedup_by_key(pg, |r| r.id.clone()), comments: co }
        });
    if need_ref {
        general.boxed()
    } else {
        // the empty header and the bare `@HD` line are classes of their own
        prop_oneof![
            1 => Just(AlnHeader::default()),
            1 => Just(AlnHeader { hd: Some(HdLine { major: 1, minor: 6, other: vec![] }), ..AlnHeader::default() }),
            38 => general,
        ]
        .boxed()
    }
}

/// Headers over the whole domain: any mix of @HD/@SQ/@RG/@PG/@CO, standard and user tags,
/// 0..many references.
pub fn header(tier: Tier) -> BoxedStrategy<AlnHeader> {
    header_with(&HeaderParams::for_tier(tier))
}

// ---------------------------------------------------------------------------------------------
// strategies: records
// ---------------------------------------------------------------------------------------------

/// Which writer(s) must accept the record.
#[derive(Clone, Copy, Debug, PartialEq, Eq)]
pub enum Target {
    /// valid for the BAM writer: arbitrary base bytes, any float bit pattern
    Bam,
    /// valid for the SAM text writer: bases `[A-Za-z=.]`, finite floats
    Sam,
    /// valid for both, and bases mostly inside the BAM alphabet (cross-format comparisons)
    Both,
}

#[derive(Clone, Copy, Debug, PartialEq, Eq)]
pub enum Names {
    Mixed,
    Present,
    Missing,
}

#[derive(Clone, Debug)]
pub struct Mode {
    pub target: Target,
    /// positions dense at 1, 2^14k±1, 2^29±1, 2^31−1 (otherwise small uniform positions)
    pub boundary_positions: bool,
    /// occasionally (≈2 %) a `CigarSpec::Huge` of 65 530..=70 000 operations
    pub huge_cigar: bool,
    pub names: Names,
    /// common-case bound on the number of CIGAR ops (a small fraction goes up to 10× this)
    pub max_ops: usize,
    pub max_aux: usize,
    /// common-case bound on array lengths (a small fraction goes up to `long_array`)
    pub max_array: usize,
    pub long_array: usize,
    /// weight of the empty array among array lengths, out of ≈50 (BAM: 7; SAM targets: 1, because
    /// the lazy SAM reader has a known defect on an empty array that is not the last field)
    pub empty_array_weight: u32,
    /// largest position generated (≤ 2^31−1)
    pub max_pos: u64,
}

impl Mode {
    pub fn new(target: Target) -> Mode {
        Mode {
            target,
            boundary_positions: true,
            huge_cigar: false,
            names: Names::Mixed,
            max_ops: 8,
            max_aux: 6,
            max_array: 6,
            long_array: 300,
            empty_array_weight: 7,
            max_pos: (1 << 31) - 1,
        }
    }
    pub fn bam() -> Mode {
        Mode { max_pos: 1 << 31, ..Mode::new(Target::Bam) }
    }
    pub fn sam() -> Mode {
        Mode::new(Target::Sam)
    }
    pub fn both() -> Mode {
        Mode::new(Target::Both)
    }
    pub fn huge(mut self, on: bool) -> Self {
        self.huge_cigar = on;
        self
    }
    pub fn names(mut self, n: Names) -> Self {
        self.names = n;
        self
    }
    pub fn max_pos(mut self, p: u64) -> Self {
        self.max_pos = p.clamp(1, 1 << 31);
        self
    }
    pub fn plain_positions(mut self) -> Self {
        self.boundary_positions = false;
        self
    }
}

/// `[!-?A-~]`
fn name_byte() -> BoxedStrategy<u8> {
    prop_oneof![
        6 => prop_oneof![(b'a'..=b'z'), (b'A'..=b'Z'), (b'0'..=b'9'), Just(b':'), Just(b'_'), Just(b'/')],
        1 => prop_oneof![(b'!'..=b'?'), (b'A'..=b'~')],
    ]
    .boxed()
}

pub fn name_strategy(names: Names) -> BoxedStrategy<Option<B>> {
    let present = prop_oneof![
        6 => proptest::collection::vec(name_byte(), 1..20),
        1 => proptest::collection::vec(name_byte(), 250..=254),
        1 => proptest::collection::vec(name_byte(), 1..=254),
        1 => proptest::sample::select(vec!["**", "*a", "a*", "=", "!", "~", "0"]).prop_map(|s| s.as_bytes().to_vec()),
    ]
    .prop_map(|mut v| {
        if v == b"*" {
            v = b"x".to_vec();
        }
        Some(B(v))
    });
    match names {
        Names::Present => present.boxed(),
        Names::Missing => Just(None).boxed(),
        Names::Mixed => prop_oneof![1 => Just(None), 5 => present].boxed(),
    }
}

/// 1-based positions, boundary-dense.
pub fn position_strategy(max: u64, dense: bool) -> BoxedStrategy<u64> {
    // (2^31 is the largest 1-based position a BAM field holds: 0-based i32::MAX; SAM text stops at 2^31 - 1)
    let max = max.clamp(1, 1 << 31);
    if !dense {
        return (1u64..=max.min(100_000)).boxed();
    }
    let mut b: Vec<u64> = vec![1, 2, 3];
    for k in [14u32, 17, 20, 23, 26, 28, 29, 30] {
        let x = 1u64 << k;
        b.extend_from_slice(&[x - 1, x, x + 1, x + 2]);
    }
    for m in [3u64, 5, 7] {
        b.extend_from_slice(&[m * 16384 - 1, m * 16384, m * 16384 + 1]);
    }
    b.extend_from_slice(&[(1 << 31) - 2, (1 << 31) - 1, 1 << 31]);
    b.retain(|x| *x >= 1 && *x <= max);
    let log = (0u32..31, any::<u32>()).prop_map(move |(bits, x)| (((x as u64) & ((1u64 << (bits + 1)) - 1)).max(1)).min(max));
    prop_oneof![
        4 => proptest::sample::select(b),
        3 => 1u64..=max.min(70_000),
        2 => log,
    ]
    .boxed()
}

fn cigar_op(big_span: bool) -> BoxedStrategy<(u8, u64)> {
    // read-consuming ops stay short so that sequences stay small; D/N/H/P may be very long
    let read_len = prop_oneof![10 => 1u64..=12, 2 => 12u64..=150, 1 => Just(0u64)];
    let other_len = if big_span {
        prop_oneof![
            5 => 1u64..=40,
            2 => proptest::sample::select(vec![16383u64, 16384, 16385, 131072, 1 << 20, (1 << 28) - 2, (1 << 28) - 1]),
            2 => 1u64..(1 << 28),
            1 => Just(0u64),
        ]
        .boxed()
    } else {
        prop_oneof![8 => 1u64..=40, 1 => Just(0u64)].boxed()
    };
    prop_oneof![
        5 => (proptest::sample::select(vec![0u8, 1, 4, 7, 8]), read_len).prop_map(|(k, l)| (k, l)),
        3 => (proptest::sample::select(vec![2u8, 3, 5, 6]), other_len).prop_map(|(k, l)| (k, l)),
    ]
    .boxed()
}

pub fn cigar_strategy(mode: &Mode) -> BoxedStrategy<CigarSpec> {
    let big = mode.boundary_positions;
    let m = mode.max_ops.max(1);
    let ops = prop_oneof![
        2 => Just(Vec::new()),
        10 => proptest::collection::vec(cigar_op(big), 1..=m),
        2 => proptest::collection::vec(cigar_op(big), m..=m * 10),
    ]
    .prop_map(CigarSpec::Ops);
    if mode.huge_cigar {
        prop_oneof![
            49 => ops,
            1 => (prop_oneof![proptest::sample::select(vec![65_534u32, 65_535, 65_536, 65_537]), 65_530u32..=70_000], any::<u32>()).prop_map(|(n_ops, seed)| CigarSpec::Huge { n_ops, seed }),
        ]
        .boxed()
    } else {
        ops.boxed()
    }
}

fn base_pool(target: Target) -> BoxedStrategy<Vec<u8>> {
    // the alphabet class is chosen per record, so that "pure BAM alphabet" records are frequent
    let upper = || proptest::sample::select(BAM_BASES.to_vec());
    let acgt = || proptest::sample::select(b"ACGTN".to_vec());
    let lower = || proptest::sample::select(BAM_BASES.iter().map(|b| b.to_ascii_lowercase()).collect::<Vec<u8>>());
    let sam_any = || prop_oneof![(b'A'..=b'Z'), (b'a'..=b'z'), Just(b'='), Just(b'.')];
    let pool = |b: BoxedStrategy<u8>| proptest::collection::vec(b, 1..24);
    let p_upper = pool(upper().boxed());
    let p_acgt = pool(acgt().boxed());
    let p_lower = pool(prop_oneof![2 => upper(), 1 => lower()].boxed());
    let p_sam = pool(prop_oneof![2 => upper(), 1 => lower(), 2 => sam_any()].boxed());
    let p_any = pool(prop_oneof![3 => upper(), 1 => lower(), 1 => sam_any(), 2 => any::<u8>()].boxed());
    match target {
        Target::Bam => prop_oneof![4 => p_upper, 3 => p_acgt, 2 => p_lower, 1 => p_sam, 2 => p_any].boxed(),
        Target::Sam => prop_oneof![4 => p_upper, 3 => p_acgt, 2 => p_lower, 3 => p_sam].boxed(),
        Target::Both => prop_oneof![8 => p_upper, 6 => p_acgt, 1 => p_lower, 1 => p_sam].boxed(),
    }
}

fn qual_pool() -> BoxedStrategy<Vec<u8>> {
    proptest::collection::vec(prop_oneof![6 => 0u8..=93, 2 => proptest::sample::select(vec![0u8, 9, 93]), 1 => 30u8..=41], 1..24).boxed()
}

pub fn aux_tag() -> BoxedStrategy<Tag> {
    let std: Vec<Tag> =
        [b"NM", b"MD", b"AS", b"RG", b"NH", b"XS", b"BC", b"MC", b"SA", b"OQ", b"ML", b"MM", b"X0", b"Y1", b"z9", b"HI", b"CO", b"CC"].iter().map(|t| Tag(**t)).collect();
    prop_oneof![3 => proptest::sample::select(std), 2 => user_tag()].prop_map(|t| if &t.0 == b"CG" { Tag(*b"Cg") } else { t }).boxed()
}

fn f32_bits(finite_only: bool) -> BoxedStrategy<u32> {
    let special: Vec<u32> = [
        0.0f32, -0.0, 1.0, -1.0, 0.1, -0.1, 0.3, 1.0e-10, 1.5e10, 3.14159274, 16777216.0, 16777217.0, 123456.79, 1.0e30, 1.0e-30, f32::MAX, f32::MIN, f32::MIN_POSITIVE, f32::EPSILON, 0.5, 100.0, 1.0e7, 1.0e-7,
        9.999999e-5, 1.17549421e-38,
    ]
    .iter()
    .map(|x| x.to_bits())
    .chain([1u32, 2, 0x007f_ffff, 0x8000_0001, 0x0080_0000, 0x7f7f_ffff, 0xff7f_ffff, 0x3f80_0001, 0x3f7f_ffff])
    .collect();
    let finite = any::<u32>().prop_map(|b| if f32::from_bits(b).is_finite() { b } else { b & 0x7f7f_ffff | (b & 0x8000_0000) });
    if finite_only {
        prop_oneof![3 => proptest::sample::select(special), 3 => finite, 1 => (-1000i32..1000).prop_map(|i| (i as f32 / 8.0).to_bits())].boxed()
    } else {
        let nonfinite = proptest::sample::select(vec![0x7f80_0000u32, 0xff80_0000, 0x7fc0_0000, 0xffc0_0000, 0x7f80_0001, 0x7fff_ffff, 0xffff_ffff, 0x7fa0_0000]);
        prop_oneof![3 => proptest::sample::select(special), 3 => any::<u32>(), 2 => nonfinite].boxed()
    }
}

macro_rules! int_strategy {
    ($name:ident, $t:ty, $extra:expr) => {
        fn $name() -> BoxedStrategy<$t> {
            let mut b: Vec<$t> = vec![<$t>::MIN, <$t>::MIN + 1, <$t>::MAX, <$t>::MAX - 1, 0 as $t, 1 as $t];
            let extra: Vec<i64> = $extra;
            for e in extra {
                if let Ok(x) = <$t>::try_from(e) {
                    b.push(x);
                }
            }
            prop_oneof![3 => proptest::sample::select(b), 2 => any::<$t>()].boxed()
        }
    };
}

fn int_edges() -> Vec<i64> {
    vec![-1, -2, -127, -128, -129, 127, 128, 255, 256, -32767, -32768, -32769, 32767, 32768, 65535, 65536, -2147483647, 2147483647, 2147483648, 4294967294]
}

int_strategy!(i8s, i8, int_edges());
int_strategy!(u8s, u8, int_edges());
int_strategy!(i16s, i16, int_edges());
int_strategy!(u16s, u16, int_edges());
int_strategy!(i32s, i32, int_edges());
int_strategy!(u32s, u32, int_edges());

fn printable_string() -> BoxedStrategy<B> {
    prop_oneof![
        5 => proptest::collection::vec(0x20u8..=0x7e, 0..16).prop_map(B),
        2 => proptest::sample::select(vec!["", " ", "  ", "*", "=", ":", "a:b", "1,2,3", "Z:x", " lead", "trail ", "10M2D", "~!@#$%^&*()", "0", "-1", "1e5"]).prop_map(B::new),
        1 => proptest::collection::vec(0x20u8..=0x7e, 16..300).prop_map(B),
    ]
    .boxed()
}

fn hex_string() -> BoxedStrategy<B> {
    proptest::collection::vec(proptest::sample::select(b"0123456789ABCDEF".to_vec()), 0..16)
        .prop_map(|mut v| {
            if v.len() % 2 == 1 {
                v.pop();
            }
            B(v)
        })
        .boxed()
}

fn arr_len(mode: &Mode) -> BoxedStrategy<usize> {
    let (m, l) = (mode.max_array, mode.long_array.max(mode.max_array));
    let m1 = m.max(1);
    prop_oneof![mode.empty_array_weight.max(1) => Just(0usize), 8 => Just(1usize), 32 => 1..=m1, 4 => m1..=l.max(m1), 4 => proptest::sample::select(vec![255usize.min(l), 256.min(l), 257.min(l)])].boxed()
}

pub fn aux_value(mode: &Mode) -> BoxedStrategy<AuxValue> {
    let finite = mode.target != Target::Bam;
    let n = arr_len(mode);
    macro_rules! arr {
        ($s:expr, $v:path) => {
            n.clone().prop_flat_map(move |k| proptest::collection::vec($s, k..=k)).prop_map($v)
        };
    }
    prop_oneof![
        2 => (b'!'..=b'~').prop_map(AuxValue::Char),
        2 => i8s().prop_map(AuxValue::I8),
        2 => u8s().prop_map(AuxValue::U8),
        2 => i16s().prop_map(AuxValue::I16),
        2 => u16s().prop_map(AuxValue::U16),
        2 => i32s().prop_map(AuxValue::I32),
        2 => u32s().prop_map(AuxValue::U32),
        3 => f32_bits(finite).prop_map(AuxValue::F32),
        3 => printable_string().prop_map(AuxValue::Str),
        2 => hex_string().prop_map(AuxValue::Hex),
        1 => arr!(i8s(), AuxValue::ArrI8),
        1 => arr!(u8s(), AuxValue::ArrU8),
        1 => arr!(i16s(), AuxValue::ArrI16),
        1 => arr!(u16s(), AuxValue::ArrU16),
        1 => arr!(i32s(), AuxValue::ArrI32),
        1 => arr!(u32s(), AuxValue::ArrU32),
        2 => arr!(f32_bits(finite), AuxValue::ArrF32),
    ]
    .boxed()
}

pub fn aux_fields(mode: &Mode) -> BoxedStrategy<Vec<(Tag, AuxValue)>> {
    let m = mode.max_aux;
    prop_oneof![
        2 => Just(Vec::new()),
        8 => proptest::collection::vec((aux_tag(), aux_value(mode)), 1..=m.max(1)),
        1 => proptest::collection::vec((aux_tag(), aux_value(mode)), m.max(1)..=m.max(1) * 4),
    ]
    .prop_map(|v| dedup_by_key(v, |x| x.0))
    .boxed()
}

#[derive(Clone, Copy, Debug)]
enum SeqChoice {
    Missing,
    /// the CIGAR's read length (or `free_len` when the CIGAR consumes no read base)
    Fitting,
}

/// Records whose reference ids are *selectors* (`0..=65535`, to be mapped with
/// [`AlnRecord::resolve_refs`]). Use [`record`] unless you build documents yourself.
pub fn record_proto(mode: &Mode) -> BoxedStrategy<AlnRecord> {
    let target = mode.target;
    let ref_sel = || prop_oneof![1 => Just(None), 4 => any::<u16>().prop_map(|s| Some(s as u64))];
    let pos = |m: &Mode| prop_oneof![1 => Just(None), 5 => position_strategy(m.max_pos, m.boundary_positions).prop_map(Some)];
    let flags = prop_oneof![
        3 => proptest::sample::select(vec![0u16, 4, 16, 77, 141, 99, 147, 83, 163, 256, 2048, 1024, 512, 0xfff, 0x800, 0x400, 1]),
        3 => 0u16..0x1000,
    ];
    let mapq = prop_oneof![1 => Just(None), 2 => proptest::sample::select(vec![0u8, 1, 60, 254]).prop_map(Some), 3 => (0u8..=254).prop_map(Some)];
    let tlen = prop_oneof![
        3 => Just(0i32),
        3 => -2000i32..2000,
        2 => proptest::sample::select(vec![i32::MIN, i32::MIN + 1, -1, 1, i32::MAX, i32::MAX - 1, 1 << 29, -(1 << 29)]),
        1 => any::<i32>(),
    ];
    let seq_choice = prop_oneof![1 => Just(SeqChoice::Missing), 5 => Just(SeqChoice::Fitting)];
    let free_len = prop_oneof![4 => 0usize..=12, 1 => 12usize..=120];
    let qual_present = prop_oneof![1 => Just(false), 3 => Just(true)];
    (
        (name_strategy(mode.names), flags, ref_sel(), pos(mode), mapq, cigar_strategy(mode)),
        (ref_sel(), pos(mode), tlen, prop_oneof![3 => Just(false), 1 => Just(true)]),
        (seq_choice, free_len, base_pool(target), qual_present, qual_pool(), any::<u32>()),
        aux_fields(mode),
    )
        .prop_map(move |((name, flags, ref_id, pos, mapq, cigar), (mate_ref, mate_pos, tlen, mate_same), (seq_choice, free_len, bases, qual_present, quals, seed), aux)| {
            let huge = matches!(cigar, CigarSpec::Huge { .. });
            let mut r = AlnRecord { name, flags, ref_id, pos, mapq, cigar, mate_ref_id: if mate_same { ref_id } else { mate_ref }, mate_pos, tlen, aux, ..AlnRecord::default() };
            let read_len = r.read_len() as usize;
            let want = match seq_choice {
                SeqChoice::Missing => 0,
                SeqChoice::Fitting => {
                    if read_len > 0 {
                        read_len
                    } else {
                        free_len
                    }
                }
            };
            if huge {
                if want > 0 {
                    r.seq = SeqSpec::Auto { seed };
                    if qual_present {
                        r.qual = QualSpec::Auto { seed: seed ^ 0x5a5a };
                    }
                }
            } else {
                let seq: Vec<u8> = (0..want).map(|i| bases[i % bases.len()]).collect();
                let mut q: Vec<u8> = if qual_present { (0..want).map(|i| quals[i % quals.len()]).collect() } else { Vec::new() };
                if target != Target::Bam && q == [9] {
                    // SAM renders this as `*` = missing; not representable in SAM text
                    q = vec![10];
                }
                r.seq = SeqSpec::Bases(B(seq));
                r.qual = QualSpec::Scores(q);
            }
            r
        })
        .boxed()
}

impl AlnRecord {
    /// Map reference-id selectors (as produced by [`record_proto`]) onto `0..n_ref`; with an
    /// empty dictionary both ids become missing.
    pub fn resolve_refs(mut self, n_ref: usize) -> AlnRecord {
        let f = |s: Option<u64>| match s {
            Some(sel) if n_ref > 0 => Some(pick_idx(sel.min(65535) as u16, n_ref) as u64),
            _ => None,
        };
        self.ref_id = f(self.ref_id);
        self.mate_ref_id = f(self.mate_ref_id);
        self
    }
}

/// Records valid for `mode.target` against a header with `ctx.n_ref()` references.
pub fn record(ctx: &RefCtx, mode: &Mode) -> BoxedStrategy<AlnRecord> {
    let n = ctx.n_ref();
    record_proto(mode).prop_map(move |r| r.resolve_refs(n)).boxed()
}

/// A header plus `0..=max_records` records consistent with it.
pub fn document(hp: &HeaderParams, mode: &Mode, max_records: usize) -> BoxedStrategy<AlnDoc> {
    (header_with(hp), proptest::collection::vec(record_proto(mode), 0..=max_records))
        .prop_map(|(header, records)| {
            let n = header.n_ref();
            AlnDoc { header, records: records.into_iter().map(|r| r.resolve_refs(n)).collect() }
        })
        .boxed()
}

/// As [`document`] with at least `min_records` records.
pub fn document_n(hp: &HeaderParams, mode: &Mode, min_records: usize, max_records: usize) -> BoxedStrategy<AlnDoc> {
    (header_with(hp), proptest::collection::vec(record_proto(mode), min_records..=max_records.max(min_records)))
        .prop_map(|(header, records)| {
            let n = header.n_ref();
            AlnDoc { header, records: records.into_iter().map(|r| r.resolve_refs(n)).collect() }
        })
        .boxed()
}

// ---------------------------------------------------------------------------------------------
// validity predicates (what the generators promise; usable as assertions by consumers)
// ---------------------------------------------------------------------------------------------

/// `None` when `r` is inside the domain the writers for `target` must accept (given `n_ref`
/// references); otherwise the first reason it is not.
pub fn invalid_reason(r: &AlnRecord, n_ref: usize, target: Target) -> Option<String> {
    let sam = target != Target::Bam;
    if let Some(n) = &r.name {
        if n.0.is_empty() || n.0.len() > 254 {
            return Some(format!("name length {}", n.0.len()));
        }
        if n.0 == b"*" {
            return Some("name `*`".into());
        }
        if !n.0.iter().all(|b| b.is_ascii_graphic() && *b != b'@') {
            return Some("name byte outside [!-?A-~]".into());
        }
    }
    if r.flags >= 0x1000 {
        return Some("undefined flag bit".into());
    }
    for (what, id) in [("reference", r.ref_id), ("mate reference", r.mate_ref_id)] {
        if let Some(i) = id {
            if i as usize >= n_ref {
                return Some(format!("{what} id {i} >= n_ref {n_ref}"));
            }
        }
    }
    for (what, p) in [("position", r.pos), ("mate position", r.mate_pos)] {
        if let Some(p) = p {
            if p == 0 || p > (if sam { (1u64 << 31) - 1 } else { 1u64 << 31 }) {
                return Some(format!("{what} {p}"));
            }
        }
    }
    if r.mapq == Some(255) {
        return Some("mapq 255 as a value".into());
    }
    let ops = r.cigar_ops();
    if ops.iter().any(|(k, l)| *k > 8 || *l > (1 << 28) - 1) {
        return Some("CIGAR op".into());
    }
    let (bases, quals, read_len) = (r.bases(), r.quals(), r.read_len() as usize);
    if !bases.is_empty() && read_len > 0 && bases.len() != read_len {
        return Some(format!("sequence length {} vs CIGAR read length {read_len}", bases.len()));
    }
    if sam && !bases.iter().all(|b| b.is_ascii_alphabetic() || *b == b'=' || *b == b'.') {
        return Some("base outside [A-Za-z=.]".into());
    }
    if !quals.is_empty() && quals.len() != bases.len() {
        return Some("quality length".into());
    }
    if quals.iter().any(|q| *q > 93) {
        return Some("quality > 93".into());
    }
    if sam && quals == [9] {
        return Some("single quality 9 renders as `*`".into());
    }
    for (i, (t, v)) in r.aux.iter().enumerate() {
        if !(t.0[0].is_ascii_alphabetic() && t.0[1].is_ascii_alphanumeric()) {
            return Some(format!("aux tag {t:?}"));
        }
        if &t.0 == b"CG" {
            return Some("aux tag CG is reserved".into());
        }
        if r.aux[..i].iter().any(|(u, _)| u == t) {
            return Some(format!("duplicate aux tag {t:?}"));
        }
        match v {
            AuxValue::Char(c) if !c.is_ascii_graphic() => return Some("aux char".into()),
            AuxValue::Str(s) if !s.0.iter().all(|b| (0x20..=0x7e).contains(b)) => return Some("aux string".into()),
            AuxValue::Hex(s) if s.0.len() % 2 != 0 || !s.0.iter().all(|b| b.is_ascii_digit() || (b'A'..=b'F').contains(b)) => return Some("aux hex".into()),
            AuxValue::Int(n) if *n < i32::MIN as i64 || *n > u32::MAX as i64 => return Some("aux int range".into()),
            _ => {}
        }
        if sam && v.has_nonfinite_float() {
            return Some("non-finite float in SAM".into());
        }
    }
    None
}

/// Header validity for both writers (SAMv1 §1.3 grammar as the noodles writer checks it).
pub fn header_invalid_reason(h: &AlnHeader) -> Option<String> {
    fn fields_ok(f: &Fields, reserved: &[&[u8; 2]]) -> Option<String> {
        for (i, (t, v)) in f.iter().enumerate() {
            if !(t.0[0].is_ascii_alphabetic() && t.0[1].is_ascii_alphanumeric()) {
                return Some(format!("tag {t:?}"));
            }
            if reserved.iter().any(|r| **r == t.0) {
                return Some(format!("tag {t:?} is reserved on this line"));
            }
            if f[..i].iter().any(|(u, _)| u == t) {
                return Some(format!("duplicate tag {t:?}"));
            }
            if v.0.is_empty() || !v.0.iter().all(|b| (0x20..=0x7e).contains(b)) {
                return Some(format!("value of {t:?}"));
            }
        }
        None
    }
    if let Some(hd) = &h.hd {
        if let Some(e) = fields_ok(&hd.other, &[b"VN"]) {
            return Some(format!("@HD {e}"));
        }
    }
    for (i, sq) in h.refs.iter().enumerate() {
        let n = &sq.name.0;
        let ok_char = |b: u8| b.is_ascii_graphic() && !b"\\,\"`'()[]{}<>".contains(&b);
        if n.is_empty() || n[0] == b'*' || n[0] == b'=' || !n.iter().all(|b| ok_char(*b)) {
            return Some(format!("@SQ name {:?}", sq.name));
        }
        if sq.len == 0 || sq.len > (1 << 31) - 1 {
            return Some(format!("@SQ length {}", sq.len));
        }
        if h.refs[..i].iter().any(|o| o.name == sq.name) {
            return Some("duplicate @SQ name".into());
        }
        if let Some(e) = fields_ok(&sq.other, &[b"SN", b"LN"]) {
            return Some(format!("@SQ {e}"));
        }
    }
    for (what, lines) in [("@RG", &h.read_groups), ("@PG", &h.programs)] {
        for (i, l) in lines.iter().enumerate() {
            if l.id.0.is_empty() || !l.id.0.iter().all(|b| (0x20..=0x7e).contains(b)) {
                return Some(format!("{what} id"));
            }
            if lines[..i].iter().any(|o| o.id == l.id) {
                return Some(format!("duplicate {what} id"));
            }
            if let Some(e) = fields_ok(&l.other, &[b"ID"]) {
                return Some(format!("{what} {e}"));
            }
        }
    }
    if h.comments.iter().any(|c| c.0.contains(&b'\n') || c.0.contains(&b'\r')) {
        return Some("comment with a line terminator".into());
    }
    None
}

// ---------------------------------------------------------------------------------------------
// a record type that implements only the required methods of the alignment-record trait
// ---------------------------------------------------------------------------------------------

/// Wraps a `RecordBuf` and implements only the *required* methods of
/// `sam::alignment::Record`, so that writers take their generic code paths (`CigarRef::Cigar`,
/// `SequenceRef::Sequence`, `QualityScoresRef::QualityScores`, `DataRef::Data`) instead of the
/// shortcuts `RecordBuf`, `sam::Record` and `bam::Record` provide. This is how any third-party
/// record type reaches the writers.
pub struct GenericRecord<'a>(pub &'a RecordBuf);

impl sam::alignment::Record for GenericRecord<'_> {
    fn name(&self) -> Option<&bstr::BStr> {
        sam::alignment::Record::name(self.0)
    }
    fn flags(&self) -> std::io::Result<Flags> {
        sam::alignment::Record::flags(self.0)
    }
    fn reference_sequence_id<'r, 'h: 'r>(&'r self, header: &'h sam::Header) -> Option<std::io::Result<usize>> {
        sam::alignment::Record::reference_sequence_id(self.0, header)
    }
    fn alignment_start(&self) -> Option<std::io::Result<Position>> {
        sam::alignment::Record::alignment_start(self.0)
    }
    fn mapping_quality(&self) -> Option<std::io::Result<MappingQuality>> {
        sam::alignment::Record::mapping_quality(self.0)
    }
    fn cigar(&self) -> Box<dyn sam::alignment::record::Cigar + '_> {
        sam::alignment::Record::cigar(self.0)
    }
    fn mate_reference_sequence_id<'r, 'h: 'r>(&'r self, header: &'h sam::Header) -> Option<std::io::Result<usize>> {
        sam::alignment::Record::mate_reference_sequence_id(self.0, header)
    }
    fn mate_alignment_start(&self) -> Option<std::io::Result<Position>> {
        sam::alignment::Record::mate_alignment_start(self.0)
    }
    fn template_length(&self) -> std::io::Result<i32> {
        sam::alignment::Record::template_length(self.0)
    }
    fn sequence(&self) -> Box<dyn sam::alignment::record::Sequence + '_> {
        sam::alignment::Record::sequence(self.0)
    }
    fn quality_scores(&self) -> Box<dyn sam::alignment::record::QualityScores + '_> {
        sam::alignment::Record::quality_scores(self.0)
    }
    fn data(&self) -> Box<dyn sam::alignment::record::Data<'_> + '_> {
        sam::alignment::Record::data(self.0)
    }
}

// ---------------------------------------------------------------------------------------------
// independent SAM text: header parser and record line renderer (SAMv1 §1.3–§1.5)
// ---------------------------------------------------------------------------------------------

impl AlnHeader {
    /// Parse SAM header text with nothing but the grammar of SAMv1 §1.3: lines `@XX\tTAG:VALUE…`
    /// (any field order), `@CO\t<text>`. Lines are grouped by kind, keeping their relative order.
    pub fn from_text(text: &[u8]) -> Result<AlnHeader, String> {
        let mut h = AlnHeader::default();
        if text.is_empty() {
            return Ok(h);
        }
        if *text.last().unwrap_or(&0) != b'\n' {
            return Err("header text does not end with a line feed".into());
        }
        for (ln, line) in text[..text.len() - 1].split(|b| *b == b'\n').enumerate() {
            let err = |m: &str| format!("line {}: {m}: {:?}", ln + 1, B(line.to_vec()));
            if line.len() < 3 || line[0] != b'@' {
                return Err(err("not a header line"));
            }
            let kind = &line[1..3];
            if kind == b"CO" {
                if line.get(3) != Some(&b'\t') {
                    return Err(err("@CO without a tab"));
                }
                h.comments.push(B(line[4..].to_vec()));
                continue;
            }
            let mut fields: Fields = Vec::new();
            if line.len() > 3 {
                if line[3] != b'\t' {
                    return Err(err("no tab after the record type"));
                }
                for f in line[4..].split(|b| *b == b'\t') {
                    if f.len() < 4 || f[2] != b':' {
                        return Err(err("field is not TAG:VALUE with a non-empty value"));
                    }
                    fields.push((Tag([f[0], f[1]]), B(f[3..].to_vec())));
                }
            }
            let mut take = |t: &[u8; 2]| -> Result<B, String> {
                let idx: Vec<usize> = fields.iter().enumerate().filter(|(_, (u, _))| &u.0 == t).map(|(i, _)| i).collect();
                if idx.len() != 1 {
                    return Err(err(&format!("{} occurrences of {}", idx.len(), t.escape_ascii())));
                }
                Ok(fields.remove(idx[0]).1)
            };
            match kind {
                b"HD" => {
                    if ln != 0 {
                        return Err(err("@HD is not the first line"));
                    }
                    let vn = take(b"VN")?;
                    let s = String::from_utf8_lossy(&vn.0).to_string();
                    let (a, b) = s.split_once('.').ok_or_else(|| err("VN is not major.minor"))?;
                    let (major, minor) = (a.parse::<u32>().map_err(|_| err("VN major"))?, b.parse::<u32>().map_err(|_| err("VN minor"))?);
                    h.hd = Some(HdLine { major, minor, other: fields });
                }
                b"SQ" => {
                    let name = take(b"SN")?;
                    let ln_ = take(b"LN")?;
                    let len = String::from_utf8_lossy(&ln_.0).parse::<u64>().map_err(|_| err("LN"))?;
                    h.refs.push(SqLine { name, len, other: fields });
                }
                b"RG" => {
                    let id = take(b"ID")?;
                    h.read_groups.push(IdLine { id, other: fields });
                }
                b"PG" => {
                    let id = take(b"ID")?;
                    h.programs.push(IdLine { id, other: fields });
                }
                _ => return Err(err("unknown record type")),
            }
        }
        Ok(h)
    }
}

/// One expected token of a SAM record line.
#[derive(Clone, Debug, PartialEq)]
pub enum SamTok {
    /// the token must be exactly these bytes
    Exact(Vec<u8>),
    /// the token is `prefix` followed by comma-separated float literals (after a leading comma when
    /// `array`), each matching the SAM float grammar and denoting exactly these bit patterns
    Floats { prefix: Vec<u8>, bits: Vec<u32>, array: bool },
}

/// `[-+]?[0-9]*\.?[0-9]+([eE][-+]?[0-9]+)?` (SAMv1 §1.5)
pub fn is_sam_float(t: &[u8]) -> bool {
    let mut i = 0;
    if i < t.len() && (t[i] == b'-' || t[i] == b'+') {
        i += 1;
    }
    let d0 = i;
    while i < t.len() && t[i].is_ascii_digit() {
        i += 1;
    }
    let int_digits = i - d0;
    let mut frac_digits = 0;
    if i < t.len() && t[i] == b'.' {
        i += 1;
        let f0 = i;
        while i < t.len() && t[i].is_ascii_digit() {
            i += 1;
        }
        frac_digits = i - f0;
        if frac_digits == 0 {
            return false;
        }
    } else if int_digits == 0 {
        return false;
    }
    let _ = frac_digits;
    if i < t.len() && (t[i] == b'e' || t[i] == b'E') {
        i += 1;
        if i < t.len() && (t[i] == b'-' || t[i] == b'+') {
            i += 1;
        }
        let e0 = i;
        while i < t.len() && t[i].is_ascii_digit() {
            i += 1;
        }
        if i == e0 {
            return false;
        }
    }
    i == t.len()
}

/// The tokens a SAM writer must emit for `r` (tab-separated; SAMv1 §1.4/§1.5): everything is
/// determined byte for byte except the spelling of floating-point values.
pub fn sam_tokens(h: &AlnHeader, r: &AlnRecord) -> Result<Vec<SamTok>, String> {
    let ex = |s: String| SamTok::Exact(s.into_bytes());
    let rname = |id: Option<u64>| -> Result<Vec<u8>, String> {
        match id {
            None => Ok(b"*".to_vec()),
            Some(i) => h.refs.get(i as usize).map(|s| s.name.0.clone()).ok_or_else(|| format!("reference id {i} outside the dictionary")),
        }
    };
    let mut v = vec![
        SamTok::Exact(r.name.as_ref().map(|n| n.0.clone()).unwrap_or_else(|| b"*".to_vec())),
        ex(r.flags.to_string()),
        SamTok::Exact(rname(r.ref_id)?),
        ex(r.pos.unwrap_or(0).to_string()),
        ex(r.mapq.unwrap_or(255).to_string()),
        ex(r.cigar_string()),
        SamTok::Exact(if r.mate_ref_id.is_some() && r.mate_ref_id == r.ref_id { b"=".to_vec() } else { rname(r.mate_ref_id)? }),
        ex(r.mate_pos.unwrap_or(0).to_string()),
        ex(r.tlen.to_string()),
    ];
    let (bases, quals) = (r.bases(), r.quals());
    v.push(SamTok::Exact(if bases.is_empty() { b"*".to_vec() } else { bases }));
    v.push(SamTok::Exact(if quals.is_empty() { b"*".to_vec() } else { quals.iter().map(|q| q + 33).collect() }));
    for (t, val) in &r.aux {
        let mut p = t.0.to_vec();
        p.push(b':');
        let int_arr = |p: &mut Vec<u8>, c: u8, xs: Vec<String>| {
            p.extend_from_slice(b"B:");
            p.push(c);
            for x in xs {
                p.push(b',');
                p.extend_from_slice(x.as_bytes());
            }
        };
        match val {
            AuxValue::Char(c) => {
                p.extend_from_slice(b"A:");
                p.push(*c);
            }
            AuxValue::F32(b) => {
                p.extend_from_slice(b"f:");
                v.push(SamTok::Floats { prefix: p, bits: vec![*b], array: false });
                continue;
            }
            AuxValue::ArrF32(bs) => {
                p.extend_from_slice(b"B:f");
                v.push(SamTok::Floats { prefix: p, bits: bs.clone(), array: true });
                continue;
            }
            AuxValue::Str(s) => {
                p.extend_from_slice(b"Z:");
                p.extend_from_slice(&s.0);
            }
            AuxValue::Hex(s) => {
                p.extend_from_slice(b"H:");
                p.extend_from_slice(&s.0);
            }
            AuxValue::ArrI8(x) => int_arr(&mut p, b'c', x.iter().map(|n| n.to_string()).collect()),
            AuxValue::ArrU8(x) => int_arr(&mut p, b'C', x.iter().map(|n| n.to_string()).collect()),
            AuxValue::ArrI16(x) => int_arr(&mut p, b's', x.iter().map(|n| n.to_string()).collect()),
            AuxValue::ArrU16(x) => int_arr(&mut p, b'S', x.iter().map(|n| n.to_string()).collect()),
            AuxValue::ArrI32(x) => int_arr(&mut p, b'i', x.iter().map(|n| n.to_string()).collect()),
            AuxValue::ArrU32(x) => int_arr(&mut p, b'I', x.iter().map(|n| n.to_string()).collect()),
            other => {
                let n = other.as_int().ok_or("unexpected aux value")?;
                p.extend_from_slice(format!("i:{n}").as_bytes());
            }
        }
        v.push(SamTok::Exact(p));
    }
    Ok(v)
}

/// Compare one SAM record line (without the line feed) with the expected tokens. `Err((class,
/// message))`: class is `"columns"`, `"field<N>"` (1-based mandatory column), `"aux"` or `"float"`.
pub fn check_sam_line(line: &[u8], want: &[SamTok]) -> Result<(), (String, String)> {
    let toks: Vec<&[u8]> = line.split(|b| *b == b'\t').collect();
    if toks.len() != want.len() {
        return Err(("columns".into(), format!("{} tab-separated columns, expected {}: {:?}", toks.len(), want.len(), B(line.to_vec()))));
    }
    for (i, (t, w)) in toks.iter().zip(want).enumerate() {
        let class = if i < 11 { format!("field{}", i + 1) } else { "aux".to_string() };
        match w {
            SamTok::Exact(e) => {
                if *t != &e[..] {
                    return Err((class, format!("column {}: {:?}, expected {:?}", i + 1, B(t.to_vec()), B(e.clone()))));
                }
            }
            SamTok::Floats { prefix, bits, array } => {
                let Some(rest) = t.strip_prefix(&prefix[..]) else {
                    return Err((class, format!("column {}: {:?} does not start with {:?}", i + 1, B(t.to_vec()), B(prefix.clone()))));
                };
                let lits: Vec<&[u8]> = if *array {
                    if rest.is_empty() {
                        vec![]
                    } else if rest[0] != b',' {
                        return Err((class, format!("column {}: {:?}: no comma after the subtype", i + 1, B(t.to_vec()))));
                    } else {
                        rest[1..].split(|b| *b == b',').collect()
                    }
                } else {
                    vec![rest]
                };
                if lits.len() != bits.len() {
                    return Err((class, format!("column {}: {} float literals, expected {}", i + 1, lits.len(), bits.len())));
                }
                for (l, b) in lits.iter().zip(bits) {
                    let s = String::from_utf8_lossy(l);
                    if !is_sam_float(l) {
                        return Err(("float".into(), format!("column {}: {s:?} is not a SAM float literal (value bits 0x{b:08x} = {:e})", i + 1, f32::from_bits(*b))));
                    }
                    match s.parse::<f32>() {
                        Ok(x) if x.to_bits() == *b => {}
                        other => return Err(("float".into(), format!("column {}: literal {s:?} denotes {other:?}, the value is {:e} (bits 0x{b:08x})", i + 1, f32::from_bits(*b)))),
                    }
                }
            }
        }
    }
    Ok(())
}
