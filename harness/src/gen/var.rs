//! G-varhdr / G-var — shared generator for VCF/BCF headers and header-consistent records.
//!
//! Layout of this module
//!   1. plain serialisable model types (`VarHeader`, `VarRecord`, `InfoValue`, `SampleValue`, …)
//!   2. conversions model → noodles (`to_noodles`) and noodles → model (`from_noodles`,
//!      `from_record_buf`, `from_variant_record` = accessor sweep over any `variant::Record`)
//!   3. normal forms and comparison helpers (`normalised`, `first_diff`), `canonical_text`
//!   4. strategies: `header(tier, &Mode)`, `record(&VarHeader, &Mode)`, `document(tier, &Mode)`
//!   5. helpers: `sort_records`, `harness_span`, `expected_string_indices`
//!
//! No property-specific logic lives here. The only noodles-specific knowledge is the *domain*:
//! what the writers accept (see `Mode`) and, under `Mode::hazard_permille`, value classes that are
//! inside the formats' domain but that the pinned noodles tree is known to mishandle (the list is
//! documented at `Hazard`); with `hazard_permille = 0` none of them is produced.

use crate::engine::{Tier, pick_idx};
use noodles_core::Position;
use noodles_vcf as vcf;
use proptest::prelude::*;
use serde::{Deserialize, Serialize};
use std::collections::BTreeSet;

// ------------------------------------------------------------------------------------------------
// 1. model
// ------------------------------------------------------------------------------------------------

#[derive(Clone, Copy, Debug, PartialEq, Eq, Serialize, Deserialize)]
pub enum Num {
    Count(u32),
    A,
    R,
    G,
    Unknown,
    /// FORMAT only (noodles `format::Number` has them; the text parser does not): LA LR LG P M
    LA,
    LR,
    LG,
    P,
    M,
}

#[derive(Clone, Copy, Debug, PartialEq, Eq, Serialize, Deserialize)]
pub enum Ty {
    Integer,
    Float,
    Flag,
    Character,
    String,
}

#[derive(Clone, Debug, PartialEq, Eq, Serialize, Deserialize)]
pub struct FieldDef {
    pub id: String,
    pub number: Num,
    pub ty: Ty,
    pub description: String,
    pub idx: Option<u32>,
    pub extra: Vec<(String, String)>,
}

#[derive(Clone, Debug, PartialEq, Eq, Serialize, Deserialize)]
pub struct FilterDef {
    pub id: String,
    pub description: String,
    pub idx: Option<u32>,
    pub extra: Vec<(String, String)>,
}

#[derive(Clone, Debug, PartialEq, Eq, Serialize, Deserialize)]
pub struct AltDef {
    pub id: String,
    pub description: String,
    pub extra: Vec<(String, String)>,
}

#[derive(Clone, Debug, PartialEq, Eq, Serialize, Deserialize)]
pub struct ContigDef {
    pub id: String,
    pub length: Option<u64>,
    pub md5: Option<String>,
    pub url: Option<String>,
    pub idx: Option<u32>,
    pub extra: Vec<(String, String)>,
}

#[derive(Clone, Debug, PartialEq, Eq, Serialize, Deserialize)]
pub enum OtherValue {
    /// `##key=value`
    Text(String),
    /// `##key=<ID=id,k="v",…>` (for key META: Type/Number/Values are written unquoted)
    Map { id: String, fields: Vec<(String, String)> },
}

#[derive(Clone, Debug, PartialEq, Eq, Serialize, Deserialize)]
pub struct OtherDef {
    pub key: String,
    pub value: OtherValue,
}

#[derive(Clone, Debug, PartialEq, Eq, Serialize, Deserialize)]
pub struct VarHeader {
    /// fileformat VCFv4.<minor>
    pub minor: u32,
    pub infos: Vec<FieldDef>,
    pub filters: Vec<FilterDef>,
    pub formats: Vec<FieldDef>,
    pub alts: Vec<AltDef>,
    pub contigs: Vec<ContigDef>,
    pub others: Vec<OtherDef>,
    pub samples: Vec<String>,
}

/// Floats are carried as bit patterns so that NaN payloads serialise and compare exactly.
pub type F32Bits = u32;

#[derive(Clone, Debug, PartialEq, Eq, Serialize, Deserialize)]
pub enum InfoValue {
    Flag,
    Integer(i32),
    Float(F32Bits),
    Character(char),
    String(String),
    IntArray(Vec<Option<i32>>),
    FloatArray(Vec<Option<F32Bits>>),
    CharArray(Vec<Option<char>>),
    StrArray(Vec<Option<String>>),
}

/// One GT allele: (allele index or missing, phased-with-previous).
pub type Allele = (Option<u32>, bool);

#[derive(Clone, Debug, PartialEq, Eq, Serialize, Deserialize)]
pub enum SampleValue {
    Integer(i32),
    Float(F32Bits),
    Character(char),
    String(String),
    Genotype(Vec<Allele>),
    IntArray(Vec<Option<i32>>),
    FloatArray(Vec<Option<F32Bits>>),
    CharArray(Vec<Option<char>>),
    StrArray(Vec<Option<String>>),
}

#[derive(Clone, Debug, PartialEq, Eq, Serialize, Deserialize)]
pub struct VarRecord {
    pub chrom: String,
    /// 0 = telomere (`None` in noodles)
    pub pos: u32,
    pub ids: Vec<String>,
    pub reference: String,
    pub alts: Vec<String>,
    pub qual: Option<F32Bits>,
    /// empty = missing; `["PASS"]`; or one or more filter ids
    pub filters: Vec<String>,
    pub info: Vec<(String, Option<InfoValue>)>,
    pub format: Vec<String>,
    /// one row per sample; a row may be shorter than `format` (trailing fields dropped)
    pub samples: Vec<Vec<Option<SampleValue>>>,
}

#[derive(Clone, Debug, PartialEq, Eq, Serialize, Deserialize)]
pub struct VarDoc {
    pub header: VarHeader,
    pub records: Vec<VarRecord>,
}

pub const CANONICAL_NAN: u32 = 0x7FC0_0000;
pub const BCF_FLOAT_MISSING: u32 = 0x7F80_0001;
pub const BCF_FLOAT_EOV: u32 = 0x7F80_0002;
/// smallest integer BCF can store as a value
pub const BCF_INT_MIN: i32 = i32::MIN + 8;

pub fn is_nan_bits(b: u32) -> bool {
    f32::from_bits(b).is_nan()
}

/// 0x7F800001..=0x7F800007: missing, end-of-vector and the reserved range of BCF2.
pub fn is_bcf_reserved_float(b: u32) -> bool {
    (0x7F80_0001..=0x7F80_0007).contains(&b)
}

impl VarHeader {
    pub fn file_format(&self) -> vcf::header::FileFormat {
        vcf::header::FileFormat::new(4, self.minor)
    }
    pub fn info(&self, id: &str) -> Option<&FieldDef> {
        self.infos.iter().find(|d| d.id == id)
    }
    pub fn format(&self, id: &str) -> Option<&FieldDef> {
        self.formats.iter().find(|d| d.id == id)
    }
    pub fn contig_index(&self, id: &str) -> Option<usize> {
        self.contigs.iter().position(|c| c.id == id)
    }
    /// (number, type) that governs how an INFO key parses: header entry, else the reserved
    /// definition of the file format (4.3+), else None (untyped: String / Flag).
    pub fn info_typing(&self, id: &str) -> Option<(Num, Ty)> {
        self.info(id).map(|d| (d.number, d.ty)).or_else(|| reserved_info_def(self.minor, id))
    }
    pub fn format_typing(&self, id: &str) -> Option<(Num, Ty)> {
        self.format(id).map(|d| (d.number, d.ty)).or_else(|| reserved_format_def(self.minor, id))
    }
}

// ------------------------------------------------------------------------------------------------
// reserved definitions (taken from noodles' own tables through its public `From` impls: they
// define what the header parser accepts for these ids, so they are domain, not oracle)
// ------------------------------------------------------------------------------------------------

fn num_from_info(n: vcf::header::record::value::map::info::Number) -> Num {
    use vcf::header::record::value::map::info::Number as N;
    match n {
        N::Count(k) => Num::Count(k as u32),
        N::AlternateBases => Num::A,
        N::ReferenceAlternateBases => Num::R,
        N::Samples => Num::G,
        N::Unknown => Num::Unknown,
    }
}

fn num_to_info(n: Num) -> Option<vcf::header::record::value::map::info::Number> {
    use vcf::header::record::value::map::info::Number as N;
    Some(match n {
        Num::Count(k) => N::Count(k as usize),
        Num::A => N::AlternateBases,
        Num::R => N::ReferenceAlternateBases,
        Num::G => N::Samples,
        Num::Unknown => N::Unknown,
        _ => return None,
    })
}

fn num_from_format(n: vcf::header::record::value::map::format::Number) -> Num {
    use vcf::header::record::value::map::format::Number as N;
    match n {
        N::Count(k) => Num::Count(k as u32),
        N::AlternateBases => Num::A,
        N::ReferenceAlternateBases => Num::R,
        N::Samples => Num::G,
        N::Unknown => Num::Unknown,
        N::LocalAlternateBases => Num::LA,
        N::LocalReferenceAlternateBases => Num::LR,
        N::LocalSamples => Num::LG,
        N::Ploidy => Num::P,
        N::BaseModifications => Num::M,
    }
}

fn num_to_format(n: Num) -> vcf::header::record::value::map::format::Number {
    use vcf::header::record::value::map::format::Number as N;
    match n {
        Num::Count(k) => N::Count(k as usize),
        Num::A => N::AlternateBases,
        Num::R => N::ReferenceAlternateBases,
        Num::G => N::Samples,
        Num::Unknown => N::Unknown,
        Num::LA => N::LocalAlternateBases,
        Num::LR => N::LocalReferenceAlternateBases,
        Num::LG => N::LocalSamples,
        Num::P => N::Ploidy,
        Num::M => N::BaseModifications,
    }
}

fn ty_from_info(t: vcf::header::record::value::map::info::Type) -> Ty {
    use vcf::header::record::value::map::info::Type as T;
    match t {
        T::Integer => Ty::Integer,
        T::Float => Ty::Float,
        T::Flag => Ty::Flag,
        T::Character => Ty::Character,
        T::String => Ty::String,
    }
}

fn ty_to_info(t: Ty) -> vcf::header::record::value::map::info::Type {
    use vcf::header::record::value::map::info::Type as T;
    match t {
        Ty::Integer => T::Integer,
        Ty::Float => T::Float,
        Ty::Flag => T::Flag,
        Ty::Character => T::Character,
        Ty::String => T::String,
    }
}

fn ty_from_format(t: vcf::header::record::value::map::format::Type) -> Ty {
    use vcf::header::record::value::map::format::Type as T;
    match t {
        T::Integer => Ty::Integer,
        T::Float => Ty::Float,
        T::Character => Ty::Character,
        T::String => Ty::String,
    }
}

fn ty_to_format(t: Ty) -> Option<vcf::header::record::value::map::format::Type> {
    use vcf::header::record::value::map::format::Type as T;
    Some(match t {
        Ty::Integer => T::Integer,
        Ty::Float => T::Float,
        Ty::Character => T::Character,
        Ty::String => T::String,
        Ty::Flag => return None,
    })
}

/// Reserved INFO definition in VCFv4.<minor> (None before 4.3, where noodles has no table).
pub fn reserved_info_def(minor: u32, id: &str) -> Option<(Num, Ty)> {
    if minor < 3 {
        return None;
    }
    reserved_info_def_any(minor, id)
}

fn reserved_info_def_any(minor: u32, id: &str) -> Option<(Num, Ty)> {
    use vcf::header::record::value::{Map, map::Info};
    let m = Map::<Info>::from((vcf::header::FileFormat::new(4, minor.clamp(3, 5)), id));
    if m.description().is_empty() { None } else { Some((num_from_info(m.number()), ty_from_info(m.ty()))) }
}

pub fn reserved_format_def(minor: u32, id: &str) -> Option<(Num, Ty)> {
    if minor < 3 {
        return None;
    }
    reserved_format_def_any(minor, id)
}

fn reserved_format_def_any(minor: u32, id: &str) -> Option<(Num, Ty)> {
    use vcf::header::record::value::{Map, map::Format};
    let m = Map::<Format>::from((vcf::header::FileFormat::new(4, minor.clamp(3, 5)), id));
    if m.description().is_empty() { None } else { Some((num_from_format(m.number()), ty_from_format(m.ty()))) }
}

pub const RESERVED_INFO_IDS: [&str; 20] =
    ["END", "SVLEN", "DP", "AF", "AC", "AN", "DB", "SVTYPE", "CIPOS", "AA", "H2", "NS", "SB", "MQ", "1000G", "IMPRECISE", "CIGAR", "MATEID", "EVENT", "BQ"];
pub const RESERVED_FORMAT_IDS: [&str; 13] = ["GT", "DP", "GQ", "AD", "PL", "GL", "FT", "HQ", "PS", "LEN", "MQ", "EC", "GP"];

// ------------------------------------------------------------------------------------------------
// 2. conversions
// ------------------------------------------------------------------------------------------------

fn e2s<E: std::fmt::Display>(what: &str) -> impl Fn(E) -> String + '_ {
    move |e| format!("{what}: {e}")
}

impl VarHeader {
    /// Build the noodles header through its public builders. `Err` only for models outside the
    /// builder's domain (never for generated headers).
    pub fn to_noodles(&self) -> Result<vcf::Header, String> {
        use vcf::header::record::value::{
            Map,
            map::{AlternativeAllele, Contig, Filter, Format, Info, Other},
        };
        let mut b = vcf::Header::builder().set_file_format(self.file_format());
        for d in &self.infos {
            let number = num_to_info(d.number).ok_or_else(|| format!("INFO {} has a FORMAT-only Number", d.id))?;
            let mut m = Map::<Info>::new(number, ty_to_info(d.ty), d.description.clone());
            *m.idx_mut() = d.idx.map(|i| i as usize);
            for (k, v) in &d.extra {
                m.other_fields_mut().insert(k.parse().map_err(e2s("INFO extra tag"))?, v.clone());
            }
            b = b.add_info(d.id.clone(), m);
        }
        for d in &self.filters {
            let mut m = Map::<Filter>::new(d.description.clone());
            *m.idx_mut() = d.idx.map(|i| i as usize);
            for (k, v) in &d.extra {
                m.other_fields_mut().insert(k.parse().map_err(e2s("FILTER extra tag"))?, v.clone());
            }
            b = b.add_filter(d.id.clone(), m);
        }
        for d in &self.formats {
            let ty = ty_to_format(d.ty).ok_or_else(|| format!("FORMAT {} is a Flag", d.id))?;
            let mut m = Map::<Format>::new(num_to_format(d.number), ty, d.description.clone());
            *m.idx_mut() = d.idx.map(|i| i as usize);
            for (k, v) in &d.extra {
                m.other_fields_mut().insert(k.parse().map_err(e2s("FORMAT extra tag"))?, v.clone());
            }
            b = b.add_format(d.id.clone(), m);
        }
        for d in &self.alts {
            let mut m = Map::<AlternativeAllele>::new(d.description.clone());
            for (k, v) in &d.extra {
                m.other_fields_mut().insert(k.parse().map_err(e2s("ALT extra tag"))?, v.clone());
            }
            b = b.add_alternative_allele(d.id.clone(), m);
        }
        for d in &self.contigs {
            let mut m = Map::<Contig>::new();
            *m.length_mut() = d.length.map(|l| l as usize);
            *m.md5_mut() = d.md5.clone();
            *m.url_mut() = d.url.clone();
            *m.idx_mut() = d.idx.map(|i| i as usize);
            for (k, v) in &d.extra {
                m.other_fields_mut().insert(k.parse().map_err(e2s("contig extra tag"))?, v.clone());
            }
            b = b.add_contig(d.id.clone(), m);
        }
        for o in &self.others {
            let key: vcf::header::record::key::Other = o.key.parse().map_err(e2s("other record key"))?;
            let value = match &o.value {
                OtherValue::Text(s) => vcf::header::record::Value::String(s.clone()),
                OtherValue::Map { id, fields } => {
                    let mut m = Map::<Other>::new();
                    for (k, v) in fields {
                        m.other_fields_mut().insert(k.parse().map_err(e2s("other map tag"))?, v.clone());
                    }
                    vcf::header::record::Value::Map(id.clone(), m)
                }
            };
            b = b.insert(key, value).map_err(e2s("other record"))?;
        }
        for s in &self.samples {
            b = b.add_sample_name(s.clone());
        }
        Ok(b.build())
    }

    /// Model of a noodles header (string maps are not part of the model).
    pub fn from_noodles(h: &vcf::Header) -> VarHeader {
        use vcf::header::record::value::Collection;
        fn extras<T: AsRef<str>>(it: impl Iterator<Item = (T, String)>) -> Vec<(String, String)> {
            it.map(|(k, v)| (k.as_ref().to_string(), v)).collect()
        }
        VarHeader {
            minor: if h.file_format().major() == 4 { h.file_format().minor() } else { 1000 + h.file_format().major() },
            infos: h
                .infos()
                .iter()
                .map(|(id, m)| FieldDef {
                    id: id.clone(),
                    number: num_from_info(m.number()),
                    ty: ty_from_info(m.ty()),
                    description: m.description().to_string(),
                    idx: m.idx().map(|i| i as u32),
                    extra: extras(m.other_fields().iter().map(|(k, v)| (k.clone(), v.clone()))),
                })
                .collect(),
            filters: h
                .filters()
                .iter()
                .map(|(id, m)| FilterDef {
                    id: id.clone(),
                    description: m.description().to_string(),
                    idx: m.idx().map(|i| i as u32),
                    extra: extras(m.other_fields().iter().map(|(k, v)| (k.clone(), v.clone()))),
                })
                .collect(),
            formats: h
                .formats()
                .iter()
                .map(|(id, m)| FieldDef {
                    id: id.clone(),
                    number: num_from_format(m.number()),
                    ty: ty_from_format(m.ty()),
                    description: m.description().to_string(),
                    idx: m.idx().map(|i| i as u32),
                    extra: extras(m.other_fields().iter().map(|(k, v)| (k.clone(), v.clone()))),
                })
                .collect(),
            alts: h
                .alternative_alleles()
                .iter()
                .map(|(id, m)| AltDef {
                    id: id.clone(),
                    description: m.description().to_string(),
                    extra: extras(m.other_fields().iter().map(|(k, v)| (k.clone(), v.clone()))),
                })
                .collect(),
            contigs: h
                .contigs()
                .iter()
                .map(|(id, m)| ContigDef {
                    id: id.clone(),
                    length: m.length().map(|l| l as u64),
                    md5: m.md5().map(String::from),
                    url: m.url().map(String::from),
                    idx: m.idx().map(|i| i as u32),
                    extra: extras(m.other_fields().iter().map(|(k, v)| (k.clone(), v.clone()))),
                })
                .collect(),
            others: h
                .other_records()
                .iter()
                .flat_map(|(key, coll)| -> Vec<OtherDef> {
                    match coll {
                        Collection::Unstructured(vs) => vs.iter().map(|v| OtherDef { key: key.as_ref().to_string(), value: OtherValue::Text(v.clone()) }).collect(),
                        Collection::Structured(maps) => maps
                            .iter()
                            .map(|(id, m)| OtherDef {
                                key: key.as_ref().to_string(),
                                value: OtherValue::Map { id: id.clone(), fields: extras(m.other_fields().iter().map(|(k, v)| (k.clone(), v.clone()))) },
                            })
                            .collect(),
                    }
                })
                .collect(),
            samples: h.sample_names().iter().cloned().collect(),
        }
    }

    /// `others` grouped the way noodles stores them (all values of one key together, in order of
    /// the key's first appearance) — the normal form for header comparison.
    pub fn normalised(&self) -> VarHeader {
        let mut h = self.clone();
        let mut keys: Vec<String> = Vec::new();
        for o in &self.others {
            if !keys.contains(&o.key) {
                keys.push(o.key.clone());
            }
        }
        h.others = keys.iter().flat_map(|k| self.others.iter().filter(move |o| &o.key == k).cloned()).collect();
        h
    }
}

fn f(b: F32Bits) -> f32 {
    f32::from_bits(b)
}

impl InfoValue {
    pub fn to_noodles(&self) -> vcf::variant::record_buf::info::field::Value {
        use vcf::variant::record_buf::info::field::{Value as V, value::Array as A};
        match self {
            InfoValue::Flag => V::Flag,
            InfoValue::Integer(n) => V::Integer(*n),
            InfoValue::Float(b) => V::Float(f(*b)),
            InfoValue::Character(c) => V::Character(*c),
            InfoValue::String(s) => V::String(s.clone()),
            InfoValue::IntArray(v) => V::Array(A::Integer(v.clone())),
            InfoValue::FloatArray(v) => V::Array(A::Float(v.iter().map(|x| x.map(f)).collect())),
            InfoValue::CharArray(v) => V::Array(A::Character(v.clone())),
            InfoValue::StrArray(v) => V::Array(A::String(v.clone())),
        }
    }
    pub fn from_noodles(v: &vcf::variant::record_buf::info::field::Value) -> InfoValue {
        use vcf::variant::record_buf::info::field::{Value as V, value::Array as A};
        match v {
            V::Flag => InfoValue::Flag,
            V::Integer(n) => InfoValue::Integer(*n),
            V::Float(x) => InfoValue::Float(x.to_bits()),
            V::Character(c) => InfoValue::Character(*c),
            V::String(s) => InfoValue::String(s.clone()),
            V::Array(A::Integer(v)) => InfoValue::IntArray(v.clone()),
            V::Array(A::Float(v)) => InfoValue::FloatArray(v.iter().map(|x| x.map(f32::to_bits)).collect()),
            V::Array(A::Character(v)) => InfoValue::CharArray(v.clone()),
            V::Array(A::String(v)) => InfoValue::StrArray(v.clone()),
        }
    }
    /// Sweep of a borrowed (lazy) value through the `variant::record` trait objects.
    pub fn from_lazy(v: &vcf::variant::record::info::field::Value<'_>) -> Result<InfoValue, String> {
        use vcf::variant::record::info::field::{Value as V, value::Array as A};
        Ok(match v {
            V::Flag => InfoValue::Flag,
            V::Integer(n) => InfoValue::Integer(*n),
            V::Float(x) => InfoValue::Float(x.to_bits()),
            V::Character(c) => InfoValue::Character(*c),
            V::String(s) => InfoValue::String(s.to_string()),
            V::Array(A::Integer(vs)) => InfoValue::IntArray(vs.iter().collect::<Result<Vec<_>, _>>().map_err(e2s("info int array element"))?),
            V::Array(A::Float(vs)) => {
                InfoValue::FloatArray(vs.iter().map(|r| r.map(|o| o.map(f32::to_bits))).collect::<Result<Vec<_>, _>>().map_err(e2s("info float array element"))?)
            }
            V::Array(A::Character(vs)) => InfoValue::CharArray(vs.iter().collect::<Result<Vec<_>, _>>().map_err(e2s("info char array element"))?),
            V::Array(A::String(vs)) => {
                InfoValue::StrArray(vs.iter().map(|r| r.map(|o| o.map(|s| s.to_string()))).collect::<Result<Vec<_>, _>>().map_err(e2s("info string array element"))?)
            }
        })
    }
}

impl SampleValue {
    pub fn to_noodles(&self) -> vcf::variant::record_buf::samples::sample::Value {
        use vcf::variant::record::samples::series::value::genotype::Phasing;
        use vcf::variant::record_buf::samples::sample::{
            Value as V,
            value::{Array as A, Genotype, genotype::Allele as NA},
        };
        match self {
            SampleValue::Integer(n) => V::Integer(*n),
            SampleValue::Float(b) => V::Float(f(*b)),
            SampleValue::Character(c) => V::Character(*c),
            SampleValue::String(s) => V::String(s.clone()),
            SampleValue::Genotype(al) => V::Genotype(
                al.iter().map(|(p, ph)| NA::new(p.map(|x| x as usize), if *ph { Phasing::Phased } else { Phasing::Unphased })).collect::<Genotype>(),
            ),
            SampleValue::IntArray(v) => V::Array(A::Integer(v.clone())),
            SampleValue::FloatArray(v) => V::Array(A::Float(v.iter().map(|x| x.map(f)).collect())),
            SampleValue::CharArray(v) => V::Array(A::Character(v.clone())),
            SampleValue::StrArray(v) => V::Array(A::String(v.clone())),
        }
    }
    pub fn from_noodles(v: &vcf::variant::record_buf::samples::sample::Value) -> SampleValue {
        use vcf::variant::record::samples::series::value::genotype::Phasing;
        use vcf::variant::record_buf::samples::sample::{Value as V, value::Array as A};
        match v {
            V::Integer(n) => SampleValue::Integer(*n),
            V::Float(x) => SampleValue::Float(x.to_bits()),
            V::Character(c) => SampleValue::Character(*c),
            V::String(s) => SampleValue::String(s.clone()),
            V::Genotype(g) => SampleValue::Genotype(g.as_ref().iter().map(|a| (a.position().map(|p| p.min(u32::MAX as usize) as u32), a.phasing() == Phasing::Phased)).collect()),
            V::Array(A::Integer(v)) => SampleValue::IntArray(v.clone()),
            V::Array(A::Float(v)) => SampleValue::FloatArray(v.iter().map(|x| x.map(f32::to_bits)).collect()),
            V::Array(A::Character(v)) => SampleValue::CharArray(v.clone()),
            V::Array(A::String(v)) => SampleValue::StrArray(v.clone()),
        }
    }
    pub fn from_lazy(v: &vcf::variant::record::samples::series::Value<'_>) -> Result<SampleValue, String> {
        use vcf::variant::record::samples::series::{Value as V, value::Array as A, value::genotype::Phasing};
        Ok(match v {
            V::Integer(n) => SampleValue::Integer(*n),
            V::Float(x) => SampleValue::Float(x.to_bits()),
            V::Character(c) => SampleValue::Character(*c),
            V::String(s) => SampleValue::String(s.to_string()),
            V::Genotype(g) => SampleValue::Genotype(
                g.iter()
                    .map(|r| r.map(|(p, ph)| (p.map(|x| x.min(u32::MAX as usize) as u32), ph == Phasing::Phased)))
                    .collect::<Result<Vec<_>, _>>()
                    .map_err(e2s("genotype allele"))?,
            ),
            V::Array(A::Integer(vs)) => SampleValue::IntArray(vs.iter().collect::<Result<Vec<_>, _>>().map_err(e2s("sample int array element"))?),
            V::Array(A::Float(vs)) => {
                SampleValue::FloatArray(vs.iter().map(|r| r.map(|o| o.map(f32::to_bits))).collect::<Result<Vec<_>, _>>().map_err(e2s("sample float array element"))?)
            }
            V::Array(A::Character(vs)) => SampleValue::CharArray(vs.iter().collect::<Result<Vec<_>, _>>().map_err(e2s("sample char array element"))?),
            V::Array(A::String(vs)) => {
                SampleValue::StrArray(vs.iter().map(|r| r.map(|o| o.map(|s| s.to_string()))).collect::<Result<Vec<_>, _>>().map_err(e2s("sample string array element"))?)
            }
        })
    }
}

impl VarRecord {
    pub fn to_noodles(&self) -> vcf::variant::RecordBuf {
        use vcf::variant::record_buf::{AlternateBases, Samples};
        let mut r = vcf::variant::RecordBuf::default();
        *r.reference_sequence_name_mut() = self.chrom.clone();
        *r.variant_start_mut() = Position::new(self.pos as usize);
        *r.ids_mut() = self.ids.iter().cloned().collect();
        *r.reference_bases_mut() = self.reference.clone();
        *r.alternate_bases_mut() = AlternateBases::from(self.alts.clone());
        *r.quality_score_mut() = self.qual.map(f);
        *r.filters_mut() = self.filters.iter().cloned().collect();
        *r.info_mut() = self.info.iter().map(|(k, v)| (k.clone(), v.as_ref().map(|v| v.to_noodles()))).collect();
        *r.samples_mut() = Samples::new(
            self.format.iter().cloned().collect(),
            self.samples.iter().map(|row| row.iter().map(|v| v.as_ref().map(|v| v.to_noodles())).collect()).collect(),
        );
        r
    }

    pub fn from_record_buf(r: &vcf::variant::RecordBuf) -> VarRecord {
        VarRecord {
            chrom: r.reference_sequence_name().to_string(),
            pos: r.variant_start().map(|p| usize::from(p).min(u32::MAX as usize) as u32).unwrap_or(0),
            ids: r.ids().as_ref().iter().cloned().collect(),
            reference: r.reference_bases().to_string(),
            alts: r.alternate_bases().as_ref().to_vec(),
            qual: r.quality_score().map(f32::to_bits),
            filters: r.filters().as_ref().iter().cloned().collect(),
            info: r.info().as_ref().iter().map(|(k, v)| (k.clone(), v.as_ref().map(InfoValue::from_noodles))).collect(),
            format: r.samples().keys().as_ref().iter().cloned().collect(),
            samples: r.samples().values().map(|s| s.values().iter().map(|v| v.as_ref().map(SampleValue::from_noodles)).collect()).collect(),
        }
    }

    /// Touch every accessor of any `variant::Record` (lazy `vcf::Record`, `bcf::Record`, or a
    /// `RecordBuf`) through the trait and build the model from what they return.
    pub fn from_variant_record(header: &vcf::Header, r: &dyn vcf::variant::Record) -> Result<VarRecord, String> {
        let chrom = r.reference_sequence_name(header).map_err(e2s("reference_sequence_name"))?.to_string();
        let pos = match r.variant_start() {
            None => 0,
            Some(p) => usize::from(p.map_err(e2s("variant_start"))?).min(u32::MAX as usize) as u32,
        };
        let ids_acc = r.ids();
        let ids: Vec<String> = ids_acc.iter().map(String::from).collect();
        if ids_acc.len() != ids.len() || ids_acc.is_empty() != ids.is_empty() {
            return Err(format!("ids: len()={} is_empty()={} but iter() yields {}", ids_acc.len(), ids_acc.is_empty(), ids.len()));
        }
        let ref_acc = r.reference_bases();
        let ref_bytes = ref_acc.iter().collect::<Result<Vec<u8>, _>>().map_err(e2s("reference_bases"))?;
        if ref_acc.len() != ref_bytes.len() || ref_acc.is_empty() != ref_bytes.is_empty() {
            return Err(format!("reference_bases: len()={} but iter() yields {}", ref_acc.len(), ref_bytes.len()));
        }
        let reference = String::from_utf8(ref_bytes).map_err(e2s("reference_bases utf8"))?;
        let alt_acc = r.alternate_bases();
        let alts = alt_acc.iter().map(|x| x.map(String::from)).collect::<Result<Vec<_>, _>>().map_err(e2s("alternate_bases"))?;
        if alt_acc.len() != alts.len() || alt_acc.is_empty() != alts.is_empty() {
            return Err(format!("alternate_bases: len()={} is_empty()={} but iter() yields {}", alt_acc.len(), alt_acc.is_empty(), alts.len()));
        }
        let qual = match r.quality_score() {
            None => None,
            Some(q) => Some(q.map_err(e2s("quality_score"))?.to_bits()),
        };
        let fil_acc = r.filters();
        let filters = fil_acc.iter(header).map(|x| x.map(String::from)).collect::<Result<Vec<_>, _>>().map_err(e2s("filters"))?;
        if fil_acc.len() != filters.len() || fil_acc.is_empty() != filters.is_empty() {
            return Err(format!("filters: len()={} is_empty()={} but iter() yields {}", fil_acc.len(), fil_acc.is_empty(), filters.len()));
        }
        let info_acc = r.info();
        let mut info = Vec::new();
        for item in info_acc.iter(header) {
            let (k, v) = item.map_err(e2s("info field"))?;
            let v = match v {
                None => None,
                Some(v) => Some(InfoValue::from_lazy(&v).map_err(|e| format!("info {k}: {e}"))?),
            };
            info.push((k.to_string(), v));
        }
        if info_acc.len() != info.len() || info_acc.is_empty() != info.is_empty() {
            return Err(format!("info: len()={} is_empty()={} but iter() yields {}", info_acc.len(), info_acc.is_empty(), info.len()));
        }
        let s_acc = r.samples().map_err(e2s("samples"))?;
        let format = s_acc.column_names(header).map(|x| x.map(String::from)).collect::<Result<Vec<_>, _>>().map_err(e2s("samples column_names"))?;
        let mut samples = Vec::new();
        for (si, sample) in s_acc.iter().enumerate() {
            let mut row = Vec::new();
            for item in sample.iter(header) {
                let (k, v) = item.map_err(|e| format!("sample {si} value: {e}"))?;
                if format.get(row.len()).map(|s| s.as_str()) != Some(k) {
                    return Err(format!("sample {si}: value {} is reported under key {k:?}, column names are {format:?}", row.len()));
                }
                let v = match v {
                    None => None,
                    Some(v) => Some(SampleValue::from_lazy(&v).map_err(|e| format!("sample {si} key {k}: {e}"))?),
                };
                row.push(v);
            }
            samples.push(row);
        }
        if s_acc.len() != samples.len() {
            return Err(format!("samples: len()={} but iter() yields {}", s_acc.len(), samples.len()));
        }
        Ok(VarRecord { chrom, pos, ids, reference, alts, qual, filters, info, format, samples })
    }
}

// ------------------------------------------------------------------------------------------------
// 3. normal forms, comparison, canonical text
// ------------------------------------------------------------------------------------------------

#[derive(Clone, Copy, Debug, PartialEq, Eq, Serialize, Deserialize)]
pub enum Target {
    VcfText,
    Bcf,
}

/// IUPAC reduction the VCF specification prescribes for REF (§1.6.1.4: "the one that is first
/// alphabetically"), case preserved.
pub fn resolve_ref_base(b: char) -> char {
    match b {
        'W' | 'M' | 'R' | 'D' | 'H' | 'V' => 'A',
        'S' | 'Y' | 'B' => 'C',
        'K' => 'G',
        'w' | 'm' | 'r' | 'd' | 'h' | 'v' => 'a',
        's' | 'y' | 'b' => 'c',
        'k' => 'g',
        c => c,
    }
}

/// The implicit phasing of the first allele (VCF ≤ 4.3, and 4.4+ when the prefix is omitted):
/// `/` if any later separator is `/`, else `|`.
pub fn implicit_first_phasing(alleles: &[Allele]) -> bool {
    !alleles.iter().skip(1).any(|(_, ph)| !*ph)
}

fn norm_info_value(v: Option<InfoValue>, target: Target) -> Option<InfoValue> {
    let nanf = |b: F32Bits| if target == Target::VcfText && is_nan_bits(b) { CANONICAL_NAN } else { b };
    match v {
        // a one-element array holding a missing value has no representation distinct from a
        // missing field in either format
        Some(InfoValue::IntArray(a)) if a.len() == 1 && a[0].is_none() => None,
        Some(InfoValue::FloatArray(a)) if a.len() == 1 && a[0].is_none() => None,
        Some(InfoValue::CharArray(a)) if a.len() == 1 && a[0].is_none() => None,
        Some(InfoValue::StrArray(a)) if a.len() == 1 && a[0].is_none() => None,
        Some(InfoValue::Float(b)) => Some(InfoValue::Float(nanf(b))),
        Some(InfoValue::FloatArray(a)) => Some(InfoValue::FloatArray(a.into_iter().map(|x| x.map(nanf)).collect())),
        v => v,
    }
}

fn norm_sample_value(v: Option<SampleValue>, target: Target, minor: u32) -> Option<SampleValue> {
    let nanf = |b: F32Bits| if target == Target::VcfText && is_nan_bits(b) { CANONICAL_NAN } else { b };
    match v {
        Some(SampleValue::IntArray(a)) if a.len() == 1 && a[0].is_none() => None,
        Some(SampleValue::FloatArray(a)) if a.len() == 1 && a[0].is_none() => None,
        Some(SampleValue::CharArray(a)) if a.len() == 1 && a[0].is_none() => None,
        Some(SampleValue::StrArray(a)) if a.len() == 1 && a[0].is_none() => None,
        Some(SampleValue::Float(b)) => Some(SampleValue::Float(nanf(b))),
        Some(SampleValue::FloatArray(a)) => Some(SampleValue::FloatArray(a.into_iter().map(|x| x.map(nanf)).collect())),
        Some(SampleValue::Genotype(mut al)) => {
            if minor < 4 && !al.is_empty() {
                al[0].1 = implicit_first_phasing(&al);
            }
            if target == Target::VcfText && minor < 4 && al.len() == 1 && al[0].0.is_none() {
                // written as `.`, which is the missing value
                return None;
            }
            Some(SampleValue::Genotype(al))
        }
        v => v,
    }
}

impl VarRecord {
    /// Normal form under which "read back = written" is asserted.
    ///  * both targets: `[.]` (one-element array of a missing value) ≡ missing; for fileformat
    ///    < 4.4 the first allele's phasing is the implicit one;
    ///  * VCF text: every NaN is "NaN" (payload and sign are not representable); REF IUPAC codes
    ///    are reduced as the specification prescribes for writers;
    ///  * BCF: a sample row shorter than FORMAT (trailing fields dropped) ≡ padded with missing;
    ///  * both targets: with no FORMAT keys, N empty sample rows ≡ no rows.
    pub fn normalised(&self, target: Target, header: &VarHeader) -> VarRecord {
        let mut r = self.clone();
        if target == Target::VcfText {
            r.reference = r.reference.chars().map(resolve_ref_base).collect();
            r.qual = r.qual.map(|b| if is_nan_bits(b) { CANONICAL_NAN } else { b });
        }
        r.info = r.info.into_iter().map(|(k, v)| (k, norm_info_value(v, target))).collect();
        let nkeys = r.format.len();
        r.samples = r
            .samples
            .into_iter()
            .map(|row| {
                let mut row: Vec<_> = row.into_iter().map(|v| norm_sample_value(v, target, header.minor)).collect();
                if target == Target::Bcf {
                    while row.len() < nkeys {
                        row.push(None);
                    }
                } else if row.len() == 1 && row[0].is_none() {
                    // a sample column `.` is both "one missing value" and "all fields dropped"
                    row.clear();
                }
                row
            })
            .collect();
        // no FORMAT keys: whether the record then holds zero rows or one empty row per sample
        // of the header is representation, not content
        if nkeys == 0 && r.samples.iter().all(|row| row.is_empty()) {
            r.samples.clear();
        }
        r
    }

    /// Name of the first differing field and a short description, or None when equal.
    /// (Long values are shown around the first differing character of their Debug text.)
    pub fn first_diff(&self, other: &VarRecord) -> Option<(&'static str, String)> {
        fn d<T: std::fmt::Debug + PartialEq>(name: &'static str, a: &T, b: &T) -> Option<(&'static str, String)> {
            if a == b { None } else { Some((name, format!("{name}: left={} right={}", crate::engine::trunc(&format!("{a:?}"), 300), crate::engine::trunc(&format!("{b:?}"), 300)))) }
        }
        d("chrom", &self.chrom, &other.chrom)
            .or_else(|| d("pos", &self.pos, &other.pos))
            .or_else(|| d("ids", &self.ids, &other.ids))
            .or_else(|| d("ref", &self.reference, &other.reference))
            .or_else(|| d("alt", &self.alts, &other.alts))
            .or_else(|| d("qual", &self.qual.map(|b| format!("{b:#010x}")), &other.qual.map(|b| format!("{b:#010x}"))))
            .or_else(|| d("filters", &self.filters, &other.filters))
            .or_else(|| {
                let ka: Vec<&String> = self.info.iter().map(|(k, _)| k).collect();
                let kb: Vec<&String> = other.info.iter().map(|(k, _)| k).collect();
                d("info-keys", &ka, &kb)
            })
            .or_else(|| self.info.iter().zip(&other.info).find_map(|(a, b)| if a == b { None } else { Some(("info-value", format!("INFO {}: {}", a.0, diff_window(&a.1, &b.1)))) }))
            .or_else(|| d("format-keys", &self.format, &other.format))
            .or_else(|| d("sample-count", &self.samples.len(), &other.samples.len()))
            .or_else(|| {
                for (si, (ra, rb)) in self.samples.iter().zip(&other.samples).enumerate() {
                    if ra.len() != rb.len() {
                        return Some(("sample-row-len", format!("sample {si}: {} values vs {}: left={:?} right={:?}", ra.len(), rb.len(), ra, rb)));
                    }
                    for (ki, (a, b)) in ra.iter().zip(rb).enumerate() {
                        if a != b {
                            let key = self.format.get(ki).cloned().unwrap_or_default();
                            let name = if key == "GT" { "sample-gt" } else { "sample-value" };
                            return Some((name, format!("sample {si} key {key}: {}", diff_window(a, b))));
                        }
                    }
                }
                None
            })
    }
}

fn pct(out: &mut String, s: &str, extra: &[char]) {
    if s == "." {
        out.push_str("%2E");
        return;
    }
    for c in s.chars() {
        if c.is_ascii_control() || c == '%' || extra.contains(&c) {
            out.push_str(&format!("%{:02X}", c as u32));
        } else {
            out.push(c);
        }
    }
}

fn float_text(b: F32Bits) -> String {
    let x = f(b);
    if x.is_nan() { if b == CANONICAL_NAN { "NaN".to_string() } else { format!("NaN[{b:#010x}]") } } else { format!("{x}") }
}

/// Harness-side rendering of a record as one VCF line (no trailing newline). Injective on the
/// model (NaN payloads are spelled out), therefore suitable for transcripts; it is *not* claimed to
/// be byte-identical to any writer's output.
pub fn canonical_text(r: &VarRecord, header: &VarHeader) -> String {
    const INFO_SET: [char; 3] = [';', '=', ','];
    const SAMPLE_SET: [char; 2] = [':', ','];
    fn arr<T>(out: &mut String, v: &[Option<T>], mut one: impl FnMut(&mut String, &T)) {
        for (i, e) in v.iter().enumerate() {
            if i > 0 {
                out.push(',');
            }
            match e {
                None => out.push('.'),
                Some(x) => one(out, x),
            }
        }
    }
    let mut o = String::new();
    o.push_str(&r.chrom);
    o.push('\t');
    o.push_str(&r.pos.to_string());
    o.push('\t');
    o.push_str(&if r.ids.is_empty() { ".".to_string() } else { r.ids.join(";") });
    o.push('\t');
    o.push_str(&r.reference);
    o.push('\t');
    o.push_str(&if r.alts.is_empty() { ".".to_string() } else { r.alts.join(",") });
    o.push('\t');
    o.push_str(&r.qual.map(float_text).unwrap_or_else(|| ".".to_string()));
    o.push('\t');
    o.push_str(&if r.filters.is_empty() { ".".to_string() } else { r.filters.join(";") });
    o.push('\t');
    if r.info.is_empty() {
        o.push('.');
    }
    for (i, (k, v)) in r.info.iter().enumerate() {
        if i > 0 {
            o.push(';');
        }
        o.push_str(k);
        match v {
            None => o.push_str("=."),
            Some(InfoValue::Flag) => {}
            Some(v) => {
                o.push('=');
                match v {
                    InfoValue::Flag => {}
                    InfoValue::Integer(n) => o.push_str(&n.to_string()),
                    InfoValue::Float(b) => o.push_str(&float_text(*b)),
                    InfoValue::Character(c) => pct(&mut o, &c.to_string(), &INFO_SET),
                    InfoValue::String(s) => pct(&mut o, s, &INFO_SET),
                    InfoValue::IntArray(a) => arr(&mut o, a, |o, n| o.push_str(&n.to_string())),
                    InfoValue::FloatArray(a) => arr(&mut o, a, |o, b| o.push_str(&float_text(*b))),
                    InfoValue::CharArray(a) => arr(&mut o, a, |o, c| pct(o, &c.to_string(), &INFO_SET)),
                    InfoValue::StrArray(a) => arr(&mut o, a, |o, s| pct(o, s, &INFO_SET)),
                }
            }
        }
    }
    if !r.samples.is_empty() {
        o.push('\t');
        o.push_str(&if r.format.is_empty() { ".".to_string() } else { r.format.join(":") });
        for row in &r.samples {
            o.push('\t');
            if row.is_empty() {
                o.push('.');
            }
            for (i, v) in row.iter().enumerate() {
                if i > 0 {
                    o.push(':');
                }
                match v {
                    None => o.push('.'),
                    Some(SampleValue::Integer(n)) => o.push_str(&n.to_string()),
                    Some(SampleValue::Float(b)) => o.push_str(&float_text(*b)),
                    Some(SampleValue::Character(c)) => pct(&mut o, &c.to_string(), &SAMPLE_SET),
                    Some(SampleValue::String(s)) => pct(&mut o, s, &SAMPLE_SET),
                    Some(SampleValue::Genotype(al)) => {
                        for (j, (p, ph)) in al.iter().enumerate() {
                            if j > 0 || header.minor >= 4 {
                                o.push(if *ph { '|' } else { '/' });
                            }
                            match p {
                                None => o.push('.'),
                                Some(n) => o.push_str(&n.to_string()),
                            }
                        }
                    }
                    Some(SampleValue::IntArray(a)) => arr(&mut o, a, |o, n| o.push_str(&n.to_string())),
                    Some(SampleValue::FloatArray(a)) => arr(&mut o, a, |o, b| o.push_str(&float_text(*b))),
                    Some(SampleValue::CharArray(a)) => arr(&mut o, a, |o, c| pct(o, &c.to_string(), &SAMPLE_SET)),
                    Some(SampleValue::StrArray(a)) => arr(&mut o, a, |o, s| pct(o, s, &SAMPLE_SET)),
                }
            }
        }
    }
    o
}

/// Debug texts of two values, cut to a window around their first difference.
pub fn diff_window<T: std::fmt::Debug>(a: &T, b: &T) -> String {
    let (sa, sb) = (format!("{a:?}"), format!("{b:?}"));
    if sa.len() <= 300 && sb.len() <= 300 {
        return format!("left={sa} right={sb}");
    }
    let ca: Vec<char> = sa.chars().collect();
    let cb: Vec<char> = sb.chars().collect();
    let p = ca.iter().zip(&cb).position(|(x, y)| x != y).unwrap_or(ca.len().min(cb.len()));
    let from = p.saturating_sub(80);
    let wa: String = ca[from.min(ca.len())..(p + 120).min(ca.len())].iter().collect();
    let wb: String = cb[from.min(cb.len())..(p + 120).min(cb.len())].iter().collect();
    format!("first difference at char {p} of the Debug text (lengths {} / {}): left=…{wa}… right=…{wb}…", ca.len(), cb.len())
}

// ------------------------------------------------------------------------------------------------
// 5. helpers for users of the generator
// ------------------------------------------------------------------------------------------------

/// Sort by (contig index in the header, POS); records on undeclared contigs go last, by name.
pub fn sort_records(header: &VarHeader, records: &mut [VarRecord]) {
    records.sort_by_key(|r| (header.contig_index(&r.chrom).unwrap_or(usize::MAX), r.chrom.clone(), r.pos));
}

/// The harness's own end coordinate (1-based, inclusive) for the unambiguous cases:
/// fileformat < 4.5: INFO END (Integer ≥ 1) if present with a value, else POS + len(REF) − 1;
/// fileformat 4.5: only when the record has none of END / SVLEN / FORMAT LEN: POS + len(REF) − 1.
/// POS 0 (telomere) counts as 1, which is what `variant_span` documents. `None` = not asserted.
pub fn harness_end(r: &VarRecord, header: &VarHeader) -> Option<u64> {
    let start = r.pos.max(1) as u64;
    let by_ref = start + r.reference.chars().count() as u64 - 1;
    let end_field = r.info.iter().find(|(k, _)| k == "END");
    if header.minor < 5 {
        match end_field {
            Some((_, Some(InfoValue::Integer(n)))) if *n >= 1 => Some(*n as u64),
            Some((_, Some(_))) => None,
            _ => Some(by_ref),
        }
    } else {
        let has_svlen = r.info.iter().any(|(k, _)| k == "SVLEN");
        let has_len = r.format.iter().any(|k| k == "LEN");
        if end_field.is_some() || has_svlen || has_len { None } else { Some(by_ref) }
    }
}

/// Dictionary-of-strings index that BCF must use for each INFO/FILTER/FORMAT id of `header`:
/// the IDX value when given, else the order of first appearance (PASS = 0, then INFO, FILTER,
/// FORMAT lines in the order the header is written). Second component: contig ids.
pub fn expected_string_indices(header: &VarHeader) -> (Vec<(String, u32)>, Vec<(String, u32)>) {
    let mut strings: Vec<(String, u32)> = vec![("PASS".to_string(), 0)];
    let mut next = 1u32;
    let mut add = |id: &str, idx: Option<u32>, strings: &mut Vec<(String, u32)>| {
        if strings.iter().any(|(s, _)| s == id) {
            return;
        }
        match idx {
            Some(i) => {
                strings.push((id.to_string(), i));
                next = next.max(i + 1);
            }
            None => {
                strings.push((id.to_string(), next));
                next += 1;
            }
        }
    };
    for d in &header.infos {
        add(&d.id, d.idx, &mut strings);
    }
    for d in &header.filters {
        add(&d.id, d.idx, &mut strings);
    }
    for d in &header.formats {
        add(&d.id, d.idx, &mut strings);
    }
    let mut contigs = Vec::new();
    let mut next = 0u32;
    for c in &header.contigs {
        match c.idx {
            Some(i) => {
                contigs.push((c.id.clone(), i));
                next = next.max(i + 1);
            }
            None => {
                contigs.push((c.id.clone(), next));
                next += 1;
            }
        }
    }
    (strings, contigs)
}

/// True when every IDX of the header equals the index the entry would get from its order of
/// appearance (or no IDX is present): such a header means the same with and without IDX fields.
pub fn idx_is_natural(header: &VarHeader) -> bool {
    let mut h = header.clone();
    for d in h.infos.iter_mut().chain(h.formats.iter_mut()) {
        d.idx = None;
    }
    for d in h.filters.iter_mut() {
        d.idx = None;
    }
    for c in h.contigs.iter_mut() {
        c.idx = None;
    }
    expected_string_indices(&h) == expected_string_indices(header)
}

pub fn has_idx(header: &VarHeader) -> bool {
    header.infos.iter().chain(&header.formats).any(|d| d.idx.is_some()) || header.filters.iter().any(|d| d.idx.is_some()) || header.contigs.iter().any(|c| c.idx.is_some())
}

// ------------------------------------------------------------------------------------------------
// 4. strategies
// ------------------------------------------------------------------------------------------------

#[derive(Clone, Copy, Debug, PartialEq, Eq, Serialize, Deserialize)]
pub enum IdxMode {
    /// no IDX fields
    Never,
    /// IDX fields equal to the order-of-appearance indices (harmless if a writer drops them)
    Natural,
    /// arbitrary, non-contiguous, non-monotone IDX on every dictionary entry
    Arbitrary,
    /// per header: 50 % Never, 15 % Natural, 35 % Arbitrary
    Mixed,
}

#[derive(Clone, Copy, Debug, PartialEq, Eq, Serialize, Deserialize)]
pub enum SamplesMode {
    Any,
    Always,
    Never,
}

/// Value classes inside the BCF domain that the noodles tree still mishandles, or that its BCF
/// writer rejects (listed in KNOWN_FINDINGS; see props/c10.rs). They are produced only with
/// probability `Mode::hazard_permille`/1000 per record (each class drawn independently), and
/// never when it is 0. All of them concern Target::Bcf; VCF text has no gated class left.
/// (The classes CharReserved, EmptySampleRow, InfoMissingValue, GtRagged, GtPhasedMissing and
/// InfoIntArrayLen1Wide were gated here until the defects behind them were repaired; they are now
/// part of the ordinary domain.)
#[derive(Clone, Copy, Debug, PartialEq, Eq, PartialOrd, Ord, Serialize, Deserialize)]
pub enum Hazard {
    /// a sample whose GT is missing altogether (`.`): the BCF writer returns `Err`
    GtMissing = 0,
    /// a FORMAT column in which every sample is missing
    ColumnAllMissing = 1,
    /// a `,` inside an element of a String array
    StrCommaInArray = 2,
    /// a String equal to `.` as array element or FORMAT scalar; Character `.`/`,` likewise
    DotValue = 3,
    /// a non-ASCII Character value (the lazy `bcf::Record` rejects it)
    CharNonAscii = 4,
    /// `%` followed by two hex digits inside an element of a String array (the lazy reader
    /// percent-decodes array elements, nothing else does)
    StrArrayPercentEscape = 5,
}
pub const N_HAZARDS: usize = 6;

#[derive(Clone, Debug)]
pub struct Mode {
    pub target: Target,
    pub idx: IdxMode,
    pub samples: SamplesMode,
    /// minor versions to draw fileformat from (4.<minor>)
    pub minors: Vec<u32>,
    /// see `Hazard`
    pub hazard_permille: u16,
    /// POS upper bound (≤ 2^31 − 1)
    pub max_pos: u32,
    /// allow very long strings / arrays (typed-length boundaries 15, 128, 32768)
    pub long_values: bool,
    /// records per document: 0..=max_records
    pub max_records: usize,
    /// VCF text only: allow CHROM / FILTER / INFO / FORMAT ids that the header does not declare
    pub undeclared: bool,
    /// FORMAT Number codes LA/LR/LG/P/M in 4.5 headers (the text parser does not know them)
    pub extended_numbers_permille: u16,
    /// POS 0 (telomere) allowed (0.6 % of records). `bcf::Record::end()` is `todo!()` for it.
    pub telomere: bool,
}

impl Mode {
    /// Full VCF text domain of C09 (known-defect classes at 3 % each).
    pub fn vcf_full() -> Mode {
        Mode { target: Target::VcfText, idx: IdxMode::Mixed, samples: SamplesMode::Any, minors: vec![2, 3, 4, 5], hazard_permille: 30, max_pos: i32::MAX as u32, long_values: true, max_records: 10, undeclared: true, extended_numbers_permille: 0, telomere: true }
    }
    /// VCF documents that the pinned tree round-trips (for drivers, indexes, chunking, async …).
    pub fn vcf_safe() -> Mode {
        Mode { hazard_permille: 0, long_values: false, ..Mode::vcf_full() }
    }
    /// Full BCF domain of C10 (known-defect classes at 3 % each).
    pub fn bcf_full() -> Mode {
        Mode { target: Target::Bcf, idx: IdxMode::Mixed, samples: SamplesMode::Any, minors: vec![2, 3, 4, 5], hazard_permille: 30, max_pos: i32::MAX as u32, long_values: true, max_records: 10, undeclared: false, extended_numbers_permille: 0, telomere: true }
    }
    /// BCF documents that the pinned tree round-trips (contigs declared, no IDX, no hazards).
    pub fn bcf_safe() -> Mode {
        Mode { hazard_permille: 0, long_values: false, telomere: false, ..Mode::bcf_full() }
    }
}

// ---- atoms -------------------------------------------------------------------------------------

const BOUNDARY_INTS: [i32; 40] = [
    0, 1, -1, 2, 100, -119, -120, -121, -122, -127, -128, -129, 126, 127, 128, 129, 255, 256, -32759, -32760, -32761, -32762, -32767, -32768, -32769, 32766, 32767, 32768, 32769, 65535, 65536,
    i32::MAX, i32::MAX - 1, i32::MIN + 8, i32::MIN + 9, 1 << 24, -(1 << 24), 1000, -1000, 70000,
];

/// Integers BCF can represent: [-2^31+8, 2^31-1], dense at the width boundaries.
pub fn int_valid() -> BoxedStrategy<i32> {
    prop_oneof![
        4 => -10i32..100,
        5 => proptest::sample::select(BOUNDARY_INTS.to_vec()),
        1 => BCF_INT_MIN..=i32::MAX,
        1 => -40000i32..40000,
    ]
    .boxed()
}

/// The eight integers BCF (and therefore VCF) cannot carry: [i32::MIN, i32::MIN+7].
pub fn int_reserved() -> BoxedStrategy<i32> {
    (0i32..8).prop_map(|k| i32::MIN + k).boxed()
}

const SPECIAL_FLOAT_BITS: [u32; 22] = [
    0x0000_0000, 0x8000_0000, 0x3F80_0000, 0xBF80_0000, 0x7F7F_FFFF, 0xFF7F_FFFF, 0x0080_0000, 0x0000_0001, 0x807F_FFFF, 0x7F80_0000, 0xFF80_0000, // ±0 ±1 ±max min-normal subnormals ±inf
    0x7FC0_0000, // canonical NaN
    0x7FC0_0001, 0xFFC0_0000, 0x7FA0_0000, 0x7F80_0008, 0x7FFF_FFFF, 0xFF80_0001, 0xFF80_0002, // other NaNs (not reserved)
    0x3DCC_CCCD, 0x4B80_0000, 0x501502F9, // 0.1, 2^24, 1e10
];

/// Float bit patterns. `text`: only what VCF text can carry distinctly (finite, ±inf, NaN as a
/// class — other NaN payloads appear rarely and are compared as NaN). Never a BCF sentinel or
/// reserved pattern.
pub fn float_bits(text: bool) -> BoxedStrategy<u32> {
    let fin = prop_oneof![
        3 => (-2000i32..20000, 0u32..4).prop_map(|(n, s)| (n as f32 / [1.0f32, 4.0, 10.0, 1000.0][s as usize]).to_bits()),
        1 => any::<u32>().prop_map(|b| if f32::from_bits(b).is_finite() { b } else { b & 0x7F7F_FFFF }),
    ];
    if text {
        prop_oneof![
            8 => fin,
            3 => proptest::sample::select(SPECIAL_FLOAT_BITS[..12].to_vec()),
            1 => proptest::sample::select(SPECIAL_FLOAT_BITS[12..].to_vec()).prop_map(|b| if is_bcf_reserved_float(b) { CANONICAL_NAN } else { b }),
        ]
        .boxed()
    } else {
        prop_oneof![
            6 => fin,
            4 => proptest::sample::select(SPECIAL_FLOAT_BITS.to_vec()),
            1 => any::<u32>().prop_map(|b| if is_bcf_reserved_float(b) { CANONICAL_NAN } else { b }),
        ]
        .boxed()
    }
}

/// 0x7F800001 (missing), 0x7F800002 (end of vector), 0x7F800003..7 (reserved).
pub fn float_reserved_bits() -> BoxedStrategy<u32> {
    (1u32..8).prop_map(|k| 0x7F80_0000 + k).boxed()
}

const STR_TOKENS: [&str; 64] = [
    "a", "b", "Z", "0", "7", "x1", "foo", "ACGT", "rs", "q", "T", "9", "e", "N", "k", "m", // plain
    " ", "_", "-", "+", "/", "|", "\\", "\"", "'", "(", ")", "<", ">", "[", "]", "~", "!", "#", "@", "&", "*", "?", "^", "{", "}", "$", // printable punctuation
    "%", "%41", "%3a", "%3B", "%2", "%zz", "%%", "%2C", // percent forms
    ":", ";", "=", ",", ".", "..", // VCF delimiters
    "é", "日", "ß", "𝄞", // non-ASCII
    "\t", "\n", "\r", "\u{1}", // controls
];

/// Non-empty strings over a token alphabet rich in VCF delimiters, percent forms, non-ASCII and
/// control characters; lengths dense at the BCF typed-length boundaries when `long`.
pub fn rich_string(long: bool) -> BoxedStrategy<String> {
    let tok = prop_oneof![
        10 => 0usize..16,
        3 => 16usize..42,
        3 => 42usize..50,
        3 => 50usize..56,
        1 => 56usize..60,
        1 => 60usize..64,
    ];
    let short = proptest::collection::vec(tok, 1..6).prop_map(|v| v.into_iter().map(|i| STR_TOKENS[i]).collect::<String>());
    if long {
        prop_oneof![
            30 => short,
            3 => (proptest::sample::select(vec![13usize, 14, 15, 16, 17, 126, 127, 128, 129, 255, 256, 300]), any::<u16>()).prop_map(|(n, s)| filler(n, s)),
            1 => (proptest::sample::select(vec![32766usize, 32767, 32768, 32769, 66000]), any::<u16>()).prop_map(|(n, s)| filler(n, s)),
        ]
        .boxed()
    } else {
        short.boxed()
    }
}

fn filler(n: usize, seed: u16) -> String {
    const AL: &[u8] = b"abcdefghijklmnopqrstuvwxyzACGT0123456789_-";
    (0..n).map(|i| AL[(i * 7 + seed as usize + i / 11) % AL.len()] as char).collect()
}

fn any_char() -> BoxedStrategy<char> {
    prop_oneof![
        10 => proptest::sample::select("ACGTNacgtxyzQ0123456789".chars().collect::<Vec<_>>()),
        4 => proptest::sample::select("!\"#$&'()*+-/<>?@[\\]^_`{|}~ ".chars().collect::<Vec<_>>()),
        3 => proptest::sample::select(";=%,.:".chars().collect::<Vec<_>>()),
        1 => proptest::sample::select(vec!['\t', '\n', '\r', '\u{1}', '\u{7f}']),
        1 => proptest::sample::select(vec!['é', '日', 'ß', '𝄞']),
    ]
    .boxed()
}

fn word(first: &'static str, rest: &'static str, max_rest: usize) -> BoxedStrategy<String> {
    let f: Vec<char> = first.chars().collect();
    let r: Vec<char> = rest.chars().collect();
    (proptest::sample::select(f), proptest::collection::vec(proptest::sample::select(r), 0..=max_rest)).prop_map(|(a, b)| std::iter::once(a).chain(b).collect()).boxed()
}

const ALNUM: &str = "abcdefghijklmnopqrstuvwxyzABCDEFGHIJKLMNOPQRSTUVWXYZ0123456789";
const KEY_REST: &str = "abcdefghijklmnopqrstuvwxyzABCDEFGHIJKLMNOPQRSTUVWXYZ0123456789_.";
/// contig name alphabet of VCF §1.4.7 (first character without `*` and `=`)
const CONTIG_FIRST: &str = "0123456789ABCXYMchrsq!$%&+./:;?@^_|~-";
const CONTIG_REST: &str = "0123456789ABCXYMchrsq!#$%&*+./:;=?@^_|~-";

/// Header text (descriptions, extra values, unstructured values): printable, no controls; quotes,
/// backslashes, commas, `=`, `<`, `>` and non-ASCII included.
fn header_text(allow_empty: bool) -> BoxedStrategy<String> {
    const TOK: [&str; 30] = ["a", "Z", "0", "depth", "of", " ", " ", ",", "=", "\"", "\\", "<", ">", ";", ":", "%", "é", "日", "'", "(", ")", "#", "##", "ID=", "\\\"", "\\\\", "/", ".", "-", "_"];
    proptest::collection::vec(0usize..30, (if allow_empty { 0 } else { 1 })..8).prop_map(|v| v.into_iter().map(|i| TOK[i]).collect::<String>()).boxed()
}

fn extras() -> BoxedStrategy<Vec<(String, String)>> {
    let key = prop_oneof![
        2 => proptest::sample::select(vec!["Source", "Version", "assembly", "species", "taxonomy", "note"]).prop_map(String::from),
        1 => word("abcdefghijkmnopqrstuvwxyz", ALNUM, 5),
    ];
    prop_oneof![
        3 => Just(Vec::new()),
        1 => proptest::collection::vec((key, header_text(true)), 1..3),
    ]
    .prop_map(|v| {
        let mut seen = BTreeSet::new();
        v.into_iter().filter(|(k, _)| !["ID", "Number", "Type", "Description", "IDX", "length", "md5", "URL", "Values"].contains(&k.as_str()) && seen.insert(k.clone())).collect()
    })
    .boxed()
}

// ---- header ------------------------------------------------------------------------------------

#[derive(Clone, Debug)]
struct RawField {
    /// < 35: reserved id picked by `sel`; else the custom name
    kind: u8,
    sel: u16,
    name: String,
    num_sel: u16,
    ty_sel: u16,
    count: u32,
    description: String,
    extra: Vec<(String, String)>,
    ext_draw: u16,
}

fn raw_field() -> BoxedStrategy<RawField> {
    (
        0u8..100,
        any::<u16>(),
        word("XZq_", KEY_REST, 6),
        any::<u16>(),
        any::<u16>(),
        prop_oneof![4 => 2u32..5, 1 => proptest::sample::select(vec![14u32, 15, 16, 20])],
        header_text(true),
        extras(),
        0u16..1000,
    )
        .prop_map(|(kind, sel, name, num_sel, ty_sel, count, description, extra, ext_draw)| RawField { kind, sel, name, num_sel, ty_sel, count, description, extra, ext_draw })
        .boxed()
}

fn field_def(raw: &RawField, minor: u32, info: bool, mode: &Mode) -> FieldDef {
    if raw.kind < 35 {
        let (ids, def): (&[&str], fn(u32, &str) -> Option<(Num, Ty)>) = if info { (&RESERVED_INFO_IDS, reserved_info_def_any) } else { (&RESERVED_FORMAT_IDS, reserved_format_def_any) };
        let id = ids[pick_idx(raw.sel, ids.len())];
        if let Some((number, ty)) = def(minor, id) {
            if !matches!(number, Num::LA | Num::LR | Num::LG | Num::P | Num::M) {
                return FieldDef { id: id.to_string(), number, ty, description: raw.description.clone(), idx: None, extra: raw.extra.clone() };
            }
        }
    }
    let ty = if info { [Ty::Integer, Ty::Float, Ty::Flag, Ty::Character, Ty::String][pick_idx(raw.ty_sel, 5)] } else { [Ty::Integer, Ty::Float, Ty::Character, Ty::String][pick_idx(raw.ty_sel, 4)] };
    let mut number = if ty == Ty::Flag { Num::Count(0) } else { [Num::Count(1), Num::Count(1), Num::Count(raw.count), Num::A, Num::R, Num::G, Num::Unknown, Num::Unknown][pick_idx(raw.num_sel, 8)] };
    if !info && minor == 5 && raw.ext_draw < mode.extended_numbers_permille {
        number = [Num::LA, Num::LR, Num::LG, Num::P, Num::M][pick_idx(raw.num_sel, 5)];
    }
    FieldDef { id: raw.name.clone(), number, ty, description: raw.description.clone(), idx: None, extra: raw.extra.clone() }
}

#[derive(Clone, Debug)]
struct RawHeader {
    minor: u32,
    infos: Vec<RawField>,
    formats: Vec<RawField>,
    filters: Vec<(u8, String, String, Vec<(String, String)>)>,
    alts: Vec<(u16, String, String, Vec<(String, String)>)>,
    contigs: Vec<(u8, String, Option<u64>, Option<String>, Option<String>, Vec<(String, String)>)>,
    others: Vec<(u8, u16, String, String, String, Vec<(String, String)>)>,
    samples: Vec<String>,
    share_ids: u8,
    idx_kind: u8,
    idx_gaps: Vec<u16>,
    idx_perm: Vec<u16>,
    idx_big: u8,
}

fn sample_name() -> BoxedStrategy<String> {
    prop_oneof![
        4 => word("NSHs", "A0123456789", 6),
        1 => proptest::collection::vec(proptest::sample::select(vec!["s", "1", " ", ":", ";", "=", ",", ".", "é", "日", "-", "_", "/", "%41"]), 1..5).prop_map(|v| v.concat()),
    ]
    .boxed()
}

/// Headers over fileformat 4.<minor>: INFO/FORMAT with every Number × Type (custom ids) and
/// reserved ids with their definitions, FILTER (incl. an explicit PASS line), ALT, contig with
/// optional length/md5/URL, other lines (unstructured, structured, META, PEDIGREE), extra tags,
/// IDX assignments per `mode.idx`, 0..4 samples per `mode.samples`.
pub fn header(_tier: Tier, mode: &Mode) -> BoxedStrategy<VarHeader> {
    let mode = mode.clone();
    let nsamples = match mode.samples {
        SamplesMode::Never => 0..=0usize,
        SamplesMode::Always => 1..=4,
        SamplesMode::Any => 0..=4,
    };
    let min_contigs = if mode.target == Target::Bcf { 1 } else { 0 };
    let filters = proptest::collection::vec((0u8..100, word("qsLlowF", "abcdefghijklmnopqrstuvwxyzABCDEFGH0123456789_.+-", 6), header_text(true), extras()), 0..4);
    let alts = proptest::collection::vec((any::<u16>(), word("ABCDEFGHIJKLMNOPQRSTUVWXYZ", "ABCDEFGHIJKLMNOPQRSTUVWXYZ:_0123456789", 8), header_text(true), extras()), 0..3);
    let md5 = proptest::collection::vec(proptest::sample::select("0123456789abcdef".chars().collect::<Vec<_>>()), 32).prop_map(|v| v.into_iter().collect::<String>());
    let url = word("hf", "abcdefghijklmnopqrstuvwxyz0123456789:/._-~%?&=", 20);
    let contigs = proptest::collection::vec(
        (
            0u8..100,
            word(CONTIG_FIRST, CONTIG_REST, 6),
            proptest::option::weighted(0.6, prop_oneof![3 => 1u64..300_000_000, 1 => Just(2_147_483_647u64), 1 => 2_147_483_648u64..5_000_000_000]),
            proptest::option::weighted(0.3, md5),
            proptest::option::weighted(0.3, url),
            extras(),
        ),
        min_contigs..5,
    );
    let others = proptest::collection::vec((0u8..100, any::<u16>(), word("abcdefghijklmnopqrstuvwxyzABCDEFGHIJKLMNOPQRSTUVWXYZ", "abcdefghijklmnopqrstuvwxyzABCDEFGHIJKLMNOPQRSTUVWXYZ0123456789_.", 8), header_text(false), word(ALNUM, "abcdefghijklmnopqrstuvwxyzABCDEFGHIJKLMNOPQRSTUVWXYZ0123456789_.-", 6), extras()), 0..4);
    (
        (proptest::sample::select(mode.minors.clone()), proptest::collection::vec(raw_field(), 0..9), proptest::collection::vec(raw_field(), 0..7), filters, alts, contigs, others),
        (proptest::collection::vec(sample_name(), nsamples), 0u8..100, 0u8..100, proptest::collection::vec(prop_oneof![6 => 1u16..4, 1 => 100u16..140], 40), proptest::collection::vec(any::<u16>(), 40), 0u8..100),
    )
        .prop_map(move |((minor, infos, formats, filters, alts, contigs, others), (samples, share_ids, idx_kind, idx_gaps, idx_perm, idx_big))| {
            finish_header(RawHeader { minor, infos, formats, filters, alts, contigs, others, samples, share_ids, idx_kind, idx_gaps, idx_perm, idx_big }, &mode)
        })
        .boxed()
}

fn finish_header(raw: RawHeader, mode: &Mode) -> VarHeader {
    let minor = raw.minor;
    let mut infos: Vec<FieldDef> = Vec::new();
    for r in &raw.infos {
        let d = field_def(r, minor, true, mode);
        if !infos.iter().any(|x| x.id == d.id) {
            infos.push(d);
        }
    }
    let mut formats: Vec<FieldDef> = Vec::new();
    for (i, r) in raw.formats.iter().enumerate() {
        let mut d = field_def(r, minor, false, mode);
        // occasionally reuse an INFO id for a FORMAT line (one dictionary entry in BCF); custom ids only
        if raw.share_ids < 25 && i == 0 && r.kind >= 35 {
            if let Some(x) = infos.iter().find(|x| x.id.starts_with(['X', 'Z', 'q', '_'])) {
                d.id = x.id.clone();
            }
        }
        if !formats.iter().any(|x| x.id == d.id) {
            formats.push(d);
        }
    }
    // genotypes are the heart of the sample columns: declare GT in about half of the headers
    // that have samples
    if !raw.samples.is_empty() && !formats.iter().any(|d| d.id == "GT") && (raw.share_ids as u32 * 7 + raw.idx_kind as u32) % 100 < 55 {
        formats.insert(0, FieldDef { id: "GT".into(), number: Num::Count(1), ty: Ty::String, description: "Genotype".into(), idx: None, extra: vec![] });
    }
    // GT first when declared (VCF requires it first in FORMAT; the header order is free, but keeping
    // it first makes "FORMAT = prefix of header order" valid)
    if let Some(p) = formats.iter().position(|d| d.id == "GT") {
        let gt = formats.remove(p);
        formats.insert(0, gt);
    }
    let mut filters: Vec<FilterDef> = Vec::new();
    for (kind, name, description, extra) in &raw.filters {
        let id = if *kind < 15 { "PASS".to_string() } else if *kind < 22 && raw.share_ids >= 50 && !infos.is_empty() { infos[0].id.clone() } else { name.clone() };
        if id == "." || id == "0" || filters.iter().any(|x| x.id == id) {
            continue;
        }
        filters.push(FilterDef { id, description: description.clone(), idx: None, extra: extra.clone() });
    }
    let mut alts: Vec<AltDef> = Vec::new();
    const STD_ALTS: [&str; 9] = ["DEL", "INS", "DUP", "INV", "CNV", "DUP:TANDEM", "DEL:ME:ALU", "NON_REF", "*"];
    for (sel, name, description, extra) in &raw.alts {
        let id = if sel % 3 != 0 { STD_ALTS[pick_idx(*sel, STD_ALTS.len())].to_string() } else { name.clone() };
        if !alts.iter().any(|x| x.id == id) {
            alts.push(AltDef { id, description: description.clone(), extra: extra.clone() });
        }
    }
    let mut contigs: Vec<ContigDef> = Vec::new();
    const STD_CONTIGS: [&str; 8] = ["1", "2", "chr1", "chrX", "sq0", "sq1", "MT", "HLA-A*01:01"];
    for (kind, name, length, md5, url, extra) in &raw.contigs {
        let id = if *kind < 50 { STD_CONTIGS[(*kind as usize) % STD_CONTIGS.len()].to_string() } else { name.clone() };
        if id == "." || contigs.iter().any(|x| x.id == id) {
            continue;
        }
        contigs.push(ContigDef { id, length: *length, md5: md5.clone(), url: url.clone(), idx: None, extra: extra.clone() });
    }
    if contigs.is_empty() && mode.target == Target::Bcf {
        contigs.push(ContigDef { id: "sq0".into(), length: None, md5: None, url: None, idx: None, extra: vec![] });
    }
    let mut others: Vec<OtherDef> = Vec::new();
    const TEXT_KEYS: [&str; 5] = ["fileDate", "source", "reference", "phasing", "commandline"];
    const MAP_KEYS: [&str; 3] = ["SAMPLE", "assemblyInfo", "xMap"];
    for (kind, sel, name, text, id, extra) in &raw.others {
        let def = if *kind < 55 {
            let key = if *kind < 30 { TEXT_KEYS[pick_idx(*sel, TEXT_KEYS.len())].to_string() } else { format!("t{name}") };
            let mut text = text.clone();
            if text.starts_with('<') {
                text.insert(0, 'v');
            }
            OtherDef { key, value: OtherValue::Text(text) }
        } else if *kind < 85 {
            let key = if *kind < 75 { MAP_KEYS[pick_idx(*sel, MAP_KEYS.len())].to_string() } else { format!("M{name}") };
            OtherDef { key, value: OtherValue::Map { id: id.clone(), fields: extra.clone() } }
        } else if minor >= 3 && *kind < 93 {
            let values = ["[WholeGenome, Exome]", "[a]", "[Tumor, Normal, Other]"][pick_idx(*sel, 3)];
            OtherDef { key: "META".into(), value: OtherValue::Map { id: id.clone(), fields: vec![("Type".into(), "String".into()), ("Number".into(), ".".into()), ("Values".into(), values.into())] } }
        } else if minor >= 3 {
            OtherDef { key: "PEDIGREE".into(), value: OtherValue::Map { id: id.clone(), fields: vec![("Father".into(), format!("F{}", sel % 7)), ("Mother".into(), text.clone())] } }
        } else {
            continue;
        };
        let clash = ["fileformat", "INFO", "FILTER", "FORMAT", "ALT", "contig"].contains(&def.key.as_str())
            || others.iter().any(|o| o.key == def.key && (matches!(o.value, OtherValue::Text(_)) != matches!(def.value, OtherValue::Text(_))))
            || others.iter().any(|o| o.key == def.key && matches!((&o.value, &def.value), (OtherValue::Map { id: a, .. }, OtherValue::Map { id: b, .. }) if a == b));
        if !clash {
            others.push(def);
        }
    }
    let mut samples: Vec<String> = Vec::new();
    for s in &raw.samples {
        if !samples.contains(s) {
            samples.push(s.clone());
        }
    }
    // sample columns need at least one FORMAT key; without FORMAT definitions only a VCF-text
    // document that may use undeclared keys can carry them
    if formats.is_empty() && !(mode.target == Target::VcfText && mode.undeclared) {
        samples.clear();
    }
    let mut h = VarHeader { minor, infos, filters, formats, alts, contigs, others, samples };
    let kind = match mode.idx {
        IdxMode::Never => 0,
        IdxMode::Natural => 1,
        IdxMode::Arbitrary => 2,
        IdxMode::Mixed => {
            if raw.idx_kind < 50 {
                0
            } else if raw.idx_kind < 65 {
                1
            } else {
                2
            }
        }
    };
    assign_idx(&mut h, kind, &raw.idx_gaps, &raw.idx_perm, raw.idx_big);
    h
}

/// kind 0: none; 1: natural; 2: arbitrary (distinct, ≥ 1 for strings other than PASS, gaps,
/// shuffled; `big` < 8 adds a jump past 32767 so that index widths int16/int32 occur).
fn assign_idx(h: &mut VarHeader, kind: u8, gaps: &[u16], perm: &[u16], big: u8) {
    if kind == 0 {
        return;
    }
    let mut names: Vec<String> = Vec::new();
    for id in h.infos.iter().map(|d| &d.id).chain(h.filters.iter().map(|d| &d.id)).chain(h.formats.iter().map(|d| &d.id)) {
        if id != "PASS" && !names.contains(id) {
            names.push(id.clone());
        }
    }
    let gap = |i: usize| if kind == 1 { 1 } else { gaps.get(i % gaps.len().max(1)).copied().unwrap_or(1).max(1) as u32 };
    let mut values: Vec<u32> = Vec::new();
    let mut cur = 0u32;
    for i in 0..names.len() {
        cur += gap(i);
        if kind == 2 && big < 8 && i == names.len() / 2 {
            cur += 32700;
        }
        values.push(cur);
    }
    if kind == 2 {
        let mut order: Vec<usize> = (0..values.len()).collect();
        order.sort_by_key(|&i| (perm.get(i % perm.len().max(1)).copied().unwrap_or(0), i));
        values = order.iter().map(|&i| values[i]).collect();
    }
    let lookup = |id: &str| if id == "PASS" { Some(0) } else { names.iter().position(|n| n == id).map(|p| values[p]) };
    for d in h.infos.iter_mut().chain(h.formats.iter_mut()) {
        d.idx = lookup(&d.id);
    }
    for d in h.filters.iter_mut() {
        d.idx = lookup(&d.id);
    }
    let n = h.contigs.len();
    let mut cvals: Vec<u32> = Vec::new();
    let mut cur = 0u32;
    for i in 0..n {
        if i > 0 || kind == 2 {
            cur += gap(i + 7) - if i == 0 { 1 } else { 0 };
        }
        cvals.push(cur);
    }
    if kind == 2 {
        let mut order: Vec<usize> = (0..n).collect();
        order.sort_by_key(|&i| (perm.get((i + 13) % perm.len().max(1)).copied().unwrap_or(0), i));
        cvals = order.iter().map(|&i| cvals[i]).collect();
    }
    for (c, v) in h.contigs.iter_mut().zip(cvals) {
        c.idx = Some(v);
    }
}

// ---- records -----------------------------------------------------------------------------------

#[derive(Clone, Debug)]
enum PoolVals {
    I(Vec<i32>),
    F(Vec<u32>),
    C(Vec<char>),
    S(Vec<String>),
    None,
}

#[derive(Clone, Debug)]
struct Pool {
    vals: PoolVals,
    miss: Vec<u8>,
    len_sel: u16,
    present: u8,
    order: u16,
    whole_missing: u8,
}

fn pool(ty: Ty, mode: &Mode) -> BoxedStrategy<Pool> {
    let text = mode.target == Target::VcfText;
    let vals = match ty {
        Ty::Integer => proptest::collection::vec(int_valid(), 1..7).prop_map(PoolVals::I).boxed(),
        Ty::Float => proptest::collection::vec(float_bits(text), 1..7).prop_map(PoolVals::F).boxed(),
        Ty::Character => proptest::collection::vec(any_char(), 1..7).prop_map(PoolVals::C).boxed(),
        Ty::String => proptest::collection::vec(rich_string(mode.long_values), 1..5).prop_map(PoolVals::S).boxed(),
        Ty::Flag => Just(PoolVals::None).boxed(),
    };
    (vals, proptest::collection::vec(0u8..100, 1..5), any::<u16>(), 0u8..100, any::<u16>(), 0u8..100)
        .prop_map(|(vals, miss, len_sel, present, order, whole_missing)| Pool { vals, miss, len_sel, present, order, whole_missing })
        .boxed()
}

#[derive(Clone, Debug)]
enum RawAlt {
    Bases(String),
    Symbolic(u16),
    Breakend(u8, String, u32),
    Star,
    NonRef,
}

fn bases(max: usize, long: bool) -> BoxedStrategy<String> {
    let b = proptest::sample::select(vec!['A', 'C', 'G', 'T', 'A', 'C', 'G', 'T', 'N', 'a', 'c', 'g', 't', 'n']);
    let short = proptest::collection::vec(b, 1..=max).prop_map(|v| v.into_iter().collect::<String>());
    if long {
        prop_oneof![
            40 => short,
            2 => proptest::sample::select(vec![14usize, 15, 16, 127, 128, 300]).prop_map(|n| "ACGTTGCAAN".chars().cycle().take(n).collect::<String>()),
        ]
        .boxed()
    } else {
        short.boxed()
    }
}

fn raw_alt(mode: &Mode) -> BoxedStrategy<RawAlt> {
    prop_oneof![
        8 => bases(4, mode.long_values).prop_map(RawAlt::Bases),
        3 => any::<u16>().prop_map(RawAlt::Symbolic),
        2 => (0u8..6, bases(2, false), 1u32..3_000_000).prop_map(|(k, b, p)| RawAlt::Breakend(k, b, p)),
        1 => Just(RawAlt::Star),
        1 => Just(RawAlt::NonRef),
    ]
    .boxed()
}

fn position(max: u32) -> BoxedStrategy<u32> {
    let max = max.max(1);
    let clamp = move |p: u32| p.clamp(1, max);
    prop_oneof![
        4 => (1u32..2000).prop_map(clamp),
        4 => (0u32..600, -3i32..4).prop_map(move |(k, d)| clamp(((k as i64) * 16384 + d as i64).max(1) as u32)),
        2 => (0u32..64, -3i32..4).prop_map(move |(k, d)| clamp(((k as i64) * (1 << 20) + d as i64).max(1) as u32)),
        2 => (1u32..=max).prop_map(clamp),
        1 => proptest::sample::select(vec![1u32, 2, 16383, 16384, 16385, 131072, (1 << 29) - 1, 1 << 29, (1 << 29) + 1, i32::MAX as u32 - 1, i32::MAX as u32]).prop_map(clamp),
    ]
    .boxed()
}

#[derive(Clone, Debug)]
struct RawRecord {
    chrom_sel: u16,
    chrom_draw: u16,
    chrom_name: String,
    pos: u32,
    pos_draw: u16,
    ids: Vec<String>,
    reference: String,
    ref_draw: u8,
    alts: Vec<RawAlt>,
    qual: Option<u32>,
    filter_kind: u8,
    filter_sels: Vec<u16>,
    filter_name: String,
    infos: Vec<Pool>,
    wild: (Vec<(u8, u16, String)>, Vec<i32>, Vec<u32>, Vec<char>, Vec<String>),
    fmts: Vec<(u8, Vec<Pool>)>,
    ploidy_max: u8,
    sample_ploidy: Vec<u8>,
    gts: Vec<Vec<(u16, u8, bool)>>,
    drops: Vec<(u8, u8)>,
    extra_fmt: (u8, String),
    span_sel: u16,
    hz: Vec<u16>,
}

fn record_id() -> BoxedStrategy<String> {
    prop_oneof![
        5 => (1u32..100_000_000).prop_map(|n| format!("rs{n}")),
        3 => word("abcXYZrs_", "abcdefghijklmnopqrstuvwxyz0123456789_.:-+=,%|/", 8),
        1 => proptest::collection::vec(proptest::sample::select(vec!["a", "1", ".", ",", ":", "=", "%3B", "é", "日", "|", "/", "<", ">"]), 1..4).prop_map(|v| v.concat()),
    ]
    .boxed()
}

/// One record consistent with `header` (cardinalities from the ALT count and ploidy for Number
/// A/R/G, fixed counts for Number=n, 1.. for Number=., types per the header; for Target::Bcf only
/// declared contigs, filters and keys). See `Mode` for the value domain.
pub fn record(header: &VarHeader, mode: &Mode) -> BoxedStrategy<VarRecord> {
    let h = header.clone();
    let m = mode.clone();
    let ns = header.samples.len();
    let infos: Vec<BoxedStrategy<Pool>> = header.infos.iter().map(|d| pool(d.ty, mode)).collect();
    let fmts: Vec<BoxedStrategy<(u8, Vec<Pool>)>> = header.formats.iter().map(|d| (0u8..100, proptest::collection::vec(pool(d.ty, mode), ns)).boxed()).collect();
    let text = mode.target == Target::VcfText;
    let wild = (
        proptest::collection::vec((0u8..100, any::<u16>(), word("UW", ALNUM, 4)), 0..3),
        proptest::collection::vec(int_valid(), 1..4),
        proptest::collection::vec(float_bits(text), 1..4),
        proptest::collection::vec(any_char(), 1..4),
        proptest::collection::vec(rich_string(false), 1..4),
    );
    let nalt = prop_oneof![2 => 0usize..=0, 8 => 1usize..=1, 4 => 2usize..=2, 2 => 3usize..=3, 1 => 4usize..=6];
    let alts = nalt.prop_flat_map({
        let m = m.clone();
        move |n| proptest::collection::vec(raw_alt(&m), n)
    });
    let qual = proptest::option::weighted(0.7, float_bits(text));
    (
        (any::<u16>(), 0u16..1000, word(CONTIG_FIRST, CONTIG_REST, 5), position(mode.max_pos), 0u16..1000, proptest::collection::vec(record_id(), 0..3), bases(3, mode.long_values), 0u8..100, alts, qual),
        (0u8..100, proptest::collection::vec(any::<u16>(), 1..4), word("uf", ALNUM, 4), infos, wild, fmts),
        (
            prop_oneof![1 => Just(1u8), 5 => Just(2u8), 2 => Just(3u8), 2 => Just(4u8)],
            proptest::collection::vec(0u8..100, ns),
            proptest::collection::vec(proptest::collection::vec((any::<u16>(), 0u8..100, any::<bool>()), 4), ns),
            proptest::collection::vec((0u8..100, 0u8..8), ns),
            (0u8..100, word("UF", ALNUM, 3)),
            any::<u16>(),
            proptest::collection::vec(0u16..1000, N_HAZARDS),
        ),
    )
        .prop_map(move |((chrom_sel, chrom_draw, chrom_name, pos, pos_draw, ids, reference, ref_draw, alts, qual), (filter_kind, filter_sels, filter_name, infos, wild, fmts), (ploidy_max, sample_ploidy, gts, drops, extra_fmt, span_sel, hz))| {
            build_record(
                &h,
                &m,
                RawRecord { chrom_sel, chrom_draw, chrom_name, pos, pos_draw, ids, reference, ref_draw, alts, qual, filter_kind, filter_sels, filter_name, infos, wild, fmts, ploidy_max, sample_ploidy, gts, drops, extra_fmt, span_sel, hz },
            )
        })
        .boxed()
}

fn binom(n: u64, k: u64) -> u64 {
    let k = k.min(n - k.min(n));
    let mut r = 1u64;
    for i in 0..k {
        r = r * (n - i) / (i + 1);
    }
    r
}

/// Number of values a field of `number` holds for `n_alt` ALT alleles and `ploidy`.
pub fn cardinality(number: Num, n_alt: usize, ploidy: usize, unknown_len: usize) -> usize {
    match number {
        Num::Count(n) => n as usize,
        Num::A | Num::LA => n_alt,
        Num::R | Num::LR => n_alt + 1,
        Num::G | Num::LG => binom((n_alt + 1 + ploidy).saturating_sub(1) as u64, ploidy as u64) as usize,
        Num::P => ploidy,
        Num::Unknown | Num::M => unknown_len,
    }
}

const UNKNOWN_LENS: [usize; 12] = [1, 1, 1, 2, 2, 3, 4, 5, 14, 15, 16, 17];
const UNKNOWN_LENS_LONG: [usize; 14] = [1, 1, 1, 2, 2, 3, 4, 5, 14, 15, 16, 17, 130, 300];

/// Arrays of very long strings stay short (a 300-element array of 66 000-byte strings is 20 MB).
fn cap_for(v: &[String], n: usize) -> usize {
    if v.iter().any(|s| s.len() > 1000) { n.min(2) } else { n }
}

fn cyc<T: Clone>(v: &[T], n: usize) -> Vec<T> {
    (0..n).map(|i| v[i % v.len()].clone()).collect()
}

fn with_missing<T: Clone>(vals: Vec<T>, miss: &[u8], rate: u8) -> Vec<Option<T>> {
    let n = vals.len();
    let mut out: Vec<Option<T>> = vals.into_iter().enumerate().map(|(i, v)| if miss[i % miss.len()] < rate { None } else { Some(v) }).collect();
    // `[.]` is not representable: keep the value
    if n == 1 && out[0].is_none() {
        return out;
    }
    if n > 1 && out.iter().all(|x| x.is_none()) && miss[0] >= rate / 2 {
        // all-missing arrays of length ≥ 2 stay (".,." is representable); thin them out a little
        out[0] = None;
    }
    out
}

/// `%` followed by two hexadecimal digits somewhere in `s`.
pub fn has_percent_escape(s: &str) -> bool {
    let b = s.as_bytes();
    (0..b.len().saturating_sub(2)).any(|i| b[i] == b'%' && b[i + 1].is_ascii_hexdigit() && b[i + 2].is_ascii_hexdigit())
}

struct Ctx<'a> {
    mode: &'a Mode,
    hz: &'a [u16],
}

impl Ctx<'_> {
    fn on(&self, h: Hazard) -> bool {
        // active for the top `hazard_permille` draws: shrinking (towards 0) switches hazards off
        self.hz.get(h as usize).copied().unwrap_or(0) + self.mode.hazard_permille >= 1000 && self.mode.hazard_permille > 0
    }
    fn bcf(&self) -> bool {
        self.mode.target == Target::Bcf
    }
    fn fix_char(&self, c: char, info: bool, in_array: bool) -> char {
        let mut c = c;
        if self.bcf() {
            if !c.is_ascii() && !self.on(Hazard::CharNonAscii) {
                c = 'u';
            }
            // stored raw: only `.` / `,` inside arrays and `.` as FORMAT scalar are ambiguous
            if (c == '.' && (in_array || !info) || c == ',' && in_array) && !self.on(Hazard::DotValue) {
                c = 'd';
            }
        }
        c
    }
    fn fix_str(&self, s: &str, info: bool, in_array: bool) -> String {
        let mut s = s.to_string();
        if self.bcf() {
            s.retain(|c| c != '\0');
            if in_array && !self.on(Hazard::StrCommaInArray) {
                s = s.replace(',', "_");
            }
            if in_array && has_percent_escape(&s) && !self.on(Hazard::StrArrayPercentEscape) {
                s = s.replace('%', "p");
            }
            if s == "." && (in_array || !info) && !self.on(Hazard::DotValue) {
                s = "dot".into();
            }
        }
        if s.is_empty() {
            s = "s".into();
        }
        s
    }
}

fn info_value(d_num: Num, d_ty: Ty, p: &Pool, n_alt: usize, cx: &Ctx) -> Option<InfoValue> {
    let lens: &[usize] = if cx.mode.long_values { &UNKNOWN_LENS_LONG } else { &UNKNOWN_LENS };
    let n = cardinality(d_num, n_alt, 2, lens[pick_idx(p.len_sel, lens.len())]);
    if d_ty == Ty::Flag {
        return Some(InfoValue::Flag);
    }
    let scalar = d_num == Num::Count(1);
    if n == 0 {
        // Number=A with no ALT allele: the field has no values and is left out by the caller
        return None;
    }
    Some(match &p.vals {
        PoolVals::I(v) => {
            if scalar {
                InfoValue::Integer(v[0])
            } else {
                InfoValue::IntArray(with_missing(cyc(v, n), &p.miss, 10))
            }
        }
        PoolVals::F(v) => {
            if scalar {
                InfoValue::Float(v[0])
            } else {
                InfoValue::FloatArray(with_missing(cyc(v, n), &p.miss, 10))
            }
        }
        PoolVals::C(v) => {
            if scalar {
                InfoValue::Character(cx.fix_char(v[0], true, false))
            } else {
                InfoValue::CharArray(with_missing(cyc(v, n).into_iter().map(|c| cx.fix_char(c, true, true)).collect(), &p.miss, 10))
            }
        }
        PoolVals::S(v) => {
            if scalar {
                InfoValue::String(cx.fix_str(&v[0], true, false))
            } else {
                InfoValue::StrArray(with_missing(cyc(v, cap_for(v, n)).into_iter().map(|s| cx.fix_str(&s, true, true)).collect(), &p.miss, 10))
            }
        }
        PoolVals::None => InfoValue::Flag,
    })
}

fn sample_value(d_num: Num, _d_ty: Ty, p: &Pool, n_alt: usize, ploidy: usize, cx: &Ctx) -> Option<SampleValue> {
    let lens: &[usize] = if cx.mode.long_values { &UNKNOWN_LENS_LONG } else { &UNKNOWN_LENS };
    let n = cardinality(d_num, n_alt, ploidy, lens[pick_idx(p.len_sel, lens.len())]);
    let scalar = d_num == Num::Count(1);
    if n == 0 {
        return None;
    }
    Some(match &p.vals {
        PoolVals::I(v) => {
            if scalar {
                SampleValue::Integer(v[0])
            } else {
                SampleValue::IntArray(with_missing(cyc(v, n), &p.miss, 10))
            }
        }
        PoolVals::F(v) => {
            if scalar {
                SampleValue::Float(v[0])
            } else {
                SampleValue::FloatArray(with_missing(cyc(v, n), &p.miss, 10))
            }
        }
        PoolVals::C(v) => {
            if scalar {
                SampleValue::Character(cx.fix_char(v[0], false, false))
            } else {
                SampleValue::CharArray(with_missing(cyc(v, n).into_iter().map(|c| cx.fix_char(c, false, true)).collect(), &p.miss, 10))
            }
        }
        PoolVals::S(v) => {
            if scalar {
                SampleValue::String(cx.fix_str(&v[0], false, false))
            } else {
                SampleValue::StrArray(with_missing(cyc(v, cap_for(v, n)).into_iter().map(|s| cx.fix_str(&s, false, true)).collect(), &p.miss, 10))
            }
        }
        PoolVals::None => return None,
    })
}

fn one_element_missing_info(v: &InfoValue) -> bool {
    matches!(v, InfoValue::IntArray(a) if a.len() == 1 && a[0].is_none())
        || matches!(v, InfoValue::FloatArray(a) if a.len() == 1 && a[0].is_none())
        || matches!(v, InfoValue::CharArray(a) if a.len() == 1 && a[0].is_none())
        || matches!(v, InfoValue::StrArray(a) if a.len() == 1 && a[0].is_none())
}

fn one_element_missing_sample(v: &SampleValue) -> bool {
    matches!(v, SampleValue::IntArray(a) if a.len() == 1 && a[0].is_none())
        || matches!(v, SampleValue::FloatArray(a) if a.len() == 1 && a[0].is_none())
        || matches!(v, SampleValue::CharArray(a) if a.len() == 1 && a[0].is_none())
        || matches!(v, SampleValue::StrArray(a) if a.len() == 1 && a[0].is_none())
}

const SPANS: [u32; 12] = [0, 0, 1, 2, 10, 100, 1000, 16383, 16384, 20000, 200_000, 5_000_000];

fn build_record(h: &VarHeader, mode: &Mode, raw: RawRecord) -> VarRecord {
    let cx = Ctx { mode, hz: &raw.hz };
    let text = mode.target == Target::VcfText;
    // CHROM
    let chrom = if h.contigs.is_empty() || (text && mode.undeclared && raw.chrom_draw < 80) {
        if h.contigs.is_empty() && !text { "sq0".to_string() } else { raw.chrom_name.clone() }
    } else {
        h.contigs[pick_idx(raw.chrom_sel, h.contigs.len())].id.clone()
    };
    // POS (0 = telomere, rare)
    // (drawn from the top of the range so that shrinking moves away from the telomere class)
    let pos = if raw.pos_draw >= 994 && mode.telomere { 0 } else { raw.pos };
    // ID
    let mut ids: Vec<String> = Vec::new();
    for id in &raw.ids {
        let mut id: String = id.chars().filter(|c| !c.is_whitespace() && *c != ';').collect();
        if id.is_empty() || id == "." {
            id = "id".into();
        }
        if !ids.contains(&id) {
            ids.push(id);
        }
    }
    // REF (IUPAC codes: rare, VCF writers reduce them)
    let mut reference = raw.reference.clone();
    if raw.ref_draw < 3 && text {
        reference = reference.chars().enumerate().map(|(i, c)| if i == 0 { ['R', 'Y', 'k', 'M', 'w', 'S', 'B', 'd', 'H', 'V'][(raw.ref_draw as usize * 3 + raw.span_sel as usize) % 10] } else { c }).collect();
    }
    // ALT
    const STD_SYMBOLIC: [&str; 8] = ["DEL", "INS", "DUP", "INV", "CNV", "DUP:TANDEM", "*", "NON_REF"];
    let mut alts: Vec<String> = Vec::new();
    for a in &raw.alts {
        let s = match a {
            RawAlt::Bases(b) => b.clone(),
            RawAlt::Symbolic(sel) => {
                if !h.alts.is_empty() && sel % 4 != 0 {
                    format!("<{}>", h.alts[pick_idx(*sel, h.alts.len())].id)
                } else {
                    format!("<{}>", STD_SYMBOLIC[pick_idx(*sel, STD_SYMBOLIC.len())])
                }
            }
            RawAlt::Breakend(k, b, p) => {
                let mate = if h.contigs.is_empty() { "17".to_string() } else { h.contigs[(*p as usize) % h.contigs.len()].id.clone() };
                // a mate contig name with a comma-free alphabet is guaranteed by the contig grammar
                match k {
                    0 => format!("{b}[{mate}:{p}["),
                    1 => format!("{b}]{mate}:{p}]"),
                    2 => format!("]{mate}:{p}]{b}"),
                    3 => format!("[{mate}:{p}[{b}"),
                    4 => format!(".{b}"),
                    _ => format!("{b}."),
                }
            }
            RawAlt::Star => "*".to_string(),
            RawAlt::NonRef => "<*>".to_string(),
        };
        alts.push(s);
    }
    let n_alt = alts.len();
    // FILTER
    let declared: Vec<&String> = h.filters.iter().map(|d| &d.id).filter(|id| *id != "PASS").collect();
    let filters: Vec<String> = if raw.filter_kind < 30 {
        vec![]
    } else if raw.filter_kind < 55 || (declared.is_empty() && !(text && mode.undeclared && raw.filter_kind >= 93)) {
        vec!["PASS".to_string()]
    } else if raw.filter_kind < 93 || !(text && mode.undeclared) {
        let mut v: Vec<String> = Vec::new();
        for s in &raw.filter_sels {
            let id = declared[pick_idx(*s, declared.len())].clone();
            if !v.contains(&id) {
                v.push(id);
            }
        }
        v
    } else {
        vec![raw.filter_name.clone()]
    };
    // INFO
    let mut entries: Vec<(u16, String, Option<InfoValue>)> = Vec::new();
    for (d, p) in h.infos.iter().zip(&raw.infos) {
        if p.present >= 55 {
            continue;
        }
        let mut v = info_value(d.number, d.ty, p, n_alt, &cx);
        if v.is_none() && d.ty != Ty::Flag {
            // cardinality 0 (Number=A without ALT): leave the field out
            continue;
        }
        if d.id == "END" && d.ty == Ty::Integer && d.number == Num::Count(1) {
            let span = SPANS[pick_idx(raw.span_sel, SPANS.len())];
            v = Some(InfoValue::Integer((pos.max(1) as u64 + span as u64).min(i32::MAX as u64) as i32));
        }
        if d.id == "SVLEN" && h.minor >= 5 {
            v = v.map(|v| match v {
                InfoValue::IntArray(a) => InfoValue::IntArray(a.into_iter().map(|x| x.map(|n| (n as i64).unsigned_abs().min(3_000_000) as i32)).collect()),
                InfoValue::Integer(n) => InfoValue::Integer((n as i64).unsigned_abs().min(3_000_000) as i32),
                v => v,
            });
        }
        // a Flag has no value entry in the VCF grammar, so `FLAG=.` is not generated
        let whole_missing = d.ty != Ty::Flag && (p.whole_missing < 6 || v.as_ref().map(one_element_missing_info).unwrap_or(false));
        // `KEY=.`; a lone missing element (`[.]`) is the same thing in either format
        if whole_missing {
            v = None;
        }
        entries.push((p.order, d.id.clone(), v));
    }
    if text && mode.undeclared {
        let (keys, wi, wf, wc, ws) = &raw.wild;
        for (kind, order, name) in keys {
            if *kind < 40 {
                continue;
            }
            if *kind < 60 && h.minor >= 3 {
                // reserved id without a header line: typed by the specification's definition
                let id = RESERVED_INFO_IDS[pick_idx(*order, RESERVED_INFO_IDS.len())];
                if h.info(id).is_some() || id == "END" || entries.iter().any(|e| e.1 == id) {
                    continue;
                }
                if let Some((num, ty)) = reserved_info_def(h.minor, id) {
                    let vals = match ty {
                        Ty::Integer => PoolVals::I(wi.clone()),
                        Ty::Float => PoolVals::F(wf.clone()),
                        Ty::Character => PoolVals::C(wc.clone()),
                        Ty::String => PoolVals::S(ws.clone()),
                        Ty::Flag => PoolVals::None,
                    };
                    let p = Pool { vals, miss: vec![50], len_sel: *order, present: 0, order: *order, whole_missing: 50 };
                    let mut v = info_value(num, ty, &p, n_alt, &cx);
                    if id == "SVLEN" && h.minor >= 5 {
                        v = v.map(|v| match v {
                            InfoValue::IntArray(a) => InfoValue::IntArray(a.into_iter().map(|x| x.map(|n| (n as i64).unsigned_abs().min(3_000_000) as i32)).collect()),
                            v => v,
                        });
                    }
                    if v.is_some() {
                        entries.push((*order, id.to_string(), v));
                    }
                }
            } else if !entries.iter().any(|e| &e.1 == name) && h.info(name).is_none() {
                // undeclared custom id: a String (Number=1) or a Flag
                let v = if *kind < 85 { Some(InfoValue::String(cx.fix_str(&ws[0], true, false))) } else if *kind < 95 { Some(InfoValue::Flag) } else { None };
                entries.push((*order, name.clone(), v));
            }
        }
    }
    entries.sort_by_key(|e| e.0);
    let info: Vec<(String, Option<InfoValue>)> = entries.into_iter().map(|(_, k, v)| (k, v)).collect();
    // FORMAT / samples
    let ns = h.samples.len();
    let mut format: Vec<String> = Vec::new();
    let mut samples: Vec<Vec<Option<SampleValue>>> = vec![Vec::new(); ns];
    if ns > 0 {
        // ploidy per sample
        let pmax = raw.ploidy_max.max(1) as usize;
        let ploidy: Vec<usize> = (0..ns)
            .map(|i| {
                let d = raw.sample_ploidy[i];
                if i == 0 || d < 62 {
                    pmax
                } else if d < 72 {
                    1
                } else {
                    1 + (d as usize) % pmax.max(1)
                }
            })
            .collect();
        let mut chosen: Vec<usize> = (0..h.formats.len()).filter(|&i| raw.fmts[i].0 < 60).collect();
        // no key drawn: usually force one; one time in three the record has no FORMAT column at
        // all although the header names samples (8 columns in text, l_indiv = 0 in BCF) — the
        // shape that exposes state left over in a reused record buffer
        if chosen.is_empty() && !h.formats.is_empty() && (raw.span_sel as usize / h.formats.len().max(1)) % 3 != 0 {
            chosen.push((raw.span_sel as usize) % h.formats.len());
        }
        // GT, if chosen, goes first
        if let Some(p) = chosen.iter().position(|&i| h.formats[i].id == "GT") {
            let g = chosen.remove(p);
            chosen.insert(0, g);
        }
        let undeclared_gt = text && mode.undeclared && h.format("GT").is_none() && raw.extra_fmt.0 < 25;
        if undeclared_gt {
            format.push("GT".to_string());
        }
        for &fi in &chosen {
            format.push(h.formats[fi].id.clone());
        }
        let extra_key = text && mode.undeclared && raw.extra_fmt.0 >= 90 && h.format(&raw.extra_fmt.1).is_none();
        if extra_key || format.is_empty() {
            if text && mode.undeclared {
                format.push(raw.extra_fmt.1.clone());
            }
        }
        let gt_value = |si: usize| -> Option<SampleValue> {
            let mut al: Vec<Allele> = raw.gts[si][..ploidy[si].min(4)]
                .iter()
                .map(|(sel, miss, ph)| {
                    let a = if *miss < 12 { None } else { Some(pick_idx(*sel, n_alt + 1) as u32) };
                    (a, *ph)
                })
                .collect();
            if h.minor < 4 {
                al[0].1 = implicit_first_phasing(&al);
            }
            Some(SampleValue::Genotype(al))
        };
        // a value that is never missing (used where a missing one would leave the safe domain)
        let solid = |key: &str, declared_fi: Option<usize>, si: usize| -> SampleValue {
            if key == "GT" {
                let mut g = match gt_value(si) {
                    Some(SampleValue::Genotype(g)) => g,
                    _ => vec![(Some(0), true)],
                };
                if g.len() == 1 && g[0].0.is_none() {
                    g[0].0 = Some(0);
                }
                return SampleValue::Genotype(g);
            }
            let Some(fi) = declared_fi else {
                return SampleValue::String(cx.fix_str(&raw.wild.4[si % raw.wild.4.len()], false, false));
            };
            let d = &h.formats[fi];
            let p = &raw.fmts[fi].1[si];
            let n = cardinality(d.number, n_alt, ploidy[si], 1).max(1);
            let scalar = d.number == Num::Count(1);
            match &p.vals {
                PoolVals::I(v) => {
                    if scalar {
                        SampleValue::Integer(v[0])
                    } else {
                        SampleValue::IntArray(cyc(v, n).into_iter().map(Some).collect())
                    }
                }
                PoolVals::F(v) => {
                    if scalar {
                        SampleValue::Float(v[0])
                    } else {
                        SampleValue::FloatArray(cyc(v, n).into_iter().map(Some).collect())
                    }
                }
                PoolVals::C(v) => {
                    if scalar {
                        SampleValue::Character(cx.fix_char(v[0], false, false))
                    } else {
                        SampleValue::CharArray(cyc(v, n).into_iter().map(|c| Some(cx.fix_char(c, false, true))).collect())
                    }
                }
                PoolVals::S(v) => {
                    if scalar {
                        SampleValue::String(cx.fix_str(&v[0], false, false))
                    } else {
                        SampleValue::StrArray(cyc(v, cap_for(v, n)).into_iter().map(|s| Some(cx.fix_str(&s, false, true))).collect())
                    }
                }
                PoolVals::None => SampleValue::Integer(0),
            }
        };
        for (ki, key) in format.clone().iter().enumerate() {
            let declared_fi = chosen.iter().copied().find(|&fi| &h.formats[fi].id == key);
            let mut col: Vec<Option<SampleValue>> = Vec::with_capacity(ns);
            for si in 0..ns {
                let v = if key == "GT" {
                    let missing_gt = raw.gts[si][0].1 >= 97;
                    if missing_gt && (!cx.bcf() || cx.on(Hazard::GtMissing)) { None } else { gt_value(si) }
                } else if let Some(fi) = declared_fi {
                    let d = &h.formats[fi];
                    let p = &raw.fmts[fi].1[si];
                    let mut v = sample_value(d.number, d.ty, p, n_alt, ploidy[si], &cx);
                    if d.id == "LEN" && h.minor >= 5 {
                        v = v.map(|v| match v {
                            SampleValue::Integer(n) => SampleValue::Integer((n as i64).unsigned_abs().min(3_000_000) as i32),
                            v => v,
                        });
                    }
                    if p.whole_missing < 12 || v.as_ref().map(one_element_missing_sample).unwrap_or(false) { None } else { v }
                } else {
                    // undeclared key: String, Number=1
                    Some(SampleValue::String(cx.fix_str(&raw.wild.4[si % raw.wild.4.len()], false, false)))
                };
                col.push(v);
            }
            // BCF: a column in which every sample is missing is a hazard class; otherwise give
            // the first sample a value
            if cx.bcf() && key != "GT" && col.iter().all(|v| v.is_none()) && !cx.on(Hazard::ColumnAllMissing) {
                col[0] = Some(solid(key, declared_fi, 0));
            }
            let _ = ki;
            for (si, v) in col.into_iter().enumerate() {
                samples[si].push(v);
            }
        }
        // trailing fields dropped
        for (si, row) in samples.iter_mut().enumerate() {
            let (draw, n) = raw.drops[si];
            if draw < 15 && !row.is_empty() {
                // BCF has no way to say "dropped" for the first key (a missing GT is a gated class);
                // in text all fields may go: the sample column is then `.`
                let keep_min = if cx.bcf() { 1 } else { 0 };
                let n = (n as usize).min(row.len() - keep_min.min(row.len()));
                row.truncate(row.len() - n);
            }
        }
        // BCF: dropping fields must not leave a column in which every sample is missing
        if cx.bcf() && !cx.on(Hazard::ColumnAllMissing) {
            for ki in 0..format.len() {
                if format[ki] == "GT" {
                    continue;
                }
                if samples.iter().all(|row| row.get(ki).map(|v| v.is_none()).unwrap_or(true)) {
                    let declared_fi = chosen.iter().copied().find(|&fi| h.formats[fi].id == format[ki]);
                    while samples[0].len() <= ki {
                        samples[0].push(None);
                    }
                    samples[0][ki] = Some(solid(&format[ki], declared_fi, 0));
                }
            }
        }
        if format.is_empty() {
            // a header with samples but no FORMAT definitions (BCF target): no way to write sample
            // columns — the generator's header() guarantees this only happens with no formats
            samples = vec![Vec::new(); ns];
        }
    }
    let mut r = VarRecord { chrom, pos, ids, reference, alts, qual: raw.qual, filters, info, format, samples };
    // fileformat 4.5: FORMAT LEN and INFO SVLEN take part in the span arithmetic and must be ≥ 0
    if h.minor >= 5 {
        let fix = |n: i32| (n as i64).unsigned_abs().min(3_000_000) as i32;
        if let Some(ki) = r.format.iter().position(|k| k == "LEN") {
            for row in r.samples.iter_mut() {
                match row.get_mut(ki) {
                    Some(Some(SampleValue::Integer(n))) => *n = fix(*n),
                    Some(Some(SampleValue::IntArray(a))) => a.iter_mut().for_each(|x| *x = x.map(fix)),
                    _ => {}
                }
            }
        }
        for (k, v) in r.info.iter_mut() {
            if k == "SVLEN" {
                match v {
                    Some(InfoValue::Integer(n)) => *n = fix(*n),
                    Some(InfoValue::IntArray(a)) => a.iter_mut().for_each(|x| *x = x.map(fix)),
                    _ => {}
                }
            }
        }
    }
    if r.format.is_empty() {
        r.samples.clear();
    }
    r
}

/// A header and 0..=max_records records consistent with it.
pub fn document(tier: Tier, mode: &Mode) -> BoxedStrategy<VarDoc> {
    let mode = mode.clone();
    let n = mode.max_records;
    header(tier, &mode)
        .prop_flat_map(move |h| {
            let hh = h.clone();
            proptest::collection::vec(record(&h, &mode), 0..=n).prop_map(move |records| VarDoc { header: hh.clone(), records })
        })
        .boxed()
}
