//! G-layout: BGZF files assembled block by block by the harness itself (deflate through
//! `miniz_oxide`, see `oracle::bgzf_walk::build_member`), with empty blocks mid-file, ISIZE = 65536
//! blocks and the EOF marker present or absent; plus the flat-array + block-table reference model
//! that C02/C03 compare readers against.

use crate::oracle::bgzf_walk::{self, EOF_MARKER};
use crate::r#gen::payload::Payload;
use proptest::prelude::*;
use serde::{Deserialize, Serialize};

#[derive(Clone, Debug, Serialize, Deserialize, PartialEq)]
pub struct Layout {
    /// content of every block (len ≤ 65536 each; 0 = empty block)
    pub blocks: Vec<Payload>,
    /// append the 28-byte EOF marker
    pub eof: bool,
    /// miniz_oxide level used for the members (0..=9)
    pub level: u8,
}

#[derive(Clone, Debug)]
pub struct Blk {
    /// compressed offset of the member
    pub cpos: u64,
    /// member length
    pub clen: u64,
    /// uncompressed offset of the member's first byte
    pub ustart: u64,
    /// uncompressed length
    pub len: u64,
}

/// The reference model: flat uncompressed array + block table.
#[derive(Clone, Debug)]
pub struct Model {
    pub file: Vec<u8>,
    pub flat: Vec<u8>,
    /// every member of the file in order, including empty ones and the EOF marker
    pub table: Vec<Blk>,
}

impl Layout {
    /// Assemble the file. A block that does not fit a member at the requested level is rebuilt at
    /// level 6 and, if it still does not fit (incompressible data), cut to 65495 bytes — a
    /// deterministic function of the case.
    pub fn build(&self) -> Model {
        let mut file = Vec::new();
        let mut flat = Vec::new();
        let mut table = Vec::new();
        for b in &self.blocks {
            let mut data = Payload { class: b.class, len: b.len.min(65536), seed: b.seed }.expand();
            let member = match bgzf_walk::build_member(&data, self.level.min(10)) {
                Some(m) => m,
                None => match bgzf_walk::build_member(&data, 6) {
                    Some(m) => m,
                    None => {
                        data.truncate(65495);
                        match bgzf_walk::build_member(&data, 6) {
                            Some(m) => m,
                            None => {
                                data.truncate(60000);
                                bgzf_walk::build_member(&data, 6).expect("60000 bytes fit a member")
                            }
                        }
                    }
                },
            };
            table.push(Blk { cpos: file.len() as u64, clen: member.len() as u64, ustart: flat.len() as u64, len: data.len() as u64 });
            file.extend_from_slice(&member);
            flat.extend_from_slice(&data);
        }
        if self.eof {
            table.push(Blk { cpos: file.len() as u64, clen: EOF_MARKER.len() as u64, ustart: flat.len() as u64, len: 0 });
            file.extend_from_slice(&EOF_MARKER);
        }
        Model { file, flat, table }
    }
}

impl Model {
    /// Model of an arbitrary well-formed BGZF file, through the independent walker.
    pub fn from_file(file: &[u8]) -> Result<Model, String> {
        let members = bgzf_walk::walk(file)?;
        let table = members.iter().map(|m| Blk { cpos: m.cpos, clen: m.clen as u64, ustart: m.ustart, len: m.data.len() as u64 }).collect();
        Ok(Model { file: file.to_vec(), flat: bgzf_walk::concat(&members), table })
    }

    pub fn total(&self) -> u64 {
        self.flat.len() as u64
    }

    pub fn file_len(&self) -> u64 {
        self.file.len() as u64
    }

    /// Index of the member that starts at compressed offset `cpos`.
    pub fn block_at(&self, cpos: u64) -> Option<usize> {
        self.table.binary_search_by(|b| b.cpos.cmp(&cpos)).ok()
    }

    /// The uncompressed offset a virtual position names: `(c, u)` with `c` the start of a member
    /// and `u` ≤ its length, or `(file_len, 0)`. `None` when it names no byte boundary.
    pub fn resolve(&self, c: u64, u: u16) -> Option<u64> {
        if let Some(i) = self.block_at(c) {
            let b = &self.table[i];
            if u as u64 <= b.len { Some(b.ustart + u as u64) } else { None }
        } else if c == self.file_len() && u == 0 {
            Some(self.total())
        } else {
            None
        }
    }

    /// Index of the non-empty block containing uncompressed offset `off` (`None` at the end).
    pub fn block_of(&self, off: u64) -> Option<usize> {
        if off >= self.total() {
            return None;
        }
        // last block with ustart <= off that is non-empty
        let i = self.table.partition_point(|b| b.ustart <= off);
        (0..i).rev().find(|&j| self.table[j].len > 0 && self.table[j].ustart <= off && off < self.table[j].ustart + self.table[j].len)
    }

    /// Bytes left in the block that holds `off` (0 at the end of the stream).
    pub fn rest_of_block(&self, off: u64) -> u64 {
        match self.block_of(off) {
            Some(i) => self.table[i].ustart + self.table[i].len - off,
            None => 0,
        }
    }

    pub fn nonempty(&self) -> Vec<usize> {
        (0..self.table.len()).filter(|&i| self.table[i].len > 0).collect()
    }

    /// gzi index the way `bgzip -i` defines it: one `(compressed, uncompressed)` pair for every
    /// member after the first. `drop_terminator`: leave out the record of a final empty member
    /// (htslib writes that record only when it indexes while reading).
    pub fn gzi(&self, drop_terminator: bool) -> Vec<(u64, u64)> {
        let mut v: Vec<(u64, u64)> = self.table.iter().skip(1).map(|b| (b.cpos, b.ustart)).collect();
        if drop_terminator && self.table.len() > 1 && self.table.last().map(|b| b.len == 0).unwrap_or(false) {
            v.pop();
        }
        v
    }

    pub fn has_mid_empty(&self) -> bool {
        // an empty member with a non-empty member somewhere after it
        let last_nonempty = self.table.iter().rposition(|b| b.len > 0);
        match last_nonempty {
            Some(l) => self.table[..l].iter().any(|b| b.len == 0),
            None => false,
        }
    }
}

fn block_len() -> BoxedStrategy<u32> {
    prop_oneof![
        3 => Just(0u32),
        7 => 1u32..=40,
        3 => 41u32..=3000,
        1 => 3001u32..=65000,
        2 => proptest::sample::select(vec![65279u32, 65280, 65281, 65494, 65495, 65496, 65535, 65536]),
        1 => Just(65536u32),
    ]
    .boxed()
}

pub fn block() -> BoxedStrategy<Payload> {
    (0u8..6, block_len(), any::<u32>()).prop_map(|(class, len, seed)| Payload { class, len, seed }).boxed()
}

/// Small blocks only (cheap cases with many block boundaries).
pub fn small_block() -> BoxedStrategy<Payload> {
    (0u8..6, prop_oneof![2 => Just(0u32), 8 => 1u32..=24, 1 => 25u32..=600], any::<u32>()).prop_map(|(class, len, seed)| Payload { class, len, seed }).boxed()
}

pub fn layout(max_blocks: usize) -> BoxedStrategy<Layout> {
    let blocks = prop_oneof![
        4 => proptest::collection::vec(block(), 0..=max_blocks),
        2 => proptest::collection::vec(small_block(), 0..=max_blocks.max(2) * 2),
    ];
    (blocks, prop_oneof![2 => Just(true), 1 => Just(false)], 0u8..=9).prop_map(|(blocks, eof, level)| Layout { blocks, eof, level }).boxed()
}
