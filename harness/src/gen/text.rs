//! G-fasta / G-fastq / G-gff / G-gtf / G-bed: plain serialisable models of the line-oriented
//! formats, proptest strategies for them, harness-built renderings (`render()`), conversions to
//! the noodles value types (`to_noodles()`), writers through noodles (`write_with_noodles()`), and
//! a canonical one-line text per record (`canonical_text()`) for transcripts.
//!
//! API at a glance (every model is `Clone + Debug + Serialize + Deserialize + PartialEq`):
//!   FASTA  `FastaDoc{records: Vec<FastaRec>, layout}` · `FastaDocSpec` (compact, `.expand()`) ·
//!          `fasta_doc()`, `fasta_doc_spec(max_records, max_lines, max_width)` · `render()`,
//!          `render_as_writer(w)`, `to_noodles()`, `write_with_noodles(w)`, `write_with_noodles_to(W, w)`
//!          · `FastaRec::canonical_text()`, `canonical_fasta_record(&fasta::Record)`, `fasta_read_transcript(R)`
//!   FASTQ  `FastqDoc{records: Vec<FastqRec>, layout}` · `fastq_doc(max_records)` · `render()`,
//!          `render_as_writer()`, `to_noodles()`, `write_with_noodles()`, `write_with_noodles_to(W)` ·
//!          `canonical_text()`, `canonical_fastq_record`, `fastq_read_transcript(R)`
//!   GFF3   `GffDoc{lines: Vec<GffLine>}` (`Directive | Comment | Record(FeatRec)`) ·
//!          `gff_doc(max_lines, seqid_plain_only, comments)` · `render(crlf, blank_every)`,
//!          `to_noodles()`, `write_with_noodles()`, `write_with_noodles_to(W)` · `canonical_text()`,
//!          `canonical_gff_line(&gff::LineBuf)`, `gff_read_transcript(R)`
//!   GTF    `GtfDoc{lines: Vec<GtfLine>}` · `gtf_doc(max_lines, allow_quotes)` · `render(crlf)`,
//!          `render_with(crlf, bare_numbers)`, `to_noodles()`, `write_with_noodles()` … `gtf_read_transcript(R)`
//!   BED    `BedDoc{n: 3..=6, records: Vec<BedRec>, comments}` · `bed_doc(max_records)` · `render(crlf)`,
//!          `write_with_noodles()`, `write_with_noodles_to(W)`, `BedRec::to_noodles_{3,4,5,6}()` ·
//!          `BedRec::canonical_text(n)`, `bed_read_transcript(n, R)`
//!
//! No property-specific logic lives here. All strategies stay inside what the noodles writers
//! validate (see the notes next to each generator); values a format cannot represent at all (a BED
//! name that is the missing marker `.`, a GTF seqid starting with `#`, …) are never generated.

use crate::r#gen::payload::XorShift;
use bstr::BString;
use noodles_bed as bed;
use noodles_core::Position;
use noodles_fasta as fasta;
use noodles_fastq as fastq;
use noodles_gff as gff;
use noodles_gtf as gtf;
use proptest::prelude::*;
use serde::{Deserialize, Serialize};
use std::io::{self, Write};
use std::num::NonZero;

// ------------------------------------------------------------------------------------------------
// character / string helpers

/// Weighted union of explicit character sets.
pub fn chars_from(classes: Vec<(u32, Vec<char>)>) -> BoxedStrategy<char> {
    let arms: Vec<(u32, BoxedStrategy<char>)> = classes.into_iter().filter(|(_, v)| !v.is_empty()).map(|(w, v)| (w, proptest::sample::select(v).boxed())).collect();
    proptest::strategy::Union::new_weighted(arms).boxed()
}

pub fn string_of(ch: BoxedStrategy<char>, min: usize, max: usize) -> BoxedStrategy<String> {
    proptest::collection::vec(ch, min..=max).prop_map(|v| v.into_iter().collect()).boxed()
}

fn range_chars(a: u8, b: u8) -> Vec<char> {
    (a..=b).map(|x| x as char).collect()
}

pub fn alnum() -> Vec<char> {
    let mut v = range_chars(b'a', b'z');
    v.extend(range_chars(b'A', b'Z'));
    v.extend(range_chars(b'0', b'9'));
    v
}

/// Printable ASCII without space.
pub fn graph() -> Vec<char> {
    range_chars(0x21, 0x7e)
}

/// A few non-ASCII scalars of every UTF-8 length (2, 3 and 4 bytes).
pub fn non_ascii() -> Vec<char> {
    vec!['é', 'ß', '\u{a0}', 'Ω', '中', '\u{2028}', '€', '😀', '\u{10ffff}']
}

/// `[A-Za-z0-9_]{1,max}`
pub fn ident(max: usize) -> BoxedStrategy<String> {
    let mut v = alnum();
    v.push('_');
    string_of(proptest::sample::select(v).boxed(), 1, max)
}

fn hex(b: u8, upper: bool) -> [u8; 3] {
    const LO: &[u8; 16] = b"0123456789abcdef";
    const UP: &[u8; 16] = b"0123456789ABCDEF";
    let t = if upper { UP } else { LO };
    [b'%', t[(b >> 4) as usize], t[(b & 15) as usize]]
}

fn dedup_names<'a>(names: impl Iterator<Item = &'a mut String>) {
    let mut seen: Vec<String> = Vec::new();
    for (i, n) in names.enumerate() {
        if seen.iter().any(|s| s == n) {
            n.push_str(&format!("_{i}"));
        }
        seen.push(n.clone());
    }
}

// ================================================================================================
// FASTA

#[derive(Clone, Debug, Serialize, Deserialize, PartialEq)]
pub struct FastaRec {
    /// non-empty, no ASCII whitespace
    pub name: String,
    /// `Some` ⇒ non-empty, no leading/trailing ASCII whitespace, no line terminators
    pub description: Option<String>,
    /// bases (ASCII letters, `*`, `-`)
    pub seq: String,
    /// bases per line used by `render()`
    pub width: u16,
    /// blank lines emitted after the last sequence line by `render()`
    pub blank_after: u8,
}

#[derive(Clone, Debug, Serialize, Deserialize, PartialEq)]
pub struct FastaLayout {
    pub crlf: bool,
    /// separator between name and description: 0 = one space, 1 = tab, 2 = two spaces
    pub sep: u8,
    /// `false`: the terminator of the very last line of the file is omitted
    pub final_newline: bool,
}

impl Default for FastaLayout {
    fn default() -> Self {
        FastaLayout { crlf: false, sep: 0, final_newline: true }
    }
}

#[derive(Clone, Debug, Serialize, Deserialize, PartialEq)]
pub struct FastaDoc {
    pub records: Vec<FastaRec>,
    pub layout: FastaLayout,
}

impl FastaRec {
    pub fn to_noodles(&self) -> fasta::Record {
        use fasta::record::{Definition, Sequence};
        fasta::Record::new(Definition::new(self.name.as_bytes(), self.description.as_ref().map(|d| BString::from(d.as_bytes()))), Sequence::from(self.seq.as_bytes().to_vec()))
    }

    pub fn canonical_text(&self) -> String {
        canonical_fasta(self.name.as_bytes(), self.description.as_ref().map(|d| d.as_bytes()), self.seq.as_bytes())
    }
}

pub fn canonical_fasta(name: &[u8], description: Option<&[u8]>, seq: &[u8]) -> String {
    format!("fasta name={:?} desc={:?} seq={}", BString::from(name), description.map(BString::from), String::from_utf8_lossy(seq))
}

/// Canonical text of a record read by noodles (same form as `FastaRec::canonical_text`).
pub fn canonical_fasta_record(r: &fasta::Record) -> String {
    canonical_fasta(r.name(), r.description().map(|d| { let b: &[u8] = d.as_ref(); b }), r.sequence().as_ref())
}

impl FastaDoc {
    /// The file as the harness builds it: each record wrapped at its own `width`, the layout's
    /// terminator, `blank_after` empty lines after a record.
    pub fn render(&self) -> Vec<u8> {
        let nl: &[u8] = if self.layout.crlf { b"\r\n" } else { b"\n" };
        let mut out = Vec::new();
        for r in &self.records {
            out.push(b'>');
            out.extend_from_slice(r.name.as_bytes());
            if let Some(d) = &r.description {
                out.extend_from_slice(match self.layout.sep {
                    1 => b"\t",
                    2 => b"  ",
                    _ => b" ",
                });
                out.extend_from_slice(d.as_bytes());
            }
            out.extend_from_slice(nl);
            for line in r.seq.as_bytes().chunks(r.width.max(1) as usize) {
                out.extend_from_slice(line);
                out.extend_from_slice(nl);
            }
            for _ in 0..r.blank_after {
                out.extend_from_slice(nl);
            }
        }
        if !self.layout.final_newline && out.ends_with(nl) {
            out.truncate(out.len() - nl.len());
        }
        out
    }

    /// The bytes `fasta::io::Writer` must produce at `line_bases`: LF, no blank lines, one space
    /// before the description.
    pub fn render_as_writer(&self, line_bases: usize) -> Vec<u8> {
        let d = FastaDoc {
            records: self.records.iter().map(|r| FastaRec { width: line_bases.min(u16::MAX as usize) as u16, blank_after: 0, ..r.clone() }).collect(),
            layout: FastaLayout::default(),
        };
        d.render()
    }

    pub fn to_noodles(&self) -> Vec<fasta::Record> {
        self.records.iter().map(|r| r.to_noodles()).collect()
    }

    pub fn write_with_noodles_to<W: Write>(&self, w: W, line_bases: usize) -> io::Result<W> {
        let lb = NonZero::new(line_bases.max(1)).unwrap_or(NonZero::<usize>::MIN);
        let mut writer = fasta::io::writer::Builder::default().set_line_base_count(lb).build_from_writer(w);
        for r in self.to_noodles() {
            writer.write_record(&r)?;
        }
        Ok(writer.into_inner())
    }

    pub fn write_with_noodles(&self, line_bases: usize) -> io::Result<Vec<u8>> {
        self.write_with_noodles_to(Vec::new(), line_bases)
    }
}

/// Compact description of a FASTA record: the sequence is expanded from `(len, seed)`.
#[derive(Clone, Debug, Serialize, Deserialize, PartialEq)]
pub struct FastaRecSpec {
    pub name: String,
    pub description: Option<String>,
    pub len: u32,
    pub seed: u32,
    pub width: u16,
    pub blank_after: u8,
}

#[derive(Clone, Debug, Serialize, Deserialize, PartialEq)]
pub struct FastaDocSpec {
    pub records: Vec<FastaRecSpec>,
    pub layout: FastaLayout,
}

const BASES: &[u8] = b"ACGTACGTACGTNacgtnRYKMSWBDHV*-";

pub fn expand_seq(len: u32, seed: u32) -> String {
    let mut r = XorShift::new(seed as u64 + 0x5eed);
    let mut s = String::with_capacity(len as usize);
    for _ in 0..len {
        s.push(BASES[(r.next() % BASES.len() as u64) as usize] as char);
    }
    s
}

impl FastaDocSpec {
    pub fn expand(&self) -> FastaDoc {
        FastaDoc {
            records: self
                .records
                .iter()
                .map(|r| FastaRec { name: r.name.clone(), description: r.description.clone(), seq: expand_seq(r.len, r.seed), width: r.width.max(1), blank_after: r.blank_after })
                .collect(),
            layout: self.layout.clone(),
        }
    }
}

/// FASTA / FASTQ names: non-empty, no whitespace; mostly identifiers, sometimes any printable
/// ASCII (incl. `>`, `@`, `:`, `|`) or non-ASCII UTF-8.
pub fn seq_name() -> BoxedStrategy<String> {
    let wide = chars_from(vec![(6, alnum()), (3, graph()), (1, non_ascii())]);
    prop_oneof![
        4 => ident(8),
        2 => string_of(wide, 1, 12),
        1 => (ident(4), 1u32..30, ident(3)).prop_map(|(a, n, b)| format!("{a}|{n}:{b}.1")),
    ]
    .boxed()
}

/// Free text for FASTA descriptions: printable ASCII with inner spaces/tabs, some UTF-8; first and
/// last characters are never whitespace; never empty.
pub fn description_text() -> BoxedStrategy<String> {
    let mut inner = graph();
    inner.push(' ');
    inner.push(' ');
    inner.push('\t');
    let inner = chars_from(vec![(8, inner), (1, non_ascii())]);
    let edge = chars_from(vec![(8, graph()), (1, non_ascii())]);
    (edge.clone(), string_of(inner, 0, 20), proptest::option::of(edge)).prop_map(|(a, mid, z)| {
        let mut s = String::new();
        s.push(a);
        if let Some(z) = z {
            s.push_str(&mid);
            s.push(z);
        }
        s
    })
    .boxed()
}

pub fn line_width(max: u16) -> BoxedStrategy<u16> {
    let max = max.max(1);
    let named: Vec<u16> = vec![1, 2, 3, 4, 5, 7, 8, 10, 50, 59, 60, 61, 63, 64, 65, 70, 79, 80, 81, 100, 127, 128, 199, 200].into_iter().filter(|w| *w <= max).collect();
    prop_oneof![
        3 => proptest::sample::select(named),
        3 => 1u16..=max.min(12),
        2 => 1u16..=max,
    ]
    .boxed()
}

fn fasta_rec_spec(width: BoxedStrategy<u16>, max_lines: u32) -> BoxedStrategy<FastaRecSpec> {
    (
        seq_name(),
        proptest::option::weighted(0.4, description_text()),
        width,
        1u32..=max_lines.max(1),
        // 0 = full last line, otherwise a selector for 1..=width
        prop_oneof![1 => Just(0u16), 3 => 1u16..=u16::MAX],
        any::<u32>(),
        prop_oneof![3 => Just(0u8), 2 => Just(1u8), 1 => Just(2u8)],
    )
        .prop_map(|(name, description, width, lines, last_sel, seed, blank_after)| {
            let w = width.max(1) as u32;
            let last = if last_sel == 0 { w } else { 1 + ((last_sel as u32 - 1) * w >> 16).min(w - 1) };
            FastaRecSpec { name, description, len: (lines - 1) * w + last, seed, width, blank_after }
        })
        .boxed()
}

pub fn fasta_layout() -> BoxedStrategy<FastaLayout> {
    (prop_oneof![3 => Just(false), 2 => Just(true)], prop_oneof![6 => Just(0u8), 1 => Just(1u8), 1 => Just(2u8)], prop_oneof![9 => Just(true), 1 => Just(false)])
        .prop_map(|(crlf, sep, final_newline)| FastaLayout { crlf, sep, final_newline })
        .boxed()
}

/// 1..=`max_records` records of 1..=`max_lines` lines at widths 1..=`max_width`; two thirds of the
/// documents use one width for all records.
pub fn fasta_doc_spec(max_records: usize, max_lines: u32, max_width: u16) -> BoxedStrategy<FastaDocSpec> {
    let uniform = line_width(max_width).prop_flat_map(move |w| proptest::collection::vec(fasta_rec_spec(Just(w).boxed(), max_lines), 1..=max_records));
    let mixed = proptest::collection::vec(fasta_rec_spec(line_width(max_width), max_lines), 1..=max_records);
    // blank lines are a document-level decision (one document in four), so that most documents
    // stay strictly uniform
    (prop_oneof![2 => uniform.boxed(), 1 => mixed.boxed()], fasta_layout(), prop_oneof![3 => Just(false), 1 => Just(true)])
        .prop_map(|(mut records, layout, blanks)| {
            if !blanks {
                records.iter_mut().for_each(|r| r.blank_after = 0);
            }
            dedup_names(records.iter_mut().map(|r| &mut r.name));
            FastaDocSpec { records, layout }
        })
        .boxed()
}

pub fn fasta_doc() -> BoxedStrategy<FastaDoc> {
    fasta_doc_spec(6, 5, 200).prop_map(|s| s.expand()).boxed()
}

// ================================================================================================
// FASTQ

#[derive(Clone, Debug, Serialize, Deserialize, PartialEq)]
pub struct FastqRec {
    /// no space, tab or line terminator
    pub name: String,
    /// may be empty; no line terminators
    pub description: String,
    pub seq: String,
    /// same length as `seq`; `!`..`~`
    pub qual: String,
}

#[derive(Clone, Debug, Serialize, Deserialize, PartialEq)]
pub struct FastqLayout {
    pub crlf: bool,
    /// name/description separator: tab instead of space
    pub sep_tab: bool,
    /// `render()` repeats the definition after `+`
    pub plus_repeats_name: bool,
    pub final_newline: bool,
}

impl Default for FastqLayout {
    fn default() -> Self {
        FastqLayout { crlf: false, sep_tab: false, plus_repeats_name: false, final_newline: true }
    }
}

#[derive(Clone, Debug, Serialize, Deserialize, PartialEq)]
pub struct FastqDoc {
    pub records: Vec<FastqRec>,
    pub layout: FastqLayout,
}

pub fn canonical_fastq(name: &[u8], description: &[u8], seq: &[u8], qual: &[u8]) -> String {
    format!("fastq name={:?} desc={:?} seq={} qual={:?}", BString::from(name), BString::from(description), String::from_utf8_lossy(seq), BString::from(qual))
}

pub fn canonical_fastq_record(r: &fastq::Record) -> String {
    canonical_fastq(r.name(), r.description(), r.sequence(), r.quality_scores())
}

impl FastqRec {
    pub fn to_noodles(&self) -> fastq::Record {
        fastq::Record::new(fastq::record::Definition::new(self.name.as_bytes(), self.description.as_bytes()), self.seq.as_bytes(), self.qual.as_bytes())
    }
    pub fn canonical_text(&self) -> String {
        canonical_fastq(self.name.as_bytes(), self.description.as_bytes(), self.seq.as_bytes(), self.qual.as_bytes())
    }
}

impl FastqDoc {
    pub fn render(&self) -> Vec<u8> {
        let nl: &[u8] = if self.layout.crlf { b"\r\n" } else { b"\n" };
        let mut out = Vec::new();
        for r in &self.records {
            let mut def = Vec::new();
            def.extend_from_slice(r.name.as_bytes());
            if !r.description.is_empty() {
                def.push(if self.layout.sep_tab { b'\t' } else { b' ' });
                def.extend_from_slice(r.description.as_bytes());
            }
            out.push(b'@');
            out.extend_from_slice(&def);
            out.extend_from_slice(nl);
            out.extend_from_slice(r.seq.as_bytes());
            out.extend_from_slice(nl);
            out.push(b'+');
            if self.layout.plus_repeats_name {
                out.extend_from_slice(&def);
            }
            out.extend_from_slice(nl);
            out.extend_from_slice(r.qual.as_bytes());
            out.extend_from_slice(nl);
        }
        if !self.layout.final_newline && out.ends_with(nl) {
            out.truncate(out.len() - nl.len());
        }
        out
    }

    /// The bytes `fastq::io::Writer` must produce (LF, bare `+`).
    pub fn render_as_writer(&self) -> Vec<u8> {
        FastqDoc { records: self.records.clone(), layout: FastqLayout { crlf: false, plus_repeats_name: false, final_newline: true, sep_tab: self.layout.sep_tab } }.render()
    }

    pub fn to_noodles(&self) -> Vec<fastq::Record> {
        self.records.iter().map(|r| r.to_noodles()).collect()
    }

    /// (`fastq::io::writer::Builder` boxes the sink, hence `'static` and no way to get it back:
    /// pass a shared sink.)
    pub fn write_with_noodles_to<W: Write + 'static>(&self, w: W) -> io::Result<()> {
        let sep = if self.layout.sep_tab { b'\t' } else { b' ' };
        let mut writer = fastq::io::writer::Builder::default().set_definition_separator(sep).build_from_writer(w);
        for r in self.to_noodles() {
            writer.write_record(&r)?;
        }
        writer.get_mut().flush()
    }

    pub fn write_with_noodles(&self) -> io::Result<Vec<u8>> {
        let sink = crate::io_adv::sink::SharedSink::new();
        self.write_with_noodles_to(sink.clone())?;
        Ok(sink.bytes())
    }
}

/// Quality strings: `!`..`~`, with `@` and `+` (the two line-prefix characters of the format)
/// over-represented and often first.
pub fn quality_string(len: usize) -> BoxedStrategy<String> {
    if len == 0 {
        return Just(String::new()).boxed();
    }
    let body = chars_from(vec![(6, range_chars(b'!', b'~')), (2, vec!['@', '+']), (1, vec!['I', '#', '!', '~'])]);
    let first = chars_from(vec![(3, vec!['@', '+']), (4, range_chars(b'!', b'~'))]);
    (first, string_of(body, len - 1, len - 1)).prop_map(|(f, rest)| {
        let mut s = String::with_capacity(rest.len() + 1);
        s.push(f);
        s.push_str(&rest);
        s
    })
    .boxed()
}

pub fn fastq_rec() -> BoxedStrategy<FastqRec> {
    let mut inner = graph();
    inner.push(' ');
    inner.push('\t');
    let desc_ch = chars_from(vec![(8, inner), (1, non_ascii())]);
    let len = prop_oneof![1 => Just(0usize), 6 => 1usize..=40, 2 => 41usize..=300];
    (seq_name(), prop_oneof![2 => Just(String::new()).boxed(), 1 => string_of(desc_ch, 1, 16)], len, any::<u32>())
        .prop_flat_map(|(name, description, len, seed)| {
            quality_string(len).prop_map(move |qual| {
                let seq: String = expand_seq(len as u32, seed).chars().map(|c| if c == '*' || c == '-' { 'N' } else { c }).collect();
                FastqRec { name: name.clone(), description: description.clone(), seq, qual }
            })
        })
        .boxed()
}

pub fn fastq_layout() -> BoxedStrategy<FastqLayout> {
    (any::<bool>(), prop_oneof![3 => Just(false), 1 => Just(true)], prop_oneof![3 => Just(false), 1 => Just(true)], prop_oneof![9 => Just(true), 1 => Just(false)])
        .prop_map(|(crlf, sep_tab, plus_repeats_name, final_newline)| FastqLayout { crlf, sep_tab, plus_repeats_name, final_newline })
        .boxed()
}

pub fn fastq_doc(max_records: usize) -> BoxedStrategy<FastqDoc> {
    (proptest::collection::vec(fastq_rec(), 1..=max_records), fastq_layout())
        .prop_map(|(mut records, layout)| {
            dedup_names(records.iter_mut().map(|r| &mut r.name));
            FastqDoc { records, layout }
        })
        .boxed()
}

// ================================================================================================
// GFF3 / GTF feature records (both use `gff::feature::RecordBuf`)

#[derive(Clone, Copy, Debug, Serialize, Deserialize, PartialEq, Eq)]
pub enum FeatStrand {
    None,
    Forward,
    Reverse,
    Unknown,
}

impl FeatStrand {
    pub fn to_noodles(self) -> gff::feature::record::Strand {
        use gff::feature::record::Strand as S;
        match self {
            FeatStrand::None => S::None,
            FeatStrand::Forward => S::Forward,
            FeatStrand::Reverse => S::Reverse,
            FeatStrand::Unknown => S::Unknown,
        }
    }
    pub fn from_noodles(s: gff::feature::record::Strand) -> FeatStrand {
        use gff::feature::record::Strand as S;
        match s {
            S::None => FeatStrand::None,
            S::Forward => FeatStrand::Forward,
            S::Reverse => FeatStrand::Reverse,
            S::Unknown => FeatStrand::Unknown,
        }
    }
    pub fn symbol(self) -> &'static str {
        match self {
            FeatStrand::None => ".",
            FeatStrand::Forward => "+",
            FeatStrand::Reverse => "-",
            FeatStrand::Unknown => "?",
        }
    }
}

/// One feature line of GFF3 or GTF.
#[derive(Clone, Debug, Serialize, Deserialize, PartialEq)]
pub struct FeatRec {
    pub seqid: String,
    pub source: String,
    pub ty: String,
    /// 1-based, `start <= end`
    pub start: u64,
    pub end: u64,
    /// IEEE-754 bits of the f32 score (finite), `None` = missing
    pub score_bits: Option<u32>,
    pub strand: FeatStrand,
    /// 0..=2
    pub phase: Option<u8>,
    /// unique tags; 1 value = string, ≥2 values = ordered array
    pub attrs: Vec<(String, Vec<String>)>,
}

fn pos(n: u64) -> Result<Position, String> {
    usize::try_from(n).ok().and_then(|n| Position::try_from(n).ok()).ok_or_else(|| format!("{n} is not a position"))
}

fn phase_to_noodles(p: u8) -> gff::feature::record::Phase {
    use gff::feature::record::Phase as P;
    match p {
        0 => P::Zero,
        1 => P::One,
        _ => P::Two,
    }
}

fn phase_from_noodles(p: gff::feature::record::Phase) -> u8 {
    use gff::feature::record::Phase as P;
    match p {
        P::Zero => 0,
        P::One => 1,
        P::Two => 2,
    }
}

impl FeatRec {
    pub fn score(&self) -> Option<f32> {
        self.score_bits.map(f32::from_bits)
    }

    pub fn to_noodles(&self) -> Result<gff::feature::RecordBuf, String> {
        use gff::feature::record_buf::attributes::field::Value;
        let mut b = gff::feature::RecordBuf::builder()
            .set_reference_sequence_name(self.seqid.as_bytes())
            .set_source(self.source.as_bytes())
            .set_type(self.ty.as_bytes())
            .set_start(pos(self.start)?)
            .set_end(pos(self.end)?)
            .set_strand(self.strand.to_noodles());
        if let Some(s) = self.score() {
            b = b.set_score(s);
        }
        if let Some(p) = self.phase {
            b = b.set_phase(phase_to_noodles(p));
        }
        let attrs: gff::feature::record_buf::Attributes = self
            .attrs
            .iter()
            .map(|(k, vs)| {
                let v = if vs.len() == 1 { Value::String(BString::from(vs[0].as_bytes())) } else { Value::Array(vs.iter().map(|v| BString::from(v.as_bytes())).collect()) };
                (BString::from(k.as_bytes()), v)
            })
            .collect();
        Ok(b.set_attributes(attrs).build())
    }

    /// Inverse of `to_noodles` (lossy for non-UTF-8 bytes, which the generators never produce).
    pub fn from_noodles(r: &gff::feature::RecordBuf) -> FeatRec {
        let s = |b: &[u8]| String::from_utf8_lossy(b).into_owned();
        FeatRec {
            seqid: s(r.reference_sequence_name()),
            source: s(r.source()),
            ty: s(r.ty()),
            start: usize::from(r.start()) as u64,
            end: usize::from(r.end()) as u64,
            score_bits: r.score().map(f32::to_bits),
            strand: FeatStrand::from_noodles(r.strand()),
            phase: r.phase().map(phase_from_noodles),
            attrs: r.attributes().as_ref().iter().map(|(k, v)| (s(k), v.iter().map(|x| s(x)).collect())).collect(),
        }
    }

    pub fn canonical_text(&self) -> String {
        format!(
            "feature seqid={:?} source={:?} type={:?} {}-{} score={:?} strand={} phase={:?} attrs={:?}",
            self.seqid,
            self.source,
            self.ty,
            self.start,
            self.end,
            self.score(),
            self.strand.symbol(),
            self.phase,
            self.attrs
        )
    }

    fn render_columns_2_to_8(&self, out: &mut Vec<u8>) {
        out.push(b'\t');
        out.extend_from_slice(self.source.as_bytes());
        out.push(b'\t');
        out.extend_from_slice(self.ty.as_bytes());
        out.extend_from_slice(format!("\t{}\t{}\t", self.start, self.end).as_bytes());
        match self.score() {
            Some(s) => out.extend_from_slice(format!("{s}").as_bytes()),
            None => out.push(b'.'),
        }
        out.push(b'\t');
        out.extend_from_slice(self.strand.symbol().as_bytes());
        out.push(b'\t');
        match self.phase {
            Some(p) => out.push(b'0' + p.min(2)),
            None => out.push(b'.'),
        }
        out.push(b'\t');
    }

    /// GFF3 line (no terminator) built by the harness from the GFF3 specification: seqid escapes
    /// everything outside `[a-zA-Z0-9.:^*$@!+_?-|]`; attribute tags and values escape tab, LF, CR,
    /// `%`, control characters and `; = & ,`; other bytes (UTF-8 included) are written raw, hex
    /// digits in lower case (noodles writes upper case and escapes non-ASCII: the reader must cope
    /// with both).
    pub fn render_gff3(&self) -> Vec<u8> {
        let mut out = Vec::new();
        for b in self.seqid.bytes() {
            if b.is_ascii_alphanumeric() || b".:^*$@!+_?-|".contains(&b) {
                out.push(b);
            } else {
                out.extend_from_slice(&hex(b, true));
            }
        }
        self.render_columns_2_to_8(&mut out);
        if self.attrs.is_empty() {
            out.push(b'.');
        }
        let enc = |s: &str, out: &mut Vec<u8>| {
            for b in s.bytes() {
                if b < 0x20 || b == 0x7f || b"%;=&,".contains(&b) {
                    out.extend_from_slice(&hex(b, false));
                } else {
                    out.push(b);
                }
            }
        };
        for (i, (k, vs)) in self.attrs.iter().enumerate() {
            if i > 0 {
                out.push(b';');
            }
            enc(k, &mut out);
            out.push(b'=');
            for (j, v) in vs.iter().enumerate() {
                if j > 0 {
                    out.push(b',');
                }
                enc(v, &mut out);
            }
        }
        out
    }

    /// GTF line (no terminator) built by the harness: `key "value";` fields separated by one
    /// space, `\` and `"` escaped with a backslash, a multi-valued attribute repeated per value.
    pub fn render_gtf(&self) -> Vec<u8> {
        self.render_gtf_with(false)
    }

    /// `bare_numbers`: values made of ASCII digits only are written without quotes (the GTF
    /// convention for numeric values such as `exon_number 1;`).
    pub fn render_gtf_with(&self, bare_numbers: bool) -> Vec<u8> {
        let mut out = Vec::new();
        out.extend_from_slice(self.seqid.as_bytes());
        self.render_columns_2_to_8(&mut out);
        let mut first = true;
        for (k, vs) in &self.attrs {
            for v in vs {
                if !first {
                    out.push(b' ');
                }
                first = false;
                out.extend_from_slice(k.as_bytes());
                if bare_numbers && !v.is_empty() && v.bytes().all(|b| b.is_ascii_digit()) {
                    out.push(b' ');
                    out.extend_from_slice(v.as_bytes());
                    out.push(b';');
                    continue;
                }
                out.extend_from_slice(b" \"");
                for b in v.bytes() {
                    if b == b'\\' || b == b'"' {
                        out.push(b'\\');
                    }
                    out.push(b);
                }
                out.extend_from_slice(b"\";");
            }
        }
        out
    }
}

/// Finite f32 scores: small integers, decimals, negative values, signed zero, extremes,
/// subnormals, arbitrary finite bit patterns.
pub fn score_bits() -> BoxedStrategy<Option<u32>> {
    let named: Vec<f32> = vec![0.0, -0.0, 1.0, 0.5, 0.1, 1e-5, 1e-10, 99.9, 1000.0, -1.5, 3.4028235e38, -3.4028235e38, f32::MIN_POSITIVE, 1e-45, 16777216.0, 16777217.0, 0.333333343, 1.17549421e-38, 8388608.5, 1e10, 123456.79];
    prop_oneof![
        3 => Just(None),
        2 => (0u32..=1000).prop_map(|n| Some((n as f32).to_bits())),
        2 => (0u32..=100_000).prop_map(|n| Some((n as f32 / 100.0).to_bits())),
        2 => proptest::sample::select(named).prop_map(|f| Some(f.to_bits())),
        2 => any::<u32>().prop_map(|b| {
            let f = f32::from_bits(b);
            Some(if f.is_finite() { b } else { (b & 0x807f_ffff) | 0x3f00_0000 })
        }),
    ]
    .boxed()
}

pub fn coords() -> BoxedStrategy<(u64, u64)> {
    let start = prop_oneof![
        4 => 1u64..=10_000,
        2 => 1u64..=3_000_000_000,
        1 => proptest::sample::select(vec![1u64, 2, 255, 256, 65_535, 65_536, (1 << 29) - 1, 1 << 29, (1 << 31) - 1, 1 << 31, (1 << 32) - 1, 1 << 32, u64::MAX - 1, u64::MAX]),
    ];
    let len = prop_oneof![2 => Just(0u64), 4 => 0u64..=5_000, 1 => 0u64..=4_000_000_000];
    (start, len).prop_map(|(s, l)| (s, s.saturating_add(l))).boxed()
}

/// GFF3 free text: every class the property lists (tab, LF, CR, `; = & , %`, other controls,
/// quotes, `>`/`#` — also leading —, spaces, UTF-8 of every length, `%41`-like literals).
pub fn gff3_text(min: usize, max: usize) -> BoxedStrategy<String> {
    let reserved = vec!['\t', '\n', '\r', ';', '=', '&', ',', '%'];
    let punct = vec![' ', '>', '#', '"', '\\', '\'', '.', ':', '/', '+', '-', '|', '?', '*', '(', ')', '[', ']', '~', '^', '$', '@', '!', '_'];
    let controls: Vec<char> = (1u8..=0x1f).filter(|b| ![9u8, 10, 13].contains(b)).chain([0x7fu8, 0u8]).map(|b| b as char).collect();
    let ch = chars_from(vec![(8, alnum()), (4, reserved), (3, punct), (1, controls), (2, non_ascii())]);
    let plain = string_of(chars_from(vec![(1, alnum())]), min.max(1), max.max(1));
    let body = string_of(ch, min, max);
    prop_oneof![
        3 => plain,
        6 => body.clone(),
        1 => (proptest::sample::select(vec![">", "#", "##", "%41", "%", "%2", "%zz", ".", " ", "%25", "a,b", "x=y;z"]), body).prop_map(move |(p, b)| {
            let mut s = String::from(p);
            s.push_str(&b);
            s
        }),
    ]
    .boxed()
}

/// Plain columns (GFF3 source/type, GTF seqid/source/type): anything but tab and line
/// terminators; never empty unless `allow_empty`.
pub fn plain_column(allow_empty: bool) -> BoxedStrategy<String> {
    let mut wide = graph();
    wide.push(' ');
    let ch = chars_from(vec![(8, alnum()), (4, wide), (1, non_ascii())]);
    let named = proptest::sample::select(vec!["gene", "mRNA", "exon", "CDS", "region", "five_prime_UTR", ".", "noodles", "%41", "SO:0000704", "a b", "cds", "CDS "]).prop_map(String::from);
    if allow_empty {
        prop_oneof![4 => named, 3 => ident(10), 3 => string_of(ch, 1, 12), 1 => Just(String::new())].boxed()
    } else {
        prop_oneof![4 => named, 3 => ident(10), 3 => string_of(ch, 1, 12)].boxed()
    }
}

fn unique_keys<V>(attrs: Vec<(String, V)>) -> Vec<(String, V)> {
    let mut out: Vec<(String, V)> = Vec::new();
    for (k, v) in attrs {
        if !out.iter().any(|(k2, _)| *k2 == k) {
            out.push((k, v));
        }
    }
    out
}

/// GFF3 records. `seqid_plain_only`: keep the seqid inside the characters the writer leaves
/// unescaped (the class outside it is a recorded defect of the pinned tree; callers that cannot
/// collect several failures per case switch it off).
pub fn gff3_rec(seqid_plain_only: bool) -> BoxedStrategy<FeatRec> {
    let safe: Vec<char> = alnum().into_iter().chain(".:^*$@!+_?-|".chars()).collect();
    let safe_id = string_of(chars_from(vec![(6, alnum()), (2, safe)]), 1, 12);
    let seqid = if seqid_plain_only { safe_id.boxed() } else { prop_oneof![9 => safe_id.boxed(), 1 => gff3_text(0, 10)].boxed() };
    let tag = prop_oneof![
        3 => proptest::sample::select(vec!["ID", "Name", "Alias", "Parent", "Target", "Gap", "Derives_from", "Note", "Dbxref", "Ontology_term", "Is_circular"]).prop_map(String::from),
        3 => ident(8),
        3 => gff3_text(0, 8),
    ];
    let values = prop_oneof![
        5 => proptest::collection::vec(gff3_text(0, 12), 1..=1),
        4 => proptest::collection::vec(gff3_text(0, 8), 2..=4),
    ];
    let attrs = prop_oneof![
        2 => Just(Vec::new()).boxed(),
        8 => proptest::collection::vec((tag, values), 1..=5).prop_map(unique_keys).boxed(),
    ];
    (seqid, plain_column(true), plain_column(true), coords(), score_bits(), proptest::sample::select(vec![FeatStrand::None, FeatStrand::Forward, FeatStrand::Reverse, FeatStrand::Unknown]), proptest::option::weighted(0.4, 0u8..=2), attrs)
        .prop_map(|(seqid, source, ty, (start, end), score_bits, strand, mut phase, attrs)| {
            // the writer rejects a CDS without phase (documented): keep generated records writable
            if ty == "CDS" && phase.is_none() {
                phase = Some((start % 3) as u8);
            }
            FeatRec { seqid, source, ty, start, end, score_bits, strand, phase, attrs }
        })
        .boxed()
}

/// GTF attribute values: anything but tab and line terminators, quotes and backslashes
/// over-represented (also leading, trailing and doubled).
pub fn gtf_value() -> BoxedStrategy<String> {
    let mut wide = graph();
    wide.push(' ');
    let ch = chars_from(vec![(8, alnum()), (3, vec!['"', '\\']), (3, wide), (1, vec![';', ' ', '#']), (1, non_ascii())]);
    prop_oneof![
        2 => ident(10),
        1 => (0u32..100_000).prop_map(|n| n.to_string()),
        6 => string_of(ch, 0, 14),
        1 => proptest::sample::select(vec!["\"", "\\", "\\\\", "\"\"", "a\\", "\\\"", "x\";y \"z", "a; b \"c\";", ""]).prop_map(String::from),
    ]
    .boxed()
}

/// GTF records: raw seqid/source/type over delimiter-free alphabets (seqid never starts with `#`,
/// which would make the line a comment, and is never empty), strands without `?` (rejected by the
/// writer), keys `[A-Za-z0-9_.:-]+` or UTF-8 letters without spaces, 0..n attributes with 1..k
/// values.
pub fn gtf_rec() -> BoxedStrategy<FeatRec> {
    let key_ch = chars_from(vec![(8, alnum()), (2, vec!['_', '.', ':', '-']), (1, vec!['é', '中', 'Ω'])]);
    let key = prop_oneof![3 => proptest::sample::select(vec!["gene_id", "transcript_id", "exon_number", "gene_name", "tag"]).prop_map(String::from), 3 => string_of(key_ch, 1, 10)];
    let values = prop_oneof![5 => proptest::collection::vec(gtf_value(), 1..=1), 3 => proptest::collection::vec(gtf_value(), 2..=4)];
    let attrs = prop_oneof![1 => Just(Vec::new()).boxed(), 8 => proptest::collection::vec((key, values), 1..=5).prop_map(unique_keys).boxed()];
    let seqid = plain_column(false).prop_map(|s| if s.starts_with('#') { format!("c{s}") } else { s });
    (seqid, plain_column(true), plain_column(true), coords(), score_bits(), proptest::sample::select(vec![FeatStrand::None, FeatStrand::Forward, FeatStrand::Reverse]), proptest::option::weighted(0.4, 0u8..=2), attrs)
        .prop_map(|(seqid, source, ty, (start, end), score_bits, strand, phase, attrs)| FeatRec { seqid, source, ty, start, end, score_bits, strand, phase, attrs })
        .boxed()
}

// ------------------------------------------------------------------------------------------------
// GFF3 documents

#[derive(Clone, Debug, Serialize, Deserialize, PartialEq)]
pub enum GffDirective {
    /// `##gff-version major[.minor[.patch]]`
    Version { major: u32, minor: Option<u32>, patch: Option<u32> },
    /// `##sequence-region name start end`
    SequenceRegion { name: String, start: u64, end: u64 },
    /// `##genome-build source name`
    GenomeBuild { source: String, name: String },
    /// any other `##key[ value]`; key without whitespace, value without line terminators
    Other { key: String, value: Option<String> },
}

#[derive(Clone, Debug, Serialize, Deserialize, PartialEq)]
pub enum GffLine {
    Directive(GffDirective),
    /// text after the `#`; never starts with `#`, no line terminators
    Comment(String),
    Record(FeatRec),
}

#[derive(Clone, Debug, Serialize, Deserialize, PartialEq)]
pub struct GffDoc {
    pub lines: Vec<GffLine>,
}

impl GffDirective {
    /// (key, value text) as the line carries them
    pub fn key_value(&self) -> (String, Option<String>) {
        match self {
            GffDirective::Version { major, minor, patch } => {
                let mut v = major.to_string();
                if let Some(m) = minor {
                    v.push_str(&format!(".{m}"));
                    if let Some(p) = patch {
                        v.push_str(&format!(".{p}"));
                    }
                }
                ("gff-version".into(), Some(v))
            }
            GffDirective::SequenceRegion { name, start, end } => ("sequence-region".into(), Some(format!("{name} {start} {end}"))),
            GffDirective::GenomeBuild { source, name } => ("genome-build".into(), Some(format!("{source} {name}"))),
            GffDirective::Other { key, value } => (key.clone(), value.clone()),
        }
    }

    pub fn to_noodles(&self) -> Result<gff::DirectiveBuf, String> {
        use gff::directive_buf::{Value, value};
        Ok(match self {
            GffDirective::Version { .. } => {
                let (k, v) = self.key_value();
                let ver: value::GffVersion = v.unwrap_or_default().parse().map_err(|e| format!("gff-version: {e}"))?;
                gff::DirectiveBuf::new(k, Some(Value::GffVersion(ver)))
            }
            GffDirective::SequenceRegion { name, start, end } => gff::DirectiveBuf::new("sequence-region", Some(Value::SequenceRegion(value::SequenceRegion::new(name.as_bytes(), pos(*start)?, pos(*end)?)))),
            GffDirective::GenomeBuild { source, name } => gff::DirectiveBuf::new("genome-build", Some(Value::GenomeBuild(value::GenomeBuild::new(source.as_bytes(), name.as_bytes())))),
            GffDirective::Other { key, value } => gff::DirectiveBuf::new(key.as_bytes(), value.as_ref().map(|v| Value::String(BString::from(v.as_bytes())))),
        })
    }

    pub fn render(&self) -> Vec<u8> {
        let (k, v) = self.key_value();
        let mut out = b"##".to_vec();
        out.extend_from_slice(k.as_bytes());
        if let Some(v) = v {
            out.push(b' ');
            out.extend_from_slice(v.as_bytes());
        }
        out
    }

    pub fn canonical_text(&self) -> String {
        let (k, v) = self.key_value();
        format!("directive key={k:?} value={v:?}")
    }
}

impl GffLine {
    pub fn to_noodles(&self) -> Result<gff::LineBuf, String> {
        Ok(match self {
            GffLine::Directive(d) => gff::LineBuf::Directive(d.to_noodles()?),
            GffLine::Comment(s) => gff::LineBuf::Comment(BString::from(s.as_bytes())),
            GffLine::Record(r) => gff::LineBuf::Record(r.to_noodles()?),
        })
    }

    pub fn render(&self) -> Vec<u8> {
        match self {
            GffLine::Directive(d) => d.render(),
            GffLine::Comment(s) => {
                let mut v = b"#".to_vec();
                v.extend_from_slice(s.as_bytes());
                v
            }
            GffLine::Record(r) => r.render_gff3(),
        }
    }

    pub fn canonical_text(&self) -> String {
        match self {
            GffLine::Directive(d) => d.canonical_text(),
            GffLine::Comment(s) => format!("comment {s:?}"),
            GffLine::Record(r) => r.canonical_text(),
        }
    }
}

impl GffDoc {
    pub fn records(&self) -> impl Iterator<Item = &FeatRec> {
        self.lines.iter().filter_map(|l| match l {
            GffLine::Record(r) => Some(r),
            _ => None,
        })
    }

    /// Harness-built text; `crlf` selects the terminator, `blank_every` inserts an empty line
    /// after every n-th line (parsers must ignore blank lines).
    pub fn render(&self, crlf: bool, blank_every: Option<usize>) -> Vec<u8> {
        let nl: &[u8] = if crlf { b"\r\n" } else { b"\n" };
        let mut out = Vec::new();
        for (i, l) in self.lines.iter().enumerate() {
            out.extend_from_slice(&l.render());
            out.extend_from_slice(nl);
            if let Some(n) = blank_every {
                if n > 0 && (i + 1) % n == 0 {
                    out.extend_from_slice(nl);
                }
            }
        }
        out
    }

    pub fn to_noodles(&self) -> Result<Vec<gff::LineBuf>, String> {
        self.lines.iter().map(|l| l.to_noodles()).collect()
    }

    pub fn write_with_noodles_to<W: Write>(&self, w: W) -> io::Result<W> {
        let lines = self.to_noodles().map_err(|e| io::Error::new(io::ErrorKind::InvalidInput, e))?;
        let mut writer = gff::io::Writer::new(w);
        for l in &lines {
            writer.write_line(l)?;
        }
        Ok(writer.into_inner())
    }

    pub fn write_with_noodles(&self) -> io::Result<Vec<u8>> {
        self.write_with_noodles_to(Vec::new())
    }
}

fn token(max: usize) -> BoxedStrategy<String> {
    let ch = chars_from(vec![(8, alnum()), (2, vec!['.', '_', '-', ':', '|', '/'])]);
    string_of(ch, 1, max)
}

pub fn gff_directive() -> BoxedStrategy<GffDirective> {
    let mut text = graph();
    text.push(' ');
    let value = string_of(chars_from(vec![(8, text), (1, non_ascii())]), 0, 16).prop_map(|s| s.trim_end_matches('\r').to_string());
    prop_oneof![
        2 => (prop_oneof![4 => Just(3u32), 1 => 0u32..=9], proptest::option::of((0u32..30, proptest::option::of(0u32..30)))).prop_map(|(major, mp)| GffDirective::Version { major, minor: mp.map(|m| m.0), patch: mp.and_then(|m| m.1) }),
        2 => (token(8), coords()).prop_map(|(name, (start, end))| GffDirective::SequenceRegion { name, start, end }),
        1 => (token(6), token(8)).prop_map(|(source, name)| GffDirective::GenomeBuild { source, name }),
        3 => (
            prop_oneof![2 => proptest::sample::select(vec!["feature-ontology", "attribute-ontology", "source-ontology", "species", "#"]).prop_map(String::from), 2 => token(10)],
            proptest::option::weighted(0.7, value)
        )
            // `###` carries no value; a FASTA section is not part of this model
            .prop_map(|(key, value)| if key == "#" { GffDirective::Other { key, value: None } } else if key == "FASTA" { GffDirective::Other { key: "FASTA_".into(), value } } else { GffDirective::Other { key, value } }),
    ]
    .boxed()
}

pub fn gff_comment() -> BoxedStrategy<String> {
    let mut text = graph();
    text.push(' ');
    text.push('\t');
    string_of(chars_from(vec![(8, text), (1, non_ascii())]), 0, 20).prop_map(|s| s.trim_start_matches('#').to_string()).boxed()
}

/// `comments`: include comment lines (a recorded asymmetry of the pinned tree concerns them).
pub fn gff_doc(max_lines: usize, seqid_plain_only: bool, comments: bool) -> BoxedStrategy<GffDoc> {
    let mut arms: Vec<(u32, BoxedStrategy<GffLine>)> = vec![(8, gff3_rec(seqid_plain_only).prop_map(GffLine::Record).boxed()), (2, gff_directive().prop_map(GffLine::Directive).boxed())];
    if comments {
        arms.push((1, gff_comment().prop_map(GffLine::Comment).boxed()));
    }
    let line = proptest::strategy::Union::new_weighted(arms);
    proptest::collection::vec(line, 1..=max_lines).prop_map(|lines| GffDoc { lines }).boxed()
}

// ------------------------------------------------------------------------------------------------
// GTF documents

#[derive(Clone, Debug, Serialize, Deserialize, PartialEq)]
pub enum GtfLine {
    /// text after the `#`; no line terminators
    Comment(String),
    Record(FeatRec),
}

#[derive(Clone, Debug, Serialize, Deserialize, PartialEq)]
pub struct GtfDoc {
    pub lines: Vec<GtfLine>,
}

impl GtfLine {
    pub fn to_noodles(&self) -> Result<gtf::LineBuf, String> {
        Ok(match self {
            GtfLine::Comment(s) => gtf::LineBuf::Comment(BString::from(s.as_bytes())),
            GtfLine::Record(r) => gtf::LineBuf::Record(r.to_noodles()?),
        })
    }
    pub fn render(&self) -> Vec<u8> {
        match self {
            GtfLine::Comment(s) => {
                let mut v = b"#".to_vec();
                v.extend_from_slice(s.as_bytes());
                v
            }
            GtfLine::Record(r) => r.render_gtf(),
        }
    }
    pub fn canonical_text(&self) -> String {
        match self {
            GtfLine::Comment(s) => format!("comment {s:?}"),
            GtfLine::Record(r) => r.canonical_text(),
        }
    }
}

impl GtfDoc {
    pub fn records(&self) -> impl Iterator<Item = &FeatRec> {
        self.lines.iter().filter_map(|l| match l {
            GtfLine::Record(r) => Some(r),
            _ => None,
        })
    }

    pub fn render(&self, crlf: bool) -> Vec<u8> {
        self.render_with(crlf, false)
    }

    pub fn render_with(&self, crlf: bool, bare_numbers: bool) -> Vec<u8> {
        let nl: &[u8] = if crlf { b"\r\n" } else { b"\n" };
        let mut out = Vec::new();
        for l in &self.lines {
            match l {
                GtfLine::Record(r) => out.extend_from_slice(&r.render_gtf_with(bare_numbers)),
                _ => out.extend_from_slice(&l.render()),
            }
            out.extend_from_slice(nl);
        }
        out
    }

    /// Replace every `"` inside attribute values by `'` (a value containing `"` does not survive
    /// the pinned reader — recorded finding of C18 — and can make `line_bufs()` panic).
    pub fn strip_quotes(&mut self) {
        for l in &mut self.lines {
            if let GtfLine::Record(r) = l {
                for (_, vs) in &mut r.attrs {
                    for v in vs {
                        *v = v.replace('"', "'");
                    }
                }
            }
        }
    }

    pub fn to_noodles(&self) -> Result<Vec<gtf::LineBuf>, String> {
        self.lines.iter().map(|l| l.to_noodles()).collect()
    }

    pub fn write_with_noodles_to<W: Write>(&self, w: W) -> io::Result<W> {
        let lines = self.to_noodles().map_err(|e| io::Error::new(io::ErrorKind::InvalidInput, e))?;
        let mut writer = gtf::io::Writer::new(w);
        for l in &lines {
            writer.write_line(l)?;
        }
        Ok(writer.into_inner())
    }

    pub fn write_with_noodles(&self) -> io::Result<Vec<u8>> {
        self.write_with_noodles_to(Vec::new())
    }
}

/// `allow_quotes = false` keeps `"` out of attribute values (see `GtfDoc::strip_quotes`).
pub fn gtf_doc(max_lines: usize, allow_quotes: bool) -> BoxedStrategy<GtfDoc> {
    let mut text = graph();
    text.push(' ');
    let comment = string_of(chars_from(vec![(8, text), (1, non_ascii())]), 0, 20);
    let line = prop_oneof![9 => gtf_rec().prop_map(GtfLine::Record), 1 => comment.prop_map(GtfLine::Comment)];
    proptest::collection::vec(line, 1..=max_lines)
        .prop_map(move |lines| {
            let mut d = GtfDoc { lines };
            if !allow_quotes {
                d.strip_quotes();
            }
            d
        })
        .boxed()
}

// ================================================================================================
// BED

#[derive(Clone, Debug, Serialize, Deserialize, PartialEq)]
pub enum BedValue {
    Int(i64),
    UInt(u64),
    /// IEEE-754 bits of a finite f64
    FloatBits(u64),
    /// `' '..='~'`
    Char(u8),
    /// `[ -~]*`
    Str(String),
}

impl BedValue {
    /// The column text the BED writer must produce for this value.
    pub fn text(&self) -> String {
        match self {
            BedValue::Int(n) => n.to_string(),
            BedValue::UInt(n) => n.to_string(),
            BedValue::FloatBits(b) => format!("{}", f64::from_bits(*b)),
            BedValue::Char(c) => (*c as char).to_string(),
            BedValue::Str(s) => s.clone(),
        }
    }
    pub fn to_noodles(&self) -> bed::feature::record_buf::other_fields::Value {
        use bed::feature::record_buf::other_fields::Value as V;
        match self {
            BedValue::Int(n) => V::Int64(*n),
            BedValue::UInt(n) => V::UInt64(*n),
            BedValue::FloatBits(b) => V::Float64(f64::from_bits(*b)),
            BedValue::Char(c) => V::Character(*c),
            BedValue::Str(s) => V::String(BString::from(s.as_bytes())),
        }
    }
}

#[derive(Clone, Debug, Serialize, Deserialize, PartialEq)]
pub struct BedRec {
    /// `[A-Za-z0-9_]{1,255}`
    pub chrom: String,
    /// 1-based start (the file carries `start - 1`)
    pub start: u64,
    /// `None` is written as `0`
    pub end: Option<u64>,
    /// `[ -~]{1,255}`, never `.`; used when the document has ≥4 standard fields
    pub name: Option<String>,
    /// used when ≥5 standard fields
    pub score: u16,
    /// `Some(true)` = forward; used when 6 standard fields
    pub strand: Option<bool>,
    /// columns after the standard ones (BED7..BED12 and beyond)
    pub other: Vec<BedValue>,
}

#[derive(Clone, Debug, Serialize, Deserialize, PartialEq)]
pub struct BedDoc {
    /// number of standard fields the reader/writer is instantiated with: 3..=6
    pub n: u8,
    pub records: Vec<BedRec>,
    /// comment lines (`#…`, text after the `#`) emitted by `render()` before record i
    pub comments: Vec<(u16, String)>,
}

impl BedRec {
    /// The columns of the line for a document with `n` standard fields.
    pub fn columns(&self, n: u8) -> Vec<String> {
        let mut c = vec![self.chrom.clone(), (self.start - 1).to_string(), self.end.map(|e| e.to_string()).unwrap_or_else(|| "0".into())];
        if n >= 4 {
            c.push(self.name.clone().unwrap_or_else(|| ".".into()));
        }
        if n >= 5 {
            c.push(self.score.to_string());
        }
        if n >= 6 {
            c.push(match self.strand {
                Some(true) => "+".into(),
                Some(false) => "-".into(),
                None => ".".into(),
            });
        }
        c.extend(self.other.iter().map(|v| v.text()));
        c
    }

    pub fn render(&self, n: u8) -> Vec<u8> {
        self.columns(n).join("\t").into_bytes()
    }

    /// Standard fields beyond `n` are not part of the value at that arity.
    pub fn canonical_text(&self, n: u8) -> String {
        format!("bed{} {}", n, self.columns(n).join("|"))
    }
}

macro_rules! bed_to_noodles {
    ($name:ident, $n:literal, |$b:ident, $r:ident| $extra:block) => {
        pub fn $name(&self) -> Result<bed::feature::RecordBuf<$n>, String> {
            let $r = self;
            let mut $b = bed::feature::RecordBuf::<$n>::builder().set_reference_sequence_name($r.chrom.as_bytes()).set_feature_start(pos($r.start)?);
            if let Some(e) = $r.end {
                $b = $b.set_feature_end(pos(e)?);
            }
            $extra
            let other: Vec<_> = $r.other.iter().map(|v| v.to_noodles()).collect();
            Ok($b.set_other_fields(other.into()).build())
        }
    };
}

impl BedRec {
    bed_to_noodles!(to_noodles_3, 3, |b, r| {});
    bed_to_noodles!(to_noodles_4, 4, |b, r| {
        if let Some(n) = &r.name {
            b = b.set_name(n.as_bytes());
        }
    });
    bed_to_noodles!(to_noodles_5, 5, |b, r| {
        if let Some(n) = &r.name {
            b = b.set_name(n.as_bytes());
        }
        b = b.set_score(r.score);
    });
    bed_to_noodles!(to_noodles_6, 6, |b, r| {
        if let Some(n) = &r.name {
            b = b.set_name(n.as_bytes());
        }
        b = b.set_score(r.score);
        if let Some(s) = r.strand {
            b = b.set_strand(if s { bed::feature::record::Strand::Forward } else { bed::feature::record::Strand::Reverse });
        }
    });
}

impl BedDoc {
    pub fn render(&self, crlf: bool) -> Vec<u8> {
        let nl: &[u8] = if crlf { b"\r\n" } else { b"\n" };
        let mut out = Vec::new();
        for (i, r) in self.records.iter().enumerate() {
            for (at, text) in &self.comments {
                if *at as usize == i {
                    out.push(b'#');
                    out.extend_from_slice(text.as_bytes());
                    out.extend_from_slice(nl);
                }
            }
            out.extend_from_slice(&r.render(self.n));
            out.extend_from_slice(nl);
        }
        out
    }

    pub fn write_with_noodles_to<W: Write>(&self, w: W) -> io::Result<W> {
        let inv = |e: String| io::Error::new(io::ErrorKind::InvalidInput, e);
        match self.n {
            3 => {
                let mut writer = bed::io::Writer::<3, W>::new(w);
                for r in &self.records {
                    writer.write_feature_record(&r.to_noodles_3().map_err(inv)?)?;
                }
                Ok(writer.into_inner())
            }
            4 => {
                let mut writer = bed::io::Writer::<4, W>::new(w);
                for r in &self.records {
                    writer.write_feature_record(&r.to_noodles_4().map_err(inv)?)?;
                }
                Ok(writer.into_inner())
            }
            5 => {
                let mut writer = bed::io::Writer::<5, W>::new(w);
                for r in &self.records {
                    writer.write_feature_record(&r.to_noodles_5().map_err(inv)?)?;
                }
                Ok(writer.into_inner())
            }
            _ => {
                let mut writer = bed::io::Writer::<6, W>::new(w);
                for r in &self.records {
                    writer.write_feature_record(&r.to_noodles_6().map_err(inv)?)?;
                }
                Ok(writer.into_inner())
            }
        }
    }

    pub fn write_with_noodles(&self) -> io::Result<Vec<u8>> {
        self.write_with_noodles_to(Vec::new())
    }
}

fn bed_string(min: usize, max: usize) -> BoxedStrategy<String> {
    let mut all = graph();
    all.push(' ');
    string_of(chars_from(vec![(6, alnum()), (3, all)]), min, max)
}

pub fn bed_value() -> BoxedStrategy<BedValue> {
    let f = prop_oneof![
        proptest::sample::select(vec![0.0f64, -0.0, 1.0, 0.5, 0.1, -2.25, 1e-7, 1e21, 1.7976931348623157e308, 5e-324, 123456789.125]),
        any::<u64>().prop_map(|b| {
            let f = f64::from_bits(b);
            if f.is_finite() { f } else { 1.5 }
        })
    ];
    prop_oneof![
        2 => prop_oneof![Just(i64::MIN), Just(i64::MAX), Just(0i64), -1000i64..=1000, any::<i64>()].prop_map(BedValue::Int),
        2 => prop_oneof![Just(u64::MAX), Just(0u64), 0u64..=100_000, any::<u64>()].prop_map(BedValue::UInt),
        1 => f.prop_map(|f| BedValue::FloatBits(f.to_bits())),
        1 => (b' '..=b'~').prop_map(BedValue::Char),
        4 => prop_oneof![
            3 => bed_string(0, 12),
            1 => proptest::sample::select(vec!["255,0,0", "0", ".", "", " ", "10,20,", "0,30,", "+", "#x"]).prop_map(String::from)
        ]
        .prop_map(BedValue::Str),
    ]
    .boxed()
}

/// The six BED7..BED12 columns (thickStart, thickEnd, itemRgb, blockCount, blockSizes,
/// blockStarts) consistent with `start`/`end`.
fn bed12_tail(start0: u64, end: u64, seed: u32) -> Vec<BedValue> {
    let mut r = XorShift::new(seed as u64 + 12);
    let span = end.saturating_sub(start0).max(1);
    let blocks = 1 + (r.next() % 3);
    let size = (span / (2 * blocks)).max(1);
    let sizes: Vec<String> = (0..blocks).map(|_| size.to_string()).collect();
    let starts: Vec<String> = (0..blocks).map(|i| (i * 2 * size).to_string()).collect();
    vec![
        BedValue::UInt(start0),
        BedValue::UInt(end),
        BedValue::Str(if r.next() % 2 == 0 { "0".into() } else { format!("{},{},{}", r.next() % 256, r.next() % 256, r.next() % 256) }),
        BedValue::Int(blocks as i64),
        BedValue::Str(format!("{},", sizes.join(","))),
        BedValue::Str(starts.join(",")),
    ]
}

pub fn bed_rec() -> BoxedStrategy<BedRec> {
    let mut id = alnum();
    id.push('_');
    let chrom = prop_oneof![
        8 => string_of(proptest::sample::select(id.clone()).boxed(), 1, 10),
        1 => string_of(proptest::sample::select(id).boxed(), 255, 255),
        1 => proptest::sample::select(vec!["track", "browser", "chr1", "0", "_"]).prop_map(String::from)
    ];
    let name = proptest::option::weighted(
        0.8,
        prop_oneof![8 => bed_string(1, 14), 1 => bed_string(255, 255), 1 => proptest::sample::select(vec!["..", " ", ". ", "0", "#", "a b"]).prop_map(String::from)].prop_map(|s| if s == "." { "._".to_string() } else { s }),
    );
    let score = prop_oneof![2 => proptest::sample::select(vec![0u16, 1, 9, 10, 999, 1000, 1001, 65535]), 2 => 0u16..=1000, 1 => any::<u16>()];
    let other = prop_oneof![
        4 => Just((0u8, Vec::new())).boxed(),
        4 => proptest::collection::vec(bed_value(), 1..=8).prop_map(|v| (0u8, v)).boxed(),
        2 => Just((1u8, Vec::new())).boxed(),
    ];
    (chrom, coords(), prop_oneof![9 => Just(true), 1 => Just(false)], name, score, proptest::option::of(any::<bool>()), other, any::<u32>())
        .prop_map(|(chrom, (start, end), has_end, name, score, strand, (bed12, other), seed)| {
            let other = if bed12 == 1 { bed12_tail(start - 1, end, seed) } else { other };
            BedRec { chrom, start, end: if has_end { Some(end) } else { None }, name, score, strand, other }
        })
        .boxed()
}

pub fn bed_doc(max_records: usize) -> BoxedStrategy<BedDoc> {
    let mut text = graph();
    text.push(' ');
    text.push('\t');
    let comment = (any::<u16>(), string_of(proptest::sample::select(text).boxed(), 0, 12));
    (3u8..=6, proptest::collection::vec(bed_rec(), 1..=max_records), proptest::collection::vec(comment, 0..=2))
        .prop_map(|(n, records, comments)| {
            let k = records.len();
            BedDoc { n, records, comments: comments.into_iter().map(|(at, t)| (crate::engine::pick_idx(at, k) as u16, t)).collect() }
        })
        .boxed()
}

// ================================================================================================
// Reading back through noodles as canonical text (for transcripts). Each returns the canonical
// texts of the items read, in order, and the error that ended reading (if any).
//
// Recorded findings of the pinned tree that show up in these texts (see KNOWN_FINDINGS, C18/C11):
// a GFF3 seqid comes back percent-encoded, a GFF3 comment comes back with its `#`, a GTF value
// containing `"` is cut (or panics inside `line_bufs()`), a CRLF FASTQ name may keep its CR when
// the pair is split across two `fill_buf` windows. Relations that compare two runs of the same
// reader are unaffected; relations that compare with the document should generate with
// `gff_doc(_, true, false)` and `gtf_doc(_, false)`.

pub fn fasta_read_transcript<R: std::io::BufRead>(r: R) -> (Vec<String>, Option<String>) {
    let mut reader = fasta::io::Reader::new(r);
    let mut out = Vec::new();
    for rec in reader.records() {
        match rec {
            Ok(rec) => out.push(canonical_fasta_record(&rec)),
            Err(e) => return (out, Some(e.to_string())),
        }
    }
    (out, None)
}

pub fn fastq_read_transcript<R: std::io::BufRead>(r: R) -> (Vec<String>, Option<String>) {
    let mut reader = fastq::io::Reader::new(r);
    let mut out = Vec::new();
    for rec in reader.records() {
        match rec {
            Ok(rec) => out.push(canonical_fastq_record(&rec)),
            Err(e) => return (out, Some(e.to_string())),
        }
    }
    (out, None)
}

pub fn canonical_gff_line(l: &gff::LineBuf) -> String {
    use gff::directive_buf::Value;
    match l {
        gff::LineBuf::Directive(d) => {
            let v = d.value().map(|v| match v {
                Value::String(s) => String::from_utf8_lossy(s).into_owned(),
                Value::GffVersion(x) => x.to_string(),
                Value::SequenceRegion(x) => x.to_string(),
                Value::GenomeBuild(x) => x.to_string(),
            });
            format!("directive key={:?} value={v:?}", String::from_utf8_lossy(d.key()))
        }
        gff::LineBuf::Comment(s) => format!("comment {:?}", String::from_utf8_lossy(s)),
        gff::LineBuf::Record(r) => FeatRec::from_noodles(r).canonical_text(),
    }
}

pub fn gff_read_transcript<R: std::io::BufRead>(r: R) -> (Vec<String>, Option<String>) {
    let mut reader = gff::io::Reader::new(r);
    let mut out = Vec::new();
    for l in reader.line_bufs() {
        match l {
            Ok(l) => out.push(canonical_gff_line(&l)),
            Err(e) => return (out, Some(e.to_string())),
        }
    }
    (out, None)
}

pub fn gtf_read_transcript<R: std::io::BufRead>(r: R) -> (Vec<String>, Option<String>) {
    let mut reader = gtf::io::Reader::new(r);
    let mut out = Vec::new();
    for l in reader.line_bufs() {
        match l {
            Ok(gtf::LineBuf::Comment(s)) => out.push(format!("comment {:?}", String::from_utf8_lossy(&s))),
            Ok(gtf::LineBuf::Record(r)) => out.push(FeatRec::from_noodles(&r).canonical_text()),
            Err(e) => return (out, Some(e.to_string())),
        }
    }
    (out, None)
}

macro_rules! bed_transcript_arm {
    ($n:literal, $r:ident, $rec:ident, $cols:ident, $extra:block) => {{
        let mut reader = bed::io::Reader::<$n, _>::new($r);
        let mut $rec = bed::Record::<$n>::default();
        let mut out = Vec::new();
        loop {
            match reader.read_record(&mut $rec) {
                Ok(0) => return (out, None),
                Ok(_) => {}
                Err(e) => return (out, Some(e.to_string())),
            }
            let step = (|| -> io::Result<Vec<String>> {
                let mut $cols: Vec<String> = vec![
                    String::from_utf8_lossy($rec.reference_sequence_name()).into_owned(),
                    (usize::from($rec.feature_start()?) - 1).to_string(),
                    $rec.feature_end().transpose()?.map(|p| usize::from(p).to_string()).unwrap_or_else(|| "0".into()),
                ];
                $extra
                $cols.extend($rec.other_fields().iter().map(|s| String::from_utf8_lossy(s).into_owned()));
                Ok($cols)
            })();
            match step {
                Ok(cols) => out.push(format!("bed{} {}", $n, cols.join("|"))),
                Err(e) => return (out, Some(e.to_string())),
            }
        }
    }};
}

/// BED read with `n` standard fields; the texts equal `BedRec::canonical_text(n)`.
pub fn bed_read_transcript<R: std::io::BufRead>(n: u8, r: R) -> (Vec<String>, Option<String>) {
    let name = |n: Option<&bstr::BStr>| n.map(|s| String::from_utf8_lossy(s).into_owned()).unwrap_or_else(|| ".".into());
    let strand = |s: Option<bed::feature::record::Strand>| match s {
        Some(bed::feature::record::Strand::Forward) => "+".to_string(),
        Some(bed::feature::record::Strand::Reverse) => "-".to_string(),
        None => ".".to_string(),
    };
    match n {
        3 => bed_transcript_arm!(3, r, rec, cols, {}),
        4 => bed_transcript_arm!(4, r, rec, cols, {
            cols.push(name(rec.name()));
        }),
        5 => bed_transcript_arm!(5, r, rec, cols, {
            cols.push(name(rec.name()));
            cols.push(rec.score()?.to_string());
        }),
        _ => bed_transcript_arm!(6, r, rec, cols, {
            cols.push(name(rec.name()));
            cols.push(rec.score()?.to_string());
            cols.push(strand(rec.strand()?));
        }),
    }
}
