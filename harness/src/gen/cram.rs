//! G-ref + G-cram: reference sequences and alignment records *derived from the reference* by a
//! generated edit script, plus CRAM writer options. Shared by C07, C19 and the CRAM format driver
//! (chunking / truncation / sink faults / hostile input / async / autodetection).
//!
//! The model is plain serialisable data (`CramDoc`). Everything that must be mutually consistent
//! (CIGAR vs bases, read inside the reference, mate fields, TLEN, flags) is *computed* when the
//! document is flattened (`CramDoc::flatten`), never stored, so that every shrunk or hand-edited
//! document is still a valid SAM record stream over the supplied reference.
//!
//! No property-specific logic lives here. Known-hazard classes of the pinned noodles tree (missing
//! names / qualities / bases, in-slice supplementary reads, …) are *switchable* in `Params`, so that
//! drivers that only need valid round-tripping documents use `Params::safe()`.

use crate::engine::fnv;
use crate::r#gen::payload::XorShift;
use noodles_core::Position;
use noodles_cram as cram;
use noodles_fasta as fasta;
use noodles_sam as sam;
use proptest::prelude::*;
use sam::alignment::RecordBuf;
use sam::alignment::io::Write as _;
use sam::alignment::record::cigar::{Op, op::Kind};
use sam::alignment::record::data::field::Tag;
use sam::alignment::record_buf::data::field::{Value, value::Array};
use serde::{Deserialize, Serialize};
use std::io;
use std::num::NonZeroUsize;

// ---------------------------------------------------------------------------------------------
// model
// ---------------------------------------------------------------------------------------------

#[derive(Clone, Debug, Serialize, Deserialize, PartialEq)]
pub struct RefSeq {
    pub name: String,
    /// ASCII bases (ACGT, N runs, lower case, occasional IUPAC codes); never empty
    pub seq: String,
}

/// One element of the aligned core of a read (between the clips).
#[derive(Clone, Debug, Serialize, Deserialize, PartialEq)]
pub enum Edit {
    /// `n` bases copied from the reference (CIGAR M, or `=`)
    Eq(u16),
    /// one aligned base that differs from the reference base (CIGAR M, or `X`); the base is
    /// chosen by the selector from `SUB_ALPHABET` minus the letters equal (ignoring case) to
    /// the reference base
    Sub(u8),
    Ins(String),
    Del(u16),
    Skip(u16),
    Pad(u16),
}

#[derive(Clone, Debug, Serialize, Deserialize, PartialEq)]
pub struct Aligned {
    pub ref_idx: u8,
    /// 1-based; clamped into the reference when flattened
    pub start: u32,
    pub lead_hard: u16,
    pub lead_soft: String,
    pub edits: Vec<Edit>,
    pub trail_soft: String,
    pub trail_hard: u16,
    /// write `=`/`X` instead of `M`
    pub eqx: bool,
    /// read bases are stored in the opposite letter case of what the edit script produced
    pub flip_case: bool,
    /// HAZARD: the record carries its CIGAR but no bases (`SEQ = *`)
    pub bases_missing: bool,
    /// the alignment is a reference skip of the script's span and nothing else (CIGAR `kN`, no read
    /// bases at all: `SEQ = *` with read length 0) — a record a CRAM reader can decode without the
    /// reference sequence; set by C19 for whole documents, never by the generator itself
    #[serde(default)]
    pub skip_only: bool,
}

#[derive(Clone, Debug, Serialize, Deserialize, PartialEq)]
pub enum Body {
    Mapped(Aligned),
    /// flag 0x4; `placed` = (reference index, 1-based position, overhang allowed) for a placed
    /// unmapped read. The position wraps into the reference and, unless overhang is allowed
    /// (HAZARD), is moved left so that `pos + len - 1` stays inside the reference.
    Unmapped { placed: Option<(u8, u32, bool)>, bases: String },
}

#[derive(Clone, Debug, Serialize, Deserialize, PartialEq)]
pub enum Qual {
    Missing,
    Const(u8),
    /// pseudo-random scores 0..=93 with runs, expanded from the seed
    Seeded(u32),
}

#[derive(Clone, Debug, Serialize, Deserialize, PartialEq)]
pub enum AuxVal {
    A(u8),
    I8(i8),
    U8(u8),
    I16(i16),
    U16(u16),
    I32(i32),
    U32(u32),
    /// f32 bit pattern
    F(u32),
    Z(String),
    H(String),
    BI8(Vec<i8>),
    BU8(Vec<u8>),
    BI16(Vec<i16>),
    BU16(Vec<u16>),
    BI32(Vec<i32>),
    BU32(Vec<u32>),
    BF(Vec<u32>),
}

#[derive(Clone, Debug, Serialize, Deserialize, PartialEq)]
pub struct Aux {
    /// two characters `[A-Za-z][A-Za-z0-9]`, never `RG`
    pub tag: String,
    pub val: AuxVal,
}

#[derive(Clone, Debug, Serialize, Deserialize, PartialEq)]
pub struct Read {
    pub body: Body,
    pub reverse: bool,
    /// `None` = 255 (missing); ignored for unmapped reads (CRAM has no MAPQ for them)
    pub mapq: Option<u8>,
    pub qual: Qual,
    pub tags: Vec<Aux>,
    /// index into the header's read groups (clamped); `None` = no RG tag
    pub rg: Option<u8>,
    /// where in the aux list the RG field goes (clamped)
    pub rg_at: u8,
    /// extra flag bits out of {0x2 proper pair (paired only), 0x200, 0x400}
    pub extra_flags: u16,
}

#[derive(Clone, Debug, Serialize, Deserialize, PartialEq)]
pub enum ExtraKind {
    /// flag 0x100, same name, excluded from mate chains by the CRAM writer
    Secondary,
    /// flag 0x800, same name — HAZARD when it shares a slice with the template
    Supplementary,
}

#[derive(Clone, Debug, Serialize, Deserialize, PartialEq)]
pub enum Template {
    Single {
        /// `None` = missing name (`*`) — HAZARD
        name: Option<String>,
        read: Read,
        secondary: bool,
    },
    Pair {
        name: Option<String>,
        r1: Read,
        r2: Read,
        /// the second segment is not part of the file (orphan first segment)
        drop_r2: bool,
        /// an extra line of segment 1
        extra: Option<(ExtraKind, Read)>,
    },
}

#[derive(Clone, Debug, Serialize, Deserialize, PartialEq)]
pub enum Order {
    /// coordinate order: (reference, start), unplaced reads last; ties keep generation order
    Sorted,
    /// generation order (templates as listed; segment 1, extra, segment 2); with `left_first`
    /// the lines of one template are put in coordinate order
    Listed { left_first: bool },
    /// deterministic shuffle from the seed; with `left_first` the leftmost segment of a pair is
    /// kept before the rightmost one
    Shuffled { seed: u32, left_first: bool },
}

#[derive(Clone, Debug, Serialize, Deserialize, PartialEq)]
pub enum Enc {
    None,
    Gzip(u8),
    Bzip2(u8),
    Lzma(u8),
    Rans4x8(u8),
    RansNx16(u8),
    Aac(u8),
    NameTok,
    Fqz,
}

pub const N_SERIES: usize = 28;

/// Series order = CRAM content ids 1..=28 as noodles assigns them.
pub const SERIES_NAMES: [&str; N_SERIES] =
    ["BF", "CF", "RI", "RL", "AP", "RG", "RN", "MF", "NS", "NP", "TS", "NF", "TL", "FN", "FC", "FP", "DL", "BB", "QQ", "BS", "IN", "RS", "PD", "HC", "SC", "MQ", "BA", "QS"];
pub const SERIES_RN: usize = 6;
pub const SERIES_QS: usize = 27;

#[derive(Clone, Debug, Serialize, Deserialize, PartialEq)]
pub struct EncMap {
    pub core: Enc,
    pub default: Enc,
    /// exactly `N_SERIES` entries (missing entries = `None` encoder)
    pub series: Vec<Enc>,
    /// explicit tag-value encoders: the (tag, type) key picks `tag_rule[hash % len]`; empty = no
    /// explicit tag encoders (the default encoder applies)
    pub tag_rule: Vec<Enc>,
}

#[derive(Clone, Debug, Serialize, Deserialize, PartialEq)]
pub struct WriterOpts {
    pub preserve_read_names: bool,
    pub ap_delta: bool,
    /// 0 = do not call the records-per-slice hook (writer default 10 240)
    pub records_per_slice: u16,
    /// `None` = the writer's own default map
    pub enc: Option<EncMap>,
}

impl Default for WriterOpts {
    fn default() -> Self {
        WriterOpts { preserve_read_names: true, ap_delta: true, records_per_slice: 0, enc: None }
    }
}

#[derive(Clone, Debug, Serialize, Deserialize, PartialEq)]
pub struct CramDoc {
    pub refs: Vec<RefSeq>,
    /// `@HD SO:` value; `None` = no @HD line
    pub sort_order_tag: Option<String>,
    /// `@SQ` lines carry `M5` (the correct digest); otherwise the writer fills it in
    pub m5_in_header: bool,
    pub read_groups: Vec<String>,
    pub comments: Vec<String>,
    pub templates: Vec<Template>,
    pub order: Order,
    pub opts: WriterOpts,
}

// ---------------------------------------------------------------------------------------------
// flattening: the SAM-level ground truth
// ---------------------------------------------------------------------------------------------

pub const SUB_ALPHABET: &[u8] = b"ACGTNACGTNACGTNACGTNACGTNACGTNACGTacgtnACGTacgtnACGTNRYSWKMBDHVrk";

/// A fully computed SAM record (the ground truth the oracles compare with).
#[derive(Clone, Debug, PartialEq)]
pub struct FlatRec {
    pub name: Option<Vec<u8>>,
    pub flags: u16,
    pub ref_id: Option<usize>,
    /// 1-based
    pub start: Option<usize>,
    /// reference bases covered by the CIGAR (0 for unmapped reads)
    pub ref_span: usize,
    pub mapq: Option<u8>,
    /// (SAM op character, length); adjacent equal kinds are merged; empty for unmapped reads
    pub cigar: Vec<(u8, usize)>,
    pub mate_ref_id: Option<usize>,
    pub mate_start: Option<usize>,
    pub tlen: i32,
    pub bases: Vec<u8>,
    pub quals: Vec<u8>,
    pub aux: Vec<(String, AuxVal)>,
    /// index of the template in `CramDoc::templates`
    pub template: usize,
    /// 0 = segment 1 / single, 1 = extra line, 2 = segment 2
    pub role: u8,
    /// number of non-match features the edit script produced (mismatch, indel, clip, skip, pad)
    pub edit_features: usize,
}

impl FlatRec {
    pub fn is_unmapped(&self) -> bool {
        self.flags & 0x4 != 0
    }
    pub fn is_paired(&self) -> bool {
        self.flags & 0x1 != 0
    }
    /// inclusive alignment end the way SAM defines it (`start + max(span,1) - 1`)
    pub fn end(&self) -> Option<usize> {
        self.start.map(|s| s + self.ref_span.max(1) - 1)
    }
}

struct Placed {
    cigar: Vec<(u8, usize)>,
    bases: Vec<u8>,
    start: usize,
    ref_span: usize,
    edit_features: usize,
}

fn push_op(cigar: &mut Vec<(u8, usize)>, k: u8, n: usize) {
    if n == 0 {
        return;
    }
    if let Some(last) = cigar.last_mut() {
        if last.0 == k {
            last.1 += n;
            return;
        }
    }
    cigar.push((k, n));
}

fn flip(b: u8) -> u8 {
    if b.is_ascii_lowercase() { b.to_ascii_uppercase() } else { b.to_ascii_lowercase() }
}

fn sanitize_bases(s: &str) -> Vec<u8> {
    s.bytes().filter(|b| b.is_ascii_alphabetic()).collect()
}

/// Interpret the edit script against the reference; clamp everything into the reference.
fn place(a: &Aligned, reference: &[u8]) -> Placed {
    let rlen = reference.len();
    let start = wrap_pos(a.start, rlen);
    let mut rpos = start - 1; // 0-based index of the next reference base
    let mut core: Vec<(u8, usize)> = Vec::new();
    let mut bases: Vec<u8> = Vec::new();
    let mut feats = 0usize;
    let (m_eq, m_sub) = if a.eqx { (b'=', b'X') } else { (b'M', b'M') };
    if a.skip_only {
        let want: usize = a.edits.iter().map(|e| match e {
            Edit::Eq(n) | Edit::Del(n) | Edit::Skip(n) => *n as usize,
            Edit::Sub(_) => 1,
            _ => 0,
        }).sum();
        let span = want.clamp(1, rlen - rpos);
        return Placed { cigar: vec![(b'N', span)], bases: Vec::new(), start, ref_span: span, edit_features: 1 };
    }

    // pending non-aligned edits are only committed when an aligned base follows, so the core
    // starts and ends with an aligned base
    let mut pending: Vec<(u8, usize, Vec<u8>)> = Vec::new();
    let mut have_aligned = false;
    let mut pending_ref = 0usize;
    for e in &a.edits {
        match e {
            Edit::Eq(n) => {
                let avail = rlen.saturating_sub(rpos + pending_ref);
                let n = (*n as usize).min(avail);
                if n == 0 {
                    continue;
                }
                commit(&mut pending, &mut core, &mut bases, &mut rpos, &mut pending_ref, &mut feats);
                push_op(&mut core, m_eq, n);
                bases.extend_from_slice(&reference[rpos..rpos + n]);
                rpos += n;
                have_aligned = true;
            }
            Edit::Sub(sel) => {
                if rpos + pending_ref >= rlen {
                    continue;
                }
                commit(&mut pending, &mut core, &mut bases, &mut rpos, &mut pending_ref, &mut feats);
                let rb = reference[rpos];
                let cands: Vec<u8> = SUB_ALPHABET.iter().copied().filter(|c| !c.eq_ignore_ascii_case(&rb)).collect();
                let b = cands[(*sel as usize * cands.len()) >> 8];
                push_op(&mut core, m_sub, 1);
                bases.push(b);
                rpos += 1;
                feats += 1;
                have_aligned = true;
            }
            Edit::Ins(s) => {
                let b = sanitize_bases(s);
                if have_aligned && !b.is_empty() {
                    pending.push((b'I', b.len(), b));
                }
            }
            Edit::Del(n) | Edit::Skip(n) => {
                let k = if matches!(e, Edit::Del(_)) { b'D' } else { b'N' };
                let n = *n as usize;
                // keep at least one reference base for the aligned base that must follow
                if have_aligned && n > 0 && rpos + pending_ref + n < rlen {
                    pending.push((k, n, Vec::new()));
                    pending_ref += n;
                }
            }
            Edit::Pad(n) => {
                if have_aligned && *n > 0 {
                    pending.push((b'P', *n as usize, Vec::new()));
                }
            }
        }
    }
    if !have_aligned {
        // a read must align at least one base
        push_op(&mut core, m_eq, 1);
        bases.push(reference[rpos]);
        rpos += 1;
    }
    let ref_span = rpos - (start - 1);

    let lead_soft = sanitize_bases(&a.lead_soft);
    let trail_soft = sanitize_bases(&a.trail_soft);
    let mut cigar = Vec::new();
    push_op(&mut cigar, b'H', a.lead_hard as usize);
    push_op(&mut cigar, b'S', lead_soft.len());
    for (k, n) in core {
        push_op(&mut cigar, k, n);
    }
    push_op(&mut cigar, b'S', trail_soft.len());
    push_op(&mut cigar, b'H', a.trail_hard as usize);
    feats += [a.lead_hard as usize, lead_soft.len(), trail_soft.len(), a.trail_hard as usize].iter().filter(|n| **n > 0).count();

    let mut all = lead_soft;
    all.extend_from_slice(&bases);
    all.extend_from_slice(&trail_soft);
    if a.flip_case {
        for b in all.iter_mut() {
            *b = flip(*b);
        }
    }
    Placed { cigar, bases: all, start, ref_span, edit_features: feats }
}

/// Positions inside the reference are literal; larger ones wrap around (so that generated starts
/// spread over the reference whatever its length, and shrinking towards 1 stays literal).
pub fn wrap_pos(pos: u32, rlen: usize) -> usize {
    let p = (pos as usize).max(1);
    if p <= rlen { p } else { (p - 1) % rlen.max(1) + 1 }
}

fn commit(pending: &mut Vec<(u8, usize, Vec<u8>)>, core: &mut Vec<(u8, usize)>, bases: &mut Vec<u8>, rpos: &mut usize, pending_ref: &mut usize, feats: &mut usize) {
    for (k, n, b) in pending.drain(..) {
        push_op(core, k, n);
        bases.extend_from_slice(&b);
        if k == b'D' || k == b'N' {
            *rpos += n;
        }
        *feats += 1;
    }
    *pending_ref = 0;
}

pub fn expand_qual(q: &Qual, len: usize) -> Vec<u8> {
    match q {
        Qual::Missing => Vec::new(),
        Qual::Const(v) => vec![(*v).min(93); len],
        Qual::Seeded(seed) => {
            let mut r = XorShift::new(*seed as u64 + 7);
            let mut out = Vec::with_capacity(len);
            let mut cur = (r.next() % 94) as u8;
            while out.len() < len {
                let x = r.next();
                if x % 3 != 0 {
                    cur = ((x >> 8) % 94) as u8;
                }
                out.push(cur);
            }
            out
        }
    }
}

struct Seg {
    flags_own: u16, // 0x4 unmapped, 0x10 reverse, extra bits
    ref_id: Option<usize>,
    start: Option<usize>,
    ref_span: usize,
    mapq: Option<u8>,
    cigar: Vec<(u8, usize)>,
    bases: Vec<u8>,
    quals: Vec<u8>,
    aux: Vec<(String, AuxVal)>,
    edit_features: usize,
}

impl CramDoc {
    fn ref_index(&self, i: u8) -> usize {
        (i as usize).min(self.refs.len().saturating_sub(1))
    }

    fn seg(&self, r: &Read) -> Seg {
        let mut flags = r.extra_flags & (0x200 | 0x400);
        if r.reverse {
            flags |= 0x10;
        }
        let (ref_id, start, ref_span, mapq, cigar, bases, edit_features) = match &r.body {
            Body::Mapped(a) if !self.refs.is_empty() && !self.refs[self.ref_index(a.ref_idx)].seq.is_empty() => {
                let ri = self.ref_index(a.ref_idx);
                let p = place(a, self.refs[ri].seq.as_bytes());
                let bases = if a.bases_missing { Vec::new() } else { p.bases };
                (Some(ri), Some(p.start), p.ref_span, r.mapq.filter(|q| *q != 255), p.cigar, bases, p.edit_features)
            }
            Body::Mapped(a) => {
                // no reference at all: degrade to an unplaced unmapped read
                flags |= 0x4;
                (None, None, 0, None, Vec::new(), sanitize_bases(&a.lead_soft), 0)
            }
            Body::Unmapped { placed, bases } => {
                flags |= 0x4;
                let b = sanitize_bases(bases);
                match placed {
                    Some((ri, pos, overhang)) if !self.refs.is_empty() && !self.refs[self.ref_index(*ri)].seq.is_empty() => {
                        let ri = self.ref_index(*ri);
                        let rlen = self.refs[ri].seq.len();
                        let mut pos = wrap_pos(*pos, rlen);
                        if !*overhang {
                            pos = pos.min(rlen.saturating_sub(b.len().max(1)) + 1).max(1);
                        }
                        (Some(ri), Some(pos), 0, None, Vec::new(), b, 0)
                    }
                    _ => (None, None, 0, None, Vec::new(), b, 0),
                }
            }
        };
        let quals = if bases.is_empty() { Vec::new() } else { expand_qual(&r.qual, bases.len()) };
        let mut aux: Vec<(String, AuxVal)> = Vec::new();
        for a in &r.tags {
            let t = norm_tag(&a.tag);
            if t == "RG" || aux.iter().any(|(x, _)| *x == t) {
                continue;
            }
            aux.push((t, norm_val(&a.val)));
        }
        if let (Some(rg), false) = (r.rg, self.read_groups.is_empty()) {
            let name = self.read_groups[(rg as usize).min(self.read_groups.len() - 1)].clone();
            let at = (r.rg_at as usize).min(aux.len());
            aux.insert(at, ("RG".to_string(), AuxVal::Z(name)));
        }
        Seg { flags_own: flags, ref_id, start, ref_span, mapq, cigar, bases, quals, aux, edit_features }
    }

    /// The record stream in file order, with every dependent field computed.
    pub fn flatten(&self) -> Vec<FlatRec> {
        let mut recs: Vec<FlatRec> = Vec::new();
        // distinct templates get distinct names (a collision would make the CRAM writer treat
        // unrelated segmented reads as mates): a repeated name gets the template index appended
        let mut used: Vec<Vec<u8>> = Vec::new();
        let mut uniq = |name: &Option<String>, ti: usize| -> Option<Vec<u8>> {
            let mut n = norm_name(name.as_ref()?);
            if used.contains(&n) {
                n.truncate(240);
                n.extend_from_slice(format!(".{ti}").as_bytes());
            }
            used.push(n.clone());
            Some(n)
        };
        for (ti, t) in self.templates.iter().enumerate() {
            let name = &match t {
                Template::Single { name, .. } | Template::Pair { name, .. } => uniq(name, ti),
            };
            match t {
                Template::Single { read, secondary, .. } => {
                    let s = self.seg(read);
                    let mut flags = s.flags_own;
                    if *secondary && flags & 0x4 == 0 {
                        flags |= 0x100;
                    }
                    recs.push(flat(name, flags, s, None, 0, ti, 0));
                }
                Template::Pair { r1, r2, drop_r2, extra, .. } => {
                    let s1 = self.seg(r1);
                    let s2 = self.seg(r2);
                    let proper = if r1.extra_flags & 0x2 != 0 && s1.flags_own & 0x4 == 0 && s2.flags_own & 0x4 == 0 { 0x2 } else { 0 };
                    let f1 = 0x1 | 0x40 | proper | s1.flags_own | mate_bits(&s2);
                    let f2 = 0x1 | 0x80 | proper | s2.flags_own | mate_bits(&s1);
                    let (t1, t2) = tlen_pair(&s1, &s2);
                    let m1 = (s2.ref_id, s2.start);
                    let m2 = (s1.ref_id, s1.start);
                    let ex = extra.as_ref().map(|(k, r)| (k, self.seg(r)));
                    recs.push(flat(name, f1, s1, Some(m1), t1, ti, 0));
                    if let Some((k, sx)) = ex {
                        if sx.flags_own & 0x4 == 0 {
                            let kb = match k {
                                ExtraKind::Secondary => 0x100,
                                ExtraKind::Supplementary => 0x800,
                            };
                            let fx = 0x1 | 0x40 | proper | sx.flags_own | mate_bits(&s2) | kb;
                            let (tx, _) = tlen_pair(&sx, &s2);
                            recs.push(flat(name, fx, sx, Some(m1), tx, ti, 1));
                        }
                    }
                    if !*drop_r2 {
                        recs.push(flat(name, f2, s2, Some(m2), t2, ti, 2));
                    }
                }
            }
        }
        self.apply_order(recs)
    }

    fn apply_order(&self, recs: Vec<FlatRec>) -> Vec<FlatRec> {
        let coord = |r: &FlatRec| (r.ref_id.map(|x| x as u64).unwrap_or(u64::MAX), r.start.unwrap_or(usize::MAX) as u64);
        match &self.order {
            Order::Listed { left_first } => {
                let mut recs = recs;
                if *left_first {
                    let n = recs.len();
                    let mut i = 0;
                    while i < n {
                        let t = recs[i].template;
                        let mut j = i;
                        while j < n && recs[j].template == t {
                            j += 1;
                        }
                        recs[i..j].sort_by_key(|r| coord(r));
                        i = j;
                    }
                }
                recs
            }
            Order::Sorted => {
                let mut v: Vec<(usize, FlatRec)> = recs.into_iter().enumerate().collect();
                v.sort_by_key(|(i, r)| (coord(r), *i));
                v.into_iter().map(|(_, r)| r).collect()
            }
            Order::Shuffled { seed, left_first } => {
                let mut rng = XorShift::new(*seed as u64 + 11);
                let mut keyed: Vec<(u64, usize, FlatRec)> = recs.into_iter().enumerate().map(|(i, r)| (rng.next() >> 16, i, r)).collect();
                if *left_first {
                    // within a template give the smaller keys to the records with the smaller
                    // coordinates, so no segment precedes a segment to its left
                    let n = keyed.len();
                    let mut i = 0;
                    while i < n {
                        let t = keyed[i].2.template;
                        let mut j = i;
                        while j < n && keyed[j].2.template == t {
                            j += 1;
                        }
                        let mut keys: Vec<u64> = keyed[i..j].iter().map(|k| k.0).collect();
                        keys.sort();
                        let mut idx: Vec<usize> = (i..j).collect();
                        idx.sort_by_key(|&k| (coord(&keyed[k].2), keyed[k].1));
                        for (rank, k) in idx.into_iter().enumerate() {
                            keyed[k].0 = keys[rank];
                        }
                        i = j;
                    }
                }
                keyed.sort_by_key(|(k, i, _)| (*k, *i));
                keyed.into_iter().map(|(_, _, r)| r).collect()
            }
        }
    }
}

fn mate_bits(mate: &Seg) -> u16 {
    let mut f = 0;
    if mate.flags_own & 0x10 != 0 {
        f |= 0x20;
    }
    if mate.flags_own & 0x4 != 0 {
        f |= 0x8;
    }
    f
}

/// TLEN by the SAM specification: both segments mapped to the same reference ⇒ ± (rightmost
/// mapped base − leftmost mapped base + 1), plus for the leftmost segment; otherwise 0. Equal
/// starts: the first argument counts as leftmost (the specification leaves this open; checks must
/// not assert the sign there).
fn tlen_pair(a: &Seg, b: &Seg) -> (i32, i32) {
    let mapped = |s: &Seg| s.flags_own & 0x4 == 0 && s.ref_id.is_some() && s.start.is_some();
    if !mapped(a) || !mapped(b) || a.ref_id != b.ref_id {
        return (0, 0);
    }
    let (sa, sb) = (a.start.unwrap(), b.start.unwrap());
    let (ea, eb) = (sa + a.ref_span.max(1) - 1, sb + b.ref_span.max(1) - 1);
    let len = (ea.max(eb) - sa.min(sb) + 1) as i32;
    if sa <= sb { (len, -len) } else { (-len, len) }
}

fn flat(name: &Option<Vec<u8>>, flags: u16, s: Seg, mate: Option<(Option<usize>, Option<usize>)>, tlen: i32, template: usize, role: u8) -> FlatRec {
    let (mate_ref_id, mate_start) = mate.unwrap_or((None, None));
    FlatRec {
        name: name.clone(),
        flags,
        ref_id: s.ref_id,
        start: s.start,
        ref_span: s.ref_span,
        mapq: if flags & 0x4 != 0 { None } else { s.mapq },
        cigar: s.cigar,
        mate_ref_id,
        mate_start,
        tlen,
        bases: s.bases,
        quals: s.quals,
        aux: s.aux,
        template,
        role,
        edit_features: s.edit_features,
    }
}

fn norm_name(n: &str) -> Vec<u8> {
    let mut v: Vec<u8> = n.bytes().filter(|b| (b'!'..=b'~').contains(b) && *b != b'@').take(254).collect();
    if v.is_empty() || v == b"*" {
        v = b"q".to_vec();
    }
    v
}

fn norm_tag(t: &str) -> String {
    let b: Vec<u8> = t.bytes().collect();
    let c0 = b.first().copied().filter(|c| c.is_ascii_alphabetic()).unwrap_or(b'X');
    let c1 = b.get(1).copied().filter(|c| c.is_ascii_alphanumeric()).unwrap_or(b'0');
    String::from_utf8(vec![c0, c1]).unwrap()
}

fn norm_val(v: &AuxVal) -> AuxVal {
    match v {
        AuxVal::A(c) => AuxVal::A(if (b'!'..=b'~').contains(c) { *c } else { b'!' }),
        AuxVal::Z(s) => AuxVal::Z(s.chars().filter(|c| (' '..='~').contains(c)).collect()),
        AuxVal::H(s) => {
            let mut h: String = s.chars().filter(|c| c.is_ascii_hexdigit()).map(|c| c.to_ascii_uppercase()).collect();
            if h.len() % 2 == 1 {
                h.pop();
            }
            AuxVal::H(h)
        }
        other => other.clone(),
    }
}

// ---------------------------------------------------------------------------------------------
// conversions to noodles values
// ---------------------------------------------------------------------------------------------

pub struct Noodles {
    pub header: sam::Header,
    pub repository: fasta::Repository,
    pub records: Vec<RecordBuf>,
    pub flat: Vec<FlatRec>,
}

pub fn md5_upper(seq: &[u8]) -> [u8; 16] {
    use md5::{Digest, Md5};
    let up: Vec<u8> = seq.iter().map(|b| b.to_ascii_uppercase()).collect();
    let mut h = Md5::new();
    h.update(&up);
    h.finalize().into()
}

pub fn hex(b: &[u8]) -> String {
    b.iter().map(|x| format!("{x:02x}")).collect()
}

fn kind_of(c: u8) -> Kind {
    match c {
        b'M' => Kind::Match,
        b'I' => Kind::Insertion,
        b'D' => Kind::Deletion,
        b'N' => Kind::Skip,
        b'S' => Kind::SoftClip,
        b'H' => Kind::HardClip,
        b'P' => Kind::Pad,
        b'=' => Kind::SequenceMatch,
        _ => Kind::SequenceMismatch,
    }
}

pub fn kind_char(k: Kind) -> u8 {
    match k {
        Kind::Match => b'M',
        Kind::Insertion => b'I',
        Kind::Deletion => b'D',
        Kind::Skip => b'N',
        Kind::SoftClip => b'S',
        Kind::HardClip => b'H',
        Kind::Pad => b'P',
        Kind::SequenceMatch => b'=',
        Kind::SequenceMismatch => b'X',
    }
}

pub fn aux_to_value(v: &AuxVal) -> Value {
    match v {
        AuxVal::A(c) => Value::Character(*c),
        AuxVal::I8(n) => Value::Int8(*n),
        AuxVal::U8(n) => Value::UInt8(*n),
        AuxVal::I16(n) => Value::Int16(*n),
        AuxVal::U16(n) => Value::UInt16(*n),
        AuxVal::I32(n) => Value::Int32(*n),
        AuxVal::U32(n) => Value::UInt32(*n),
        AuxVal::F(b) => Value::Float(f32::from_bits(*b)),
        AuxVal::Z(s) => Value::String(s.as_bytes().into()),
        AuxVal::H(s) => Value::Hex(s.as_bytes().into()),
        AuxVal::BI8(a) => Value::Array(Array::Int8(a.clone())),
        AuxVal::BU8(a) => Value::Array(Array::UInt8(a.clone())),
        AuxVal::BI16(a) => Value::Array(Array::Int16(a.clone())),
        AuxVal::BU16(a) => Value::Array(Array::UInt16(a.clone())),
        AuxVal::BI32(a) => Value::Array(Array::Int32(a.clone())),
        AuxVal::BU32(a) => Value::Array(Array::UInt32(a.clone())),
        AuxVal::BF(a) => Value::Array(Array::Float(a.iter().map(|b| f32::from_bits(*b)).collect())),
    }
}

/// The inverse of `aux_to_value` (floats by bit pattern, integer types exact).
pub fn value_to_aux(v: &Value) -> AuxVal {
    match v {
        Value::Character(c) => AuxVal::A(*c),
        Value::Int8(n) => AuxVal::I8(*n),
        Value::UInt8(n) => AuxVal::U8(*n),
        Value::Int16(n) => AuxVal::I16(*n),
        Value::UInt16(n) => AuxVal::U16(*n),
        Value::Int32(n) => AuxVal::I32(*n),
        Value::UInt32(n) => AuxVal::U32(*n),
        Value::Float(f) => AuxVal::F(f.to_bits()),
        Value::String(s) => AuxVal::Z(String::from_utf8_lossy(s).into_owned()),
        Value::Hex(s) => AuxVal::H(String::from_utf8_lossy(s).into_owned()),
        Value::Array(Array::Int8(a)) => AuxVal::BI8(a.clone()),
        Value::Array(Array::UInt8(a)) => AuxVal::BU8(a.clone()),
        Value::Array(Array::Int16(a)) => AuxVal::BI16(a.clone()),
        Value::Array(Array::UInt16(a)) => AuxVal::BU16(a.clone()),
        Value::Array(Array::Int32(a)) => AuxVal::BI32(a.clone()),
        Value::Array(Array::UInt32(a)) => AuxVal::BU32(a.clone()),
        Value::Array(Array::Float(a)) => AuxVal::BF(a.iter().map(|f| f.to_bits()).collect()),
    }
}

pub fn aux_type_char(v: &AuxVal) -> u8 {
    match v {
        AuxVal::A(_) => b'A',
        AuxVal::I8(_) => b'c',
        AuxVal::U8(_) => b'C',
        AuxVal::I16(_) => b's',
        AuxVal::U16(_) => b'S',
        AuxVal::I32(_) => b'i',
        AuxVal::U32(_) => b'I',
        AuxVal::F(_) => b'f',
        AuxVal::Z(_) => b'Z',
        AuxVal::H(_) => b'H',
        _ => b'B',
    }
}

fn tag_of(t: &str) -> Tag {
    let b = t.as_bytes();
    Tag::new(b[0], b[1])
}

pub fn to_record_buf(r: &FlatRec) -> RecordBuf {
    let mut b = RecordBuf::builder().set_flags(sam::alignment::record::Flags::from(r.flags)).set_template_length(r.tlen);
    if let Some(n) = &r.name {
        b = b.set_name(&n[..]);
    }
    if let Some(id) = r.ref_id {
        b = b.set_reference_sequence_id(id);
    }
    if let Some(p) = r.start.and_then(Position::new) {
        b = b.set_alignment_start(p);
    }
    if let Some(q) = r.mapq.and_then(sam::alignment::record::MappingQuality::new) {
        b = b.set_mapping_quality(q);
    }
    if !r.cigar.is_empty() {
        b = b.set_cigar(r.cigar.iter().map(|(k, n)| Op::new(kind_of(*k), *n)).collect());
    }
    if let Some(id) = r.mate_ref_id {
        b = b.set_mate_reference_sequence_id(id);
    }
    if let Some(p) = r.mate_start.and_then(Position::new) {
        b = b.set_mate_alignment_start(p);
    }
    b = b.set_sequence(sam::alignment::record_buf::Sequence::from(r.bases.clone()));
    b = b.set_quality_scores(sam::alignment::record_buf::QualityScores::from(r.quals.clone()));
    let data: sam::alignment::record_buf::Data = r.aux.iter().map(|(t, v)| (tag_of(t), aux_to_value(v))).collect();
    b.set_data(data).build()
}

impl CramDoc {
    /// The header as handed to the writer.
    pub fn header(&self) -> sam::Header {
        use sam::header::record::value::{
            Map,
            map::{self, ReferenceSequence, header::Version, header::tag as hdtag, reference_sequence::tag as sqtag},
        };
        let mut b = sam::Header::builder();
        if let Some(so) = &self.sort_order_tag {
            let mut hd = Map::<map::Header>::new(Version::new(1, 6));
            hd.other_fields_mut().insert(hdtag::SORT_ORDER, so.as_bytes().into());
            b = b.set_header(hd);
        }
        for r in &self.refs {
            let mut m = Map::<ReferenceSequence>::new(NonZeroUsize::new(r.seq.len().max(1)).unwrap());
            if self.m5_in_header {
                m.other_fields_mut().insert(sqtag::MD5_CHECKSUM, hex(&md5_upper(r.seq.as_bytes())).into_bytes().into());
            }
            b = b.add_reference_sequence(r.name.as_bytes(), m);
        }
        for g in &self.read_groups {
            b = b.add_read_group(g.as_bytes(), Default::default());
        }
        for c in &self.comments {
            b = b.add_comment(c.as_bytes());
        }
        b.build()
    }

    /// The header a reader must return: the written one with `M5` filled in on every `@SQ`.
    pub fn expected_header(&self) -> sam::Header {
        let mut d = self.clone();
        d.m5_in_header = true;
        d.header()
    }

    pub fn repository(&self) -> fasta::Repository {
        let recs: Vec<fasta::Record> = self
            .refs
            .iter()
            .map(|r| fasta::Record::new(fasta::record::Definition::new(r.name.as_bytes(), None), fasta::record::Sequence::from(r.seq.as_bytes().to_vec())))
            .collect();
        fasta::Repository::new(recs)
    }

    pub fn to_noodles(&self) -> Noodles {
        let flat = self.flatten();
        let records = flat.iter().map(to_record_buf).collect();
        Noodles { header: self.header(), repository: self.repository(), records, flat }
    }

    /// Records per slice the writer will use.
    pub fn records_per_slice(&self) -> usize {
        if self.opts.records_per_slice == 0 { 10_240 } else { self.opts.records_per_slice as usize }
    }
}

pub const SERIES: [cram::container::compression_header::data_series_encodings::DataSeries; N_SERIES] = {
    use cram::container::compression_header::data_series_encodings::DataSeries as D;
    [
        D::BamFlags,
        D::CramFlags,
        D::ReferenceSequenceIds,
        D::ReadLengths,
        D::AlignmentStarts,
        D::ReadGroupIds,
        D::Names,
        D::MateFlags,
        D::MateReferenceSequenceIds,
        D::MateAlignmentStarts,
        D::TemplateLengths,
        D::MateDistances,
        D::TagSetIds,
        D::FeatureCounts,
        D::FeatureCodes,
        D::FeaturePositionDeltas,
        D::DeletionLengths,
        D::StretchesOfBases,
        D::StretchesOfQualityScores,
        D::BaseSubstitutionCodes,
        D::InsertionBases,
        D::ReferenceSkipLengths,
        D::PaddingLengths,
        D::HardClipLengths,
        D::SoftClipBases,
        D::MappingQualities,
        D::Bases,
        D::QualityScores,
    ]
};

pub fn to_encoder(e: &Enc) -> Option<cram::codecs::Encoder> {
    use cram::codecs::{Encoder, aac, rans_4x8, rans_nx16};
    match e {
        Enc::None => None,
        Enc::Gzip(l) => Some(Encoder::Gzip(flate2::Compression::new((*l).min(9) as u32))),
        Enc::Bzip2(l) => Some(Encoder::Bzip2(bzip2::Compression::new((*l).clamp(1, 9) as u32))),
        Enc::Lzma(l) => Some(Encoder::Lzma((*l).min(9) as u32)),
        Enc::Rans4x8(o) => Some(Encoder::Rans4x8(if *o == 0 { rans_4x8::Order::Zero } else { rans_4x8::Order::One })),
        Enc::RansNx16(f) => Some(Encoder::RansNx16(rans_nx16::Flags::from_bits_retain(*f))),
        Enc::Aac(f) => Some(Encoder::AdaptiveArithmeticCoding(aac::Flags::from_bits_retain(*f))),
        Enc::NameTok => Some(Encoder::NameTokenizer),
        Enc::Fqz => Some(Encoder::Fqzcomp),
    }
}

/// CRAM 3.1-only codec?
pub fn is_31(e: &Enc) -> bool {
    matches!(e, Enc::RansNx16(_) | Enc::Aac(_) | Enc::NameTok | Enc::Fqz)
}

/// The (tag, type) keys used by the records, in first-use order.
pub fn tag_keys(flat: &[FlatRec]) -> Vec<(String, u8)> {
    let mut keys: Vec<(String, u8)> = Vec::new();
    for r in flat {
        for (t, v) in &r.aux {
            let k = (t.clone(), aux_type_char(v));
            if !keys.contains(&k) {
                keys.push(k);
            }
        }
    }
    keys
}

pub fn tag_rule_pick<'a>(rule: &'a [Enc], tag: &str, ty: u8) -> Option<&'a Enc> {
    if rule.is_empty() {
        return None;
    }
    let mut k = tag.as_bytes().to_vec();
    k.push(ty);
    Some(&rule[(fnv(&k) % rule.len() as u64) as usize])
}

fn type_of(ty: u8) -> sam::alignment::record::data::field::Type {
    use sam::alignment::record::data::field::Type as T;
    match ty {
        b'A' => T::Character,
        b'c' => T::Int8,
        b'C' => T::UInt8,
        b's' => T::Int16,
        b'S' => T::UInt16,
        b'i' => T::Int32,
        b'I' => T::UInt32,
        b'f' => T::Float,
        b'Z' => T::String,
        b'H' => T::Hex,
        _ => T::Array,
    }
}

pub fn to_encoder_map(m: &EncMap, flat: &[FlatRec]) -> cram::container::BlockContentEncoderMap {
    use cram::container::compression_header::preservation_map::tag_sets::Key;
    let mut b = cram::container::BlockContentEncoderMap::builder().set_core_data_encoder(to_encoder(&m.core)).set_default_encoder(to_encoder(&m.default));
    for (i, ds) in SERIES.iter().enumerate() {
        b = b.set_data_series_encoder(*ds, m.series.get(i).and_then(to_encoder));
    }
    for (t, ty) in tag_keys(flat) {
        if let Some(e) = tag_rule_pick(&m.tag_rule, &t, ty) {
            b = b.set_tag_values_encoder(Key::new(tag_of(&t), type_of(ty)), to_encoder(e));
        }
    }
    b.build()
}

pub fn writer_builder(doc: &CramDoc, n: &Noodles) -> cram::io::writer::Builder {
    let mut b = cram::io::writer::Builder::default()
        .set_reference_sequence_repository(n.repository.clone())
        .preserve_read_names(doc.opts.preserve_read_names)
        .encode_alignment_start_positions_as_deltas(doc.opts.ap_delta);
    if doc.opts.records_per_slice != 0 {
        b = b.verif_set_records_per_slice(doc.opts.records_per_slice as usize);
    }
    if let Some(m) = &doc.opts.enc {
        b = b.set_block_content_encoder_map(to_encoder_map(m, &n.flat));
    }
    b
}

/// The async twin of `writer_builder` (same options, same hook).
pub fn async_writer_builder(doc: &CramDoc, n: &Noodles) -> cram::r#async::io::writer::Builder {
    let mut b = cram::r#async::io::writer::Builder::default()
        .set_reference_sequence_repository(n.repository.clone())
        .preserve_read_names(doc.opts.preserve_read_names)
        .encode_alignment_start_positions_as_deltas(doc.opts.ap_delta);
    if doc.opts.records_per_slice != 0 {
        b = b.verif_set_records_per_slice(doc.opts.records_per_slice as usize);
    }
    if let Some(m) = &doc.opts.enc {
        b = b.set_block_content_encoder_map(to_encoder_map(m, &n.flat));
    }
    b
}

/// Write the document with `cram::io::Writer` following its documented protocol
/// (`write_header`, records, `try_finish`).
pub fn write_noodles(doc: &CramDoc, n: &Noodles) -> io::Result<Vec<u8>> {
    let mut w = writer_builder(doc, n).build_from_writer(Vec::new());
    w.write_header(&n.header)?;
    for r in &n.records {
        w.write_alignment_record(&n.header, r)?;
    }
    w.try_finish(&n.header)?;
    Ok(w.into_inner())
}

pub fn write_with_noodles(doc: &CramDoc) -> io::Result<Vec<u8>> {
    let n = doc.to_noodles();
    write_noodles(doc, &n)
}

/// Read a CRAM byte string with the document's repository: (header, records).
pub fn read_noodles(bytes: &[u8], repository: &fasta::Repository) -> io::Result<(sam::Header, Vec<RecordBuf>)> {
    let mut r = cram::io::reader::Builder::default().set_reference_sequence_repository(repository.clone()).build_from_reader(bytes);
    let header = r.read_header()?;
    let mut out = Vec::new();
    for rec in r.records(&header) {
        out.push(rec?);
    }
    Ok((header, out))
}

pub fn read_with_noodles(bytes: &[u8], doc: &CramDoc) -> io::Result<Vec<RecordBuf>> {
    read_noodles(bytes, &doc.repository()).map(|(_, r)| r)
}

// ---------------------------------------------------------------------------------------------
// canonical comparison
// ---------------------------------------------------------------------------------------------

/// What CRAM is specified to keep of a record (the normal form both sides are mapped to):
/// `=`/`X` become `M` and adjacent equal ops merge (CRAM rebuilds the CIGAR from read features),
/// bases are upper-cased, unmapped reads carry no MAPQ, aux fields are sorted by tag (SAM gives
/// their order no meaning; CRAM keeps RG out of line).
#[derive(Clone, Debug, PartialEq)]
pub struct Canon {
    pub name: Option<Vec<u8>>,
    pub flags: u16,
    pub ref_id: Option<usize>,
    pub start: Option<usize>,
    pub mapq: Option<u8>,
    pub cigar: Vec<(u8, usize)>,
    pub mate_ref_id: Option<usize>,
    pub mate_start: Option<usize>,
    pub tlen: i32,
    pub bases: Vec<u8>,
    pub quals: Vec<u8>,
    /// sorted by tag; a duplicated tag stays duplicated
    pub aux: Vec<(String, AuxVal)>,
}

pub fn canon_cigar(c: &[(u8, usize)]) -> Vec<(u8, usize)> {
    let mut out = Vec::new();
    for (k, n) in c {
        let k = if *k == b'=' || *k == b'X' { b'M' } else { *k };
        push_op(&mut out, k, *n);
    }
    out
}

pub fn canon_of_flat(r: &FlatRec) -> Canon {
    let mut aux = r.aux.clone();
    aux.sort_by(|a, b| a.0.cmp(&b.0));
    Canon {
        name: r.name.clone(),
        flags: r.flags,
        ref_id: r.ref_id,
        start: r.start,
        mapq: if r.is_unmapped() { None } else { r.mapq },
        cigar: canon_cigar(&r.cigar),
        mate_ref_id: r.mate_ref_id,
        mate_start: r.mate_start,
        tlen: r.tlen,
        bases: r.bases.to_ascii_uppercase(),
        quals: r.quals.clone(),
        aux,
    }
}

pub fn canon_of_record(r: &RecordBuf) -> Canon {
    let flags = u16::from(r.flags());
    let mut aux: Vec<(String, AuxVal)> = r.data().iter().map(|(t, v)| (String::from_utf8_lossy(t.as_ref()).into_owned(), value_to_aux(v))).collect();
    aux.sort_by(|a, b| a.0.cmp(&b.0));
    let cigar: Vec<(u8, usize)> = r.cigar().as_ref().iter().map(|op| (kind_char(op.kind()), op.len())).collect();
    Canon {
        name: r.name().map(|n| n.to_vec()),
        flags,
        ref_id: r.reference_sequence_id(),
        start: r.alignment_start().map(usize::from),
        mapq: if flags & 0x4 != 0 { None } else { r.mapping_quality().map(u8::from) },
        cigar: canon_cigar(&cigar),
        mate_ref_id: r.mate_reference_sequence_id(),
        mate_start: r.mate_alignment_start().map(usize::from),
        tlen: r.template_length(),
        bases: r.sequence().as_ref().to_ascii_uppercase(),
        quals: r.quality_scores().as_ref().to_vec(),
        aux,
    }
}

pub fn cigar_text(c: &[(u8, usize)]) -> String {
    if c.is_empty() {
        return "*".into();
    }
    c.iter().map(|(k, n)| format!("{}{}", n, *k as char)).collect()
}

fn aux_text(t: &str, v: &AuxVal) -> String {
    fn join<T: std::fmt::Display>(c: char, a: &[T]) -> String {
        let mut s = format!("B:{c}");
        for x in a {
            s.push_str(&format!(",{x}"));
        }
        s
    }
    let body = match v {
        AuxVal::A(c) => format!("A:{}", *c as char),
        AuxVal::I8(n) => format!("c:{n}"),
        AuxVal::U8(n) => format!("C:{n}"),
        AuxVal::I16(n) => format!("s:{n}"),
        AuxVal::U16(n) => format!("S:{n}"),
        AuxVal::I32(n) => format!("i:{n}"),
        AuxVal::U32(n) => format!("I:{n}"),
        AuxVal::F(b) => format!("f:0x{b:08x}"),
        AuxVal::Z(s) => format!("Z:{s}"),
        AuxVal::H(s) => format!("H:{s}"),
        AuxVal::BI8(a) => join('c', a),
        AuxVal::BU8(a) => join('C', a),
        AuxVal::BI16(a) => join('s', a),
        AuxVal::BU16(a) => join('S', a),
        AuxVal::BI32(a) => join('i', a),
        AuxVal::BU32(a) => join('I', a),
        AuxVal::BF(a) => join('f', &a.iter().map(|b| format!("0x{b:08x}")).collect::<Vec<_>>()),
    };
    format!("{t}:{body}")
}

/// One SAM-like line per record in the canonical form (integer aux types spelled out, floats as
/// bit patterns), suitable for transcripts.
pub fn canonical_text(c: &Canon) -> String {
    let opt = |o: Option<usize>| o.map(|x| x.to_string()).unwrap_or_else(|| "*".into());
    let mut s = format!(
        "{}\t{}\t{}\t{}\t{}\t{}\t{}\t{}\t{}\t{}\t{}",
        c.name.as_ref().map(|n| String::from_utf8_lossy(n).into_owned()).unwrap_or_else(|| "*".into()),
        c.flags,
        opt(c.ref_id),
        opt(c.start),
        c.mapq.map(|q| q.to_string()).unwrap_or_else(|| "255".into()),
        cigar_text(&c.cigar),
        opt(c.mate_ref_id),
        opt(c.mate_start),
        c.tlen,
        if c.bases.is_empty() { "*".to_string() } else { String::from_utf8_lossy(&c.bases).into_owned() },
        if c.quals.is_empty() { "*".to_string() } else { c.quals.iter().map(|q| ((*q).min(93) + 33) as char).collect() },
    );
    for (t, v) in &c.aux {
        s.push('\t');
        s.push_str(&aux_text(t, v));
    }
    s
}

pub fn canonical_text_of_record(r: &RecordBuf) -> String {
    canonical_text(&canon_of_record(r))
}

// ---------------------------------------------------------------------------------------------
// hazard classification (predicates on the document; used for labels and for `Params::safe`)
// ---------------------------------------------------------------------------------------------

/// Classes of input that the pinned noodles tree is known (by probe) to mishandle. Computed from
/// the flattened document and the slice layout implied by `records_per_slice` (one slice per
/// container: record `i` lives in slice `i / records_per_slice`).
#[derive(Clone, Debug, Default, PartialEq)]
pub struct Hazards {
    pub missing_name: bool,
    /// a record with bases but without quality scores
    pub missing_quals: bool,
    /// a mapped record with a CIGAR but no bases
    pub mapped_missing_bases: bool,
    /// an unmapped record without bases
    pub unmapped_missing_bases: bool,
    /// a placed unmapped read whose `start + len - 1` passes the end of its reference
    pub placed_unmapped_overhang: bool,
    /// two or more primary/supplementary lines of one template in one slice where file order is
    /// not left-to-right, the template has more than two such lines, the segments lie on
    /// different references, or one of them is unmapped-but-placed (TLEN/mate recomputation)
    pub in_slice_chain_irregular: bool,
    /// segmented records without a name sharing a slice (chained to each other by the writer)
    pub unnamed_segmented_in_slice: bool,
}

impl Hazards {
    pub fn any(&self) -> bool {
        self.missing_name
            || self.missing_quals
            || self.mapped_missing_bases
            || self.unmapped_missing_bases
            || self.placed_unmapped_overhang
            || self.in_slice_chain_irregular
            || self.unnamed_segmented_in_slice
    }
}

pub fn hazards(doc: &CramDoc, flat: &[FlatRec]) -> Hazards {
    let mut h = Hazards::default();
    let rps = doc.records_per_slice();
    for r in flat {
        if r.name.is_none() {
            h.missing_name = true;
        }
        if !r.bases.is_empty() && r.quals.is_empty() {
            h.missing_quals = true;
        }
        if !r.is_unmapped() && r.bases.is_empty() {
            h.mapped_missing_bases = true;
        }
        if r.is_unmapped() && r.bases.is_empty() {
            h.unmapped_missing_bases = true;
        }
        if r.is_unmapped() {
            if let (Some(id), Some(s)) = (r.ref_id, r.start) {
                let rlen = doc.refs[id].seq.len();
                if s + r.bases.len().max(1) - 1 > rlen {
                    h.placed_unmapped_overhang = true;
                }
            }
        }
    }
    for (si, slice) in flat.chunks(rps.max(1)).enumerate() {
        let _ = si;
        // chains as the writer builds them: segmented && !secondary, keyed by name
        let mut seen: Vec<(&Option<Vec<u8>>, Vec<&FlatRec>)> = Vec::new();
        for r in slice {
            if r.flags & 0x1 != 0 && r.flags & 0x100 == 0 {
                if let Some(e) = seen.iter_mut().find(|(n, _)| *n == &r.name) {
                    e.1.push(r);
                } else {
                    seen.push((&r.name, vec![r]));
                }
            }
        }
        for (name, chain) in &seen {
            if chain.len() < 2 {
                continue;
            }
            if name.is_none() {
                h.unnamed_segmented_in_slice = true;
                continue;
            }
            let irregular = chain.len() > 2
                || chain.iter().any(|r| r.is_unmapped() && r.ref_id.is_some())
                || chain[0].ref_id != chain[1].ref_id
                || match (chain[0].start, chain[1].start) {
                    (Some(a), Some(b)) => a > b,
                    _ => false,
                };
            if irregular {
                h.in_slice_chain_irregular = true;
            }
        }
    }
    h
}

// ---------------------------------------------------------------------------------------------
// strategies
// ---------------------------------------------------------------------------------------------

#[derive(Clone, Debug)]
pub struct Params {
    pub max_refs: usize,
    pub max_ref_len: usize,
    pub max_templates: usize,
    /// always coordinate-sorted
    pub sorted_only: bool,
    /// allow generated (non-default) encoder maps
    pub encoders: bool,
    /// generate unmapped reads (unplaced; placed ones are a hazard class of their own)
    pub unmapped: bool,
    /// weights (out of 100 per record / per document) of the hazard classes; 0 = never
    pub w_missing_name: u32,
    pub w_missing_quals: u32,
    pub w_mapped_missing_bases: u32,
    pub w_unmapped_missing_bases: u32,
    pub w_placed_unmapped: u32,
    pub w_supplementary: u32,
    /// shuffled order may put the rightmost segment first
    pub w_right_first: u32,
    /// pairs whose segments lie on different references
    pub w_chimeric: u32,
}

impl Params {
    /// Only inputs the pinned tree round-trips (modulo the slice-layout dependent classes, which
    /// callers can test for with `hazards`).
    pub fn safe() -> Params {
        Params {
            max_refs: 3,
            max_ref_len: 300,
            max_templates: 16,
            sorted_only: false,
            encoders: true,
            unmapped: true,
            w_missing_name: 0,
            w_missing_quals: 0,
            w_mapped_missing_bases: 0,
            w_unmapped_missing_bases: 0,
            w_placed_unmapped: 0,
            w_supplementary: 0,
            w_right_first: 0,
            w_chimeric: 0,
        }
    }
    /// `safe()` with the writer's default encoder map only: what format drivers that need a
    /// document that certainly round-trips on the pinned tree should use (the rANS / arithmetic /
    /// tokenizer / fqzcomp codecs of the pinned tree fail on many small series).
    pub fn robust() -> Params {
        Params { encoders: false, ..Params::safe() }
    }
    /// The safe domain plus exactly one hazard class at a high in-document rate (so that one
    /// document shows one class, and failure signatures stay attributable).
    pub fn with_hazard(kind: HazardKind) -> Params {
        let mut p = Params::safe();
        match kind {
            HazardKind::MissingName => p.w_missing_name = 25,
            HazardKind::MissingQuals => p.w_missing_quals = 25,
            HazardKind::MappedMissingBases => p.w_mapped_missing_bases = 20,
            HazardKind::UnmappedMissingBases => p.w_unmapped_missing_bases = 40,
            HazardKind::PlacedUnmapped => p.w_placed_unmapped = 30,
            HazardKind::Supplementary => p.w_supplementary = 40,
            HazardKind::RightFirst => p.w_right_first = 100,
            HazardKind::Chimeric => p.w_chimeric = 50,
        }
        p
    }
}

#[derive(Clone, Copy, Debug, PartialEq, Eq)]
pub enum HazardKind {
    MissingName,
    MissingQuals,
    MappedMissingBases,
    UnmappedMissingBases,
    PlacedUnmapped,
    Supplementary,
    RightFirst,
    Chimeric,
}

pub const HAZARD_KINDS: [HazardKind; 8] = [
    HazardKind::MissingName,
    HazardKind::MissingQuals,
    HazardKind::MappedMissingBases,
    HazardKind::UnmappedMissingBases,
    HazardKind::PlacedUnmapped,
    HazardKind::Supplementary,
    HazardKind::RightFirst,
    HazardKind::Chimeric,
];

/// The whole domain of the C07 statement: `safe_weight` parts safe documents, one part per hazard
/// class.
pub fn full_strategy(safe_weight: u32) -> BoxedStrategy<CramDoc> {
    let mut alts: Vec<(u32, BoxedStrategy<CramDoc>)> = vec![(safe_weight, doc_strategy(Params::safe()))];
    for k in HAZARD_KINDS {
        alts.push((1, doc_strategy(Params::with_hazard(k))));
    }
    prop::strategy::Union::new_weighted(alts).boxed()
}

fn weighted_bool(w: u32) -> BoxedStrategy<bool> {
    if w == 0 { Just(false).boxed() } else { prop::bool::weighted(w as f64 / 100.0).boxed() }
}

pub fn ref_seq_strategy(max_len: usize) -> BoxedStrategy<String> {
    // segments: (class, length, seed)
    let seg = (0u8..10, 1usize..60, any::<u32>());
    prop::collection::vec(seg, 1..8)
        .prop_map(move |segs| {
            let mut s = Vec::new();
            for (class, len, seed) in segs {
                let mut r = XorShift::new(seed as u64 + 3);
                for _ in 0..len {
                    let x = r.next();
                    let b = match class {
                        0..=5 => b"ACGT"[(x % 4) as usize],
                        6 => b'N',
                        7 => b"acgt"[(x % 4) as usize],
                        8 => b"ACGTRYKMSWN"[(x % 11) as usize],
                        _ => b"AAAC"[(x % 4) as usize],
                    };
                    s.push(b);
                }
            }
            s.truncate(max_len.max(1));
            String::from_utf8(s).unwrap()
        })
        .boxed()
}

fn bases_strategy(max: usize) -> BoxedStrategy<String> {
    prop_oneof![
        12 => prop::collection::vec(prop::sample::select(b"ACGT".to_vec()), 0..=max),
        2 => prop::collection::vec(prop::sample::select(b"ACGTNacgtn".to_vec()), 0..=max),
        1 => prop::collection::vec(prop::sample::select(b"ACGTNacgtnRYKMSWBDHV".to_vec()), 0..=max),
    ]
    .prop_map(|v| String::from_utf8(v).unwrap())
    .boxed()
}

fn nonempty_bases_strategy(max: usize) -> BoxedStrategy<String> {
    bases_strategy(max).prop_map(|s| if s.is_empty() { "A".to_string() } else { s }).boxed()
}

fn edit_strategy() -> BoxedStrategy<Edit> {
    prop_oneof![
        10 => (1u16..30).prop_map(Edit::Eq),
        6 => any::<u8>().prop_map(Edit::Sub),
        3 => nonempty_bases_strategy(5).prop_map(Edit::Ins),
        3 => (1u16..12).prop_map(Edit::Del),
        1 => (1u16..60).prop_map(Edit::Skip),
        1 => (1u16..4).prop_map(Edit::Pad),
    ]
    .boxed()
}

fn aligned_strategy(p: &Params) -> BoxedStrategy<Aligned> {
    let max_ref_len = p.max_ref_len as u32;
    let w_mb = p.w_mapped_missing_bases;
    (
        0u8..(p.max_refs.max(1) as u8),
        prop_oneof![4 => 1u32..=max_ref_len, 1 => 1u32..4],
        prop_oneof![8 => Just(0u16), 1 => 1u16..20],
        prop_oneof![6 => Just(String::new()), 2 => bases_strategy(6)],
        prop_oneof![
            3 => Just(vec![Edit::Eq(20)]),
            8 => prop::collection::vec(edit_strategy(), 1..8),
        ],
        prop_oneof![6 => Just(String::new()), 2 => bases_strategy(6)],
        prop_oneof![8 => Just(0u16), 1 => 1u16..20],
        prop::bool::weighted(0.08),
        prop::bool::weighted(0.06),
        weighted_bool(w_mb),
    )
        .prop_map(|(ref_idx, start, lead_hard, lead_soft, edits, trail_soft, trail_hard, eqx, flip_case, bases_missing)| Aligned {
            skip_only: false,
            ref_idx,
            start,
            lead_hard,
            lead_soft,
            edits,
            trail_soft,
            trail_hard,
            eqx,
            flip_case,
            bases_missing,
        })
        .boxed()
}

fn aux_val_strategy() -> BoxedStrategy<AuxVal> {
    fn ints<T: Arbitrary + Clone + std::fmt::Debug + 'static>() -> BoxedStrategy<Vec<T>> {
        prop::collection::vec(any::<T>(), 0..5).boxed()
    }
    let fbits = prop_oneof![
        4 => any::<f32>().prop_map(|f| f.to_bits()),
        1 => prop::sample::select(vec![0u32, 0x8000_0000, 0x7f80_0000, 0xff80_0000, 0x7fc0_0000, 0x0000_0001, 0x3f80_0000]),
    ];
    prop_oneof![
        (33u8..=126).prop_map(AuxVal::A),
        any::<i8>().prop_map(AuxVal::I8),
        any::<u8>().prop_map(AuxVal::U8),
        any::<i16>().prop_map(AuxVal::I16),
        any::<u16>().prop_map(AuxVal::U16),
        prop_oneof![any::<i32>(), prop::sample::select(vec![i32::MIN, i32::MAX, -1, 0, 127, 128, -128, -129, 32767, 32768, 65535, 65536])].prop_map(AuxVal::I32),
        prop_oneof![any::<u32>(), prop::sample::select(vec![0, u32::MAX, 255, 256, 65535, 65536, 1 << 31])].prop_map(AuxVal::U32),
        fbits.clone().prop_map(AuxVal::F),
        "[ -~]{0,12}".prop_map(AuxVal::Z),
        "([0-9A-F]{2}){0,5}".prop_map(AuxVal::H),
        ints::<i8>().prop_map(AuxVal::BI8),
        ints::<u8>().prop_map(AuxVal::BU8),
        ints::<i16>().prop_map(AuxVal::BI16),
        ints::<u16>().prop_map(AuxVal::BU16),
        ints::<i32>().prop_map(AuxVal::BI32),
        ints::<u32>().prop_map(AuxVal::BU32),
        prop::collection::vec(fbits, 0..4).prop_map(AuxVal::BF),
    ]
    .boxed()
}

fn aux_strategy() -> BoxedStrategy<Aux> {
    let tag = prop_oneof![
        6 => prop::sample::select(vec!["NM", "MD", "AS", "XS", "X0", "XA", "OQ", "BC", "MC", "ms", "zz", "Z9"]).prop_map(|s| s.to_string()),
        1 => "[A-Za-z][A-Za-z0-9]",
    ];
    (tag, aux_val_strategy()).prop_map(|(tag, val)| Aux { tag, val }).boxed()
}

fn qual_strategy(w_missing: u32) -> BoxedStrategy<Qual> {
    let present = prop_oneof![
        5 => any::<u32>().prop_map(Qual::Seeded),
        2 => (0u8..=93).prop_map(Qual::Const),
    ];
    if w_missing == 0 {
        present.boxed()
    } else {
        prop_oneof![
            (100 - w_missing) => present,
            w_missing => Just(Qual::Missing),
        ]
        .boxed()
    }
}

fn read_strategy(p: &Params, body: BoxedStrategy<Body>) -> BoxedStrategy<Read> {
    (
        body,
        any::<bool>(),
        prop_oneof![6 => (0u8..=60).prop_map(Some), 1 => Just(Some(254u8)), 1 => Just(Some(0u8)), 1 => Just(None)],
        qual_strategy(p.w_missing_quals),
        prop_oneof![3 => Just(Vec::new()), 5 => prop::collection::vec(aux_strategy(), 0..5)],
        prop_oneof![3 => Just(None), 2 => (0u8..3).prop_map(Some)],
        0u8..6,
        prop_oneof![4 => Just(0u16), 1 => Just(0x2u16), 1 => Just(0x200u16), 1 => Just(0x400u16), 1 => Just(0x602u16)],
    )
        .prop_map(|(body, reverse, mapq, qual, tags, rg, rg_at, extra_flags)| Read { body, reverse, mapq, qual, tags, rg, rg_at, extra_flags })
        .boxed()
}

fn mapped_body(p: &Params) -> BoxedStrategy<Body> {
    aligned_strategy(p).prop_map(Body::Mapped).boxed()
}

fn unmapped_body(p: &Params, placed: bool) -> BoxedStrategy<Body> {
    let bases = if p.w_unmapped_missing_bases == 0 {
        nonempty_bases_strategy(30)
    } else {
        prop_oneof![
            (100 - p.w_unmapped_missing_bases) => nonempty_bases_strategy(30),
            p.w_unmapped_missing_bases => Just(String::new()),
        ]
        .boxed()
    };
    let max_ref_len = p.max_ref_len as u32;
    let place = if placed { (0u8..(p.max_refs.max(1) as u8), 1u32..=max_ref_len, prop::bool::weighted(0.05)).prop_map(Some).boxed() } else { Just(None).boxed() };
    (place, bases).prop_map(|(placed, bases)| Body::Unmapped { placed, bases }).boxed()
}

fn any_body(p: &Params) -> BoxedStrategy<Body> {
    if !p.unmapped {
        return mapped_body(p);
    }
    if p.w_placed_unmapped == 0 {
        prop_oneof![8 => mapped_body(p), 2 => unmapped_body(p, false)].boxed()
    } else {
        prop_oneof![
            80 => mapped_body(p),
            20 => unmapped_body(p, false),
            p.w_placed_unmapped => unmapped_body(p, true),
        ]
        .boxed()
    }
}

fn name_strategy() -> BoxedStrategy<String> {
    prop_oneof![
        5 => (0u32..1000, 0u32..100).prop_map(|(a, b)| format!("r{a:04}:{b}")),
        2 => "[!-?A-~]{1,12}",
        1 => (1000u32..1200).prop_map(|a| format!("HWI-ST{a}_0001:1:1101:{a}:2#ACGT/1")),
    ]
    .boxed()
}

fn template_strategy(p: &Params) -> BoxedStrategy<Template> {
    let p1 = p.clone();
    let w_name = p.w_missing_name;
    let name = move || -> BoxedStrategy<Option<String>> {
        if w_name == 0 {
            name_strategy().prop_map(Some).boxed()
        } else {
            prop_oneof![(100 - w_name) => name_strategy().prop_map(Some), w_name => Just(None)].boxed()
        }
    };
    let single = (name(), read_strategy(p, any_body(p)), prop::bool::weighted(0.05)).prop_map(|(name, read, secondary)| Template::Single { name, read, secondary });
    // a pair: segment 2 is placed near segment 1 most of the time
    let extra = {
        let sec = read_strategy(p, mapped_body(p)).prop_map(|r| Some((ExtraKind::Secondary, r)));
        if p.w_supplementary == 0 {
            prop_oneof![92 => Just(None), 8 => sec].boxed()
        } else {
            let sup = read_strategy(p, mapped_body(p)).prop_map(|r| Some((ExtraKind::Supplementary, r)));
            prop_oneof![90 => Just(None), 6 => sec, p.w_supplementary => sup].boxed()
        }
    };
    let w_chim = p.w_chimeric;
    let pair = (name(), read_strategy(p, any_body(p)), read_strategy(p, any_body(p)), prop::bool::weighted(0.1), extra, 0u32..80, weighted_bool(w_chim), any::<bool>()).prop_map(
        move |(name, r1, mut r2, drop_r2, extra, dist, chimeric, mate_follows_placement)| {
            // keep the mate close to segment 1 and on its reference unless chimeric
            if let (Body::Mapped(a1), Body::Mapped(a2)) = (&r1.body, &mut r2.body) {
                if !chimeric {
                    a2.ref_idx = a1.ref_idx;
                    a2.start = a1.start.saturating_add(dist);
                }
            }
            // an unplaced unmapped mate of a mapped read is conventionally placed at the mate's
            // position when placed unmapped reads are allowed
            if p1.w_placed_unmapped > 0 && mate_follows_placement {
                if let (Body::Mapped(a1), Body::Unmapped { placed, .. }) = (&r1.body, &mut r2.body) {
                    if let Some((_, _, oh)) = *placed {
                        *placed = Some((a1.ref_idx, a1.start, oh));
                    }
                }
            }
            Template::Pair { name, r1, r2, drop_r2, extra }
        },
    );
    prop_oneof![5 => single, 6 => pair].boxed()
}

pub fn enc_strategy(allow_nametok: bool, allow_fqz: bool) -> BoxedStrategy<Enc> {
    enc_strategy_w(allow_nametok, allow_fqz, 12)
}

/// `w_aac` = weight of the adaptive arithmetic coder (the core data block is always empty in
/// noodles' writer and its AAC encoder asserts a non-empty input, so the core encoder draws AAC
/// rarely).
pub fn enc_strategy_w(allow_nametok: bool, allow_fqz: bool, w_aac: u32) -> BoxedStrategy<Enc> {
    let nx16 = prop_oneof![
        3 => prop::sample::select(vec![0x00u8, 0x01, 0x04, 0x05, 0x40, 0x41, 0x80, 0x81, 0xC0, 0xC1, 0x08, 0x09, 0x20]),
        2 => any::<u8>().prop_map(|f| f & !0x02),
    ];
    let aac = prop_oneof![
        3 => prop::sample::select(vec![0x00u8, 0x01, 0x04, 0x40, 0x41, 0x80, 0x81, 0xC0, 0xC1, 0x08, 0x09, 0x20]),
        2 => any::<u8>().prop_map(|f| f & !0x02),
    ];
    let mut alts: Vec<(u32, BoxedStrategy<Enc>)> = vec![
        (20, Just(Enc::None).boxed()),
        (16, (0u8..=9).prop_map(Enc::Gzip).boxed()),
        (6, (1u8..=9).prop_map(Enc::Bzip2).boxed()),
        (6, (0u8..=3).prop_map(Enc::Lzma).boxed()),
        (12, (0u8..=1).prop_map(Enc::Rans4x8).boxed()),
        (14, nx16.prop_map(Enc::RansNx16).boxed()),
        (w_aac, aac.prop_map(Enc::Aac).boxed()),
    ];
    if allow_nametok {
        alts.push((40, Just(Enc::NameTok).boxed()));
    }
    if allow_fqz {
        alts.push((40, Just(Enc::Fqz).boxed()));
    }
    prop::strategy::Union::new_weighted(alts).boxed()
}

fn basic_enc_strategy() -> BoxedStrategy<Enc> {
    prop_oneof![
        4 => Just(Enc::None),
        4 => (0u8..=9).prop_map(Enc::Gzip),
        1 => (1u8..=9).prop_map(Enc::Bzip2),
        1 => (0u8..=3).prop_map(Enc::Lzma),
    ]
    .boxed()
}

/// Where one override of a sparse map goes.
#[derive(Clone, Debug)]
enum Slot {
    Core,
    Default,
    Series(usize),
    TagRule,
}

/// Three families: *basic* (none/gzip/bzip2/lzma everywhere), *sparse* (basic plus one to three
/// slots with a rANS / arithmetic / tokenizer / fqzcomp encoder) and *dense* (every slot drawn from
/// the whole encoder set). The families exist because the 3.1 codecs of the pinned tree fail on
/// many small inputs: the basic family keeps the container- and record-level logic under test
/// whatever the codecs do.
pub fn enc_map_strategy() -> BoxedStrategy<EncMap> {
    let basic = (basic_enc_strategy(), basic_enc_strategy(), basic_enc_strategy(), prop::collection::vec((0usize..N_SERIES, basic_enc_strategy()), 0..6), prop::collection::vec(basic_enc_strategy(), 0..3))
        .prop_map(|(core, default, sd, overrides, tag_rule)| {
            let mut series = vec![sd; N_SERIES];
            for (i, e) in overrides {
                series[i] = e;
            }
            EncMap { core, default, series, tag_rule }
        })
        .boxed();
    let slot = prop_oneof![
        1 => Just(Slot::Core),
        2 => Just(Slot::Default),
        10 => (0usize..N_SERIES).prop_map(Slot::Series),
        2 => Just(Slot::Series(SERIES_RN)),
        2 => Just(Slot::Series(SERIES_QS)),
        2 => Just(Slot::TagRule),
    ];
    let exotic = |rn: bool, qs: bool| -> BoxedStrategy<Enc> {
        let mut alts: Vec<(u32, BoxedStrategy<Enc>)> = vec![
            (3, (0u8..=1).prop_map(Enc::Rans4x8).boxed()),
            (3, enc_strategy(false, false).prop_filter("3.1 codec", |e| matches!(e, Enc::RansNx16(_))).boxed()),
            (3, enc_strategy(false, false).prop_filter("3.1 codec", |e| matches!(e, Enc::Aac(_))).boxed()),
        ];
        if rn {
            alts.push((6, Just(Enc::NameTok).boxed()));
        }
        if qs {
            alts.push((6, Just(Enc::Fqz).boxed()));
        }
        prop::strategy::Union::new_weighted(alts).boxed()
    };
    let sparse = (basic.clone(), prop::collection::vec((slot, exotic(false, false), exotic(true, false), exotic(false, true)), 1..4))
        .prop_map(|(mut m, ov)| {
            for (slot, e, e_rn, e_qs) in ov {
                match slot {
                    Slot::Core => m.core = e,
                    Slot::Default => m.default = e,
                    Slot::Series(i) if i == SERIES_RN => m.series[i] = e_rn,
                    Slot::Series(i) if i == SERIES_QS => m.series[i] = e_qs,
                    Slot::Series(i) => m.series[i] = e,
                    Slot::TagRule => m.tag_rule = vec![e],
                }
            }
            m
        })
        .boxed();
    let overrides = prop::collection::vec((0usize..N_SERIES, enc_strategy(false, false)), 0..8);
    let dense = (
        enc_strategy_w(false, false, 2),
        enc_strategy(false, false),
        enc_strategy(false, false),
        overrides,
        prop_oneof![2 => Just(None), 1 => enc_strategy(true, false).prop_map(Some)],
        prop_oneof![2 => Just(None), 1 => enc_strategy(false, true).prop_map(Some)],
        prop_oneof![1 => Just(Vec::new()), 2 => prop::collection::vec(enc_strategy(false, false), 1..4)],
    )
        .prop_map(|(core, default, series_default, overrides, rn, qs, tag_rule)| {
            let mut series = vec![series_default; N_SERIES];
            for (i, e) in overrides {
                series[i] = e;
            }
            if let Some(e) = rn {
                series[SERIES_RN] = e;
            }
            if let Some(e) = qs {
                series[SERIES_QS] = e;
            }
            EncMap { core, default, series, tag_rule }
        })
        .boxed();
    prop_oneof![9 => basic, 7 => sparse, 4 => dense].boxed()
}

pub fn opts_strategy(p: &Params) -> BoxedStrategy<WriterOpts> {
    let enc = if p.encoders { prop_oneof![1 => Just(None), 5 => enc_map_strategy().prop_map(Some)].boxed() } else { Just(None).boxed() };
    (prop::bool::weighted(0.7), prop::bool::weighted(0.7), prop::sample::select(vec![1u16, 2, 3, 3, 7, 7, 0]), enc)
        .prop_map(|(preserve_read_names, ap_delta, records_per_slice, enc)| WriterOpts { preserve_read_names, ap_delta, records_per_slice, enc })
        .boxed()
}

pub fn doc_strategy(p: Params) -> BoxedStrategy<CramDoc> {
    let refs = prop::collection::vec(ref_seq_strategy(p.max_ref_len), 1..=p.max_refs.max(1)).prop_map(|seqs| seqs.into_iter().enumerate().map(|(i, seq)| RefSeq { name: format!("sq{i}"), seq }).collect::<Vec<_>>());
    let order = if p.sorted_only {
        Just(Order::Sorted).boxed()
    } else {
        let w_rf = p.w_right_first;
        prop_oneof![
            5 => Just(Order::Sorted),
            1 => weighted_bool(w_rf).prop_map(|rf| Order::Listed { left_first: !rf }),
            3 => (any::<u32>(), weighted_bool(w_rf)).prop_map(|(seed, rf)| Order::Shuffled { seed, left_first: !rf }),
        ]
        .boxed()
    };
    let templates = prop_oneof![
        1 => prop::collection::vec(template_strategy(&p), 0..3),
        6 => prop::collection::vec(template_strategy(&p), 1..=p.max_templates.max(1)),
    ];
    (
        refs,
        prop_oneof![Just(None), Just(Some("coordinate".to_string())), Just(Some("unsorted".to_string()))],
        any::<bool>(),
        prop_oneof![Just(vec![]), Just(vec!["rg0".to_string()]), Just(vec!["rg0".to_string(), "grp-1".to_string(), "g2".to_string()])],
        prop_oneof![3 => Just(vec![]), 1 => Just(vec!["a comment".to_string()])],
        templates,
        order,
        opts_strategy(&p),
    )
        .prop_map(|(refs, sort_order_tag, m5_in_header, read_groups, comments, templates, order, opts)| CramDoc { refs, sort_order_tag, m5_in_header, read_groups, comments, templates, order, opts })
        .boxed()
}
