//! G-payload: byte strings described compactly (content class × length × seed) so that cases stay
//! small in replay files and shrink by length.

use proptest::prelude::*;
use serde::{Deserialize, Serialize};

#[derive(Clone, Debug, Serialize, Deserialize, PartialEq)]
pub struct Payload {
    /// 0 zeros, 1 one symbol, 2 low-entropy text, 3 xorshift noise (incompressible),
    /// 4 all 256 symbols cycling, 5 long runs of random symbols
    pub class: u8,
    pub len: u32,
    pub seed: u32,
}

pub const CLASS_NAMES: [&str; 6] = ["zeros", "one-symbol", "text", "noise", "all-symbols", "runs"];

pub struct XorShift(pub u64);

impl XorShift {
    pub fn new(seed: u64) -> Self {
        XorShift(seed.wrapping_mul(0x9E3779B97F4A7C15) | 1)
    }
    pub fn next(&mut self) -> u64 {
        let mut x = self.0;
        x ^= x << 13;
        x ^= x >> 7;
        x ^= x << 17;
        self.0 = x;
        x
    }
}

impl Payload {
    pub fn expand(&self) -> Vec<u8> {
        let n = self.len as usize;
        let mut v = Vec::with_capacity(n);
        let mut r = XorShift::new(self.seed as u64 + 1);
        match self.class % 6 {
            0 => v.resize(n, 0),
            1 => v.resize(n, (self.seed & 0xff) as u8),
            2 => {
                const WORDS: [&[u8]; 8] = [b"chr1\t", b"ACGT", b"noodles ", b"0123", b"\n", b"PASS\t", b"GT:DP ", b"NNNN"];
                while v.len() < n {
                    let w = WORDS[(r.next() % 8) as usize];
                    v.extend_from_slice(w);
                }
                v.truncate(n);
            }
            3 => {
                while v.len() < n {
                    v.extend_from_slice(&r.next().to_le_bytes());
                }
                v.truncate(n);
            }
            4 => {
                let start = (self.seed & 0xff) as usize;
                for i in 0..n {
                    v.push(((start + i) & 0xff) as u8);
                }
            }
            _ => {
                while v.len() < n {
                    let x = r.next();
                    let sym = (x & 0xff) as u8;
                    let run = 1 + ((x >> 8) % 700) as usize;
                    for _ in 0..run {
                        v.push(sym);
                    }
                }
                v.truncate(n);
            }
        }
        v
    }
    pub fn class_name(&self) -> &'static str {
        CLASS_NAMES[(self.class % 6) as usize]
    }
}

/// Lengths dense around BGZF block-size boundaries, else log-uniform up to `max`.
pub fn len_strategy(max: u32) -> BoxedStrategy<u32> {
    let boundaries: Vec<u32> = vec![
        0, 1, 2, 3, 4, 31, 32, 33, 255, 256, 257, 65279, 65280, 65281, 65494, 65495, 65496, 65535, 65536, 65537, 130989, 130990, 130991, 131071, 131072, 131073, 196485, 261980,
    ]
    .into_iter()
    .filter(|b| *b <= max)
    .collect();
    let small = 0u32..=(max.min(300));
    let mid = 0u32..=(max.min(70_000));
    let log = (0u32..=31, any::<u32>()).prop_map(move |(bits, x)| {
        let m = if bits >= 31 { u32::MAX } else { (1u32 << (bits + 1)) - 1 };
        (x & m).min(max)
    });
    prop_oneof![
        3 => proptest::sample::select(boundaries),
        2 => small,
        2 => mid,
        2 => log,
    ]
    .boxed()
}

pub fn payload(max: u32) -> BoxedStrategy<Payload> {
    (0u8..6, len_strategy(max), any::<u32>()).prop_map(|(class, len, seed)| Payload { class, len, seed }).boxed()
}
