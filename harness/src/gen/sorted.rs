//! G-sorted: coordinate-sorted record sets built *from spans*, with a block layout script, and the
//! file builders (BAM, bgzipped VCF, BCF) that realise them with the minimal fields needed.
//!
//! The generator is geometry aware: starts are dense around the bin edges of every level of the
//! chosen `(min_shift, depth)`, spans are short / window-crossing / very long, and the shape
//! "earlier long record, later short record inside one leaf window" is emitted explicitly.
//! Everything is plain data (absolute one-based coordinates) so that replay files are readable.

use crate::oracle::{binning, spans};
use noodles_bam as bam;
use noodles_bcf as bcf;
use noodles_bgzf as bgzf;
use noodles_core::Position;
use noodles_sam as sam;
use noodles_vcf as vcf;
use proptest::prelude::*;
use serde::{Deserialize, Serialize};
use std::io::Write;

#[derive(Clone, Copy, Debug, Serialize, Deserialize, PartialEq, Eq)]
pub struct Geometry {
    pub min_shift: u8,
    pub depth: u8,
}

impl Geometry {
    pub const DEFAULT: Geometry = Geometry { min_shift: 14, depth: 5 };
    /// largest position a query may name: 2^(min_shift+3·depth) − 1 (also capped to BAM's 2^31 − 1)
    pub fn max_pos(self) -> u64 {
        (binning::n_positions(self.min_shift as u32, self.depth as u32) - 1).min((1u64 << 31) - 1)
    }
    pub fn leaf(self) -> u64 {
        1u64 << self.min_shift
    }
}

/// One record, described by its reference span.
#[derive(Clone, Debug, Serialize, Deserialize, PartialEq)]
pub struct RecSpec {
    /// reference index
    pub rid: u8,
    /// one-based start
    pub start: u64,
    /// reference span length (≥ 1)
    pub len: u64,
    /// realisation selector (see `bam_cigar` / `vcf_fields`)
    pub shape: u8,
    /// BAM only: placed but flagged unmapped, no CIGAR (span 1 whatever `len` says)
    pub unmapped: bool,
    /// flush the BGZF writer after this record (block boundary)
    pub flush: bool,
}

#[derive(Clone, Debug, Serialize, Deserialize, PartialEq)]
pub struct SortedSet {
    pub geom: Geometry,
    /// number of references in the header (records only use `rid < n_ref`; some stay empty)
    pub n_ref: u8,
    /// in generation order; `sorted()` gives file order
    pub recs: Vec<RecSpec>,
    /// BAM only: unplaced unmapped records at the end of the file
    pub unplaced: u8,
    pub flush_after_header: bool,
}

#[derive(Clone, Debug, Serialize, Deserialize, PartialEq)]
pub enum RegionSpec {
    /// absolute; `None` = unbounded
    Abs { rid: u8, start: Option<u64>, end: Option<u64> },
    /// relative to the span of the `rec`-th record in file order (monotone selector):
    /// `[edge + d0, edge + d0 + width]` with `edge` = span start or end
    Rel { rec: u16, at_end: bool, d0: i32, width: u64, open_start: bool, open_end: bool },
    /// an inverted ("empty") interval inside or next to the span of the `rec`-th record:
    /// start = span start + d0, end = start − back (back ≥ 1); only weakly asserted
    Inv { rec: u16, d0: i32, back: u64 },
}

/// A region resolved against a record set.
#[derive(Clone, Copy, Debug, PartialEq, Eq)]
pub struct Region {
    pub rid: usize,
    pub start: Option<u64>,
    pub end: Option<u64>,
}

impl Region {
    pub fn is_empty_interval(&self) -> bool {
        matches!((self.start, self.end), (Some(s), Some(e)) if s > e)
    }
}

/// Ground truth for one record in file order.
#[derive(Clone, Debug, PartialEq)]
pub struct Truth {
    /// identity: index in file order (read names / IDs are derived from it)
    pub idx: usize,
    pub rid: Option<usize>,
    /// one-based closed span from `oracle::spans`
    pub span: Option<(u64, u64)>,
    pub flagged_unmapped: bool,
}

pub fn ident(idx: usize) -> String {
    format!("r{idx:06}")
}

impl SortedSet {
    /// Records in file order: stable sort by (reference, start).
    pub fn sorted(&self) -> Vec<RecSpec> {
        let maxpos = self.geom.max_pos();
        let mut v: Vec<RecSpec> = self
            .recs
            .iter()
            .filter(|r| r.rid < self.n_ref && r.start >= 1 && r.start <= maxpos)
            .cloned()
            .map(|mut r| {
                r.len = r.len.clamp(1, maxpos - r.start + 1);
                r
            })
            .collect();
        v.sort_by_key(|r| (r.rid, r.start));
        v
    }
}

impl RegionSpec {
    pub fn resolve(&self, set: &SortedSet, sorted: &[RecSpec], spans: &[(u64, u64)]) -> Region {
        let maxpos = set.geom.max_pos();
        let n_ref = set.n_ref.max(1) as usize;
        match *self {
            RegionSpec::Abs { rid, start, end } => Region { rid: (rid as usize) % n_ref, start: start.map(|s| s.clamp(1, maxpos)), end: end.map(|e| e.clamp(1, maxpos)) },
            RegionSpec::Rel { rec, at_end, d0, width, open_start, open_end } => {
                if sorted.is_empty() {
                    return Region { rid: 0, start: None, end: None };
                }
                let i = crate::engine::pick_idx(rec, sorted.len());
                let (s, e) = spans[i];
                let edge = if at_end { e } else { s } as i64;
                let a = (edge + d0 as i64).clamp(1, maxpos as i64) as u64;
                let b = a.saturating_add(width).min(maxpos);
                Region { rid: sorted[i].rid as usize, start: if open_start { None } else { Some(a) }, end: if open_end { None } else { Some(b) } }
            }
            RegionSpec::Inv { rec, d0, back } => {
                if sorted.is_empty() {
                    return Region { rid: 0, start: Some(2.min(maxpos)), end: Some(1) };
                }
                let i = crate::engine::pick_idx(rec, sorted.len());
                let (s, _) = spans[i];
                let a = (s as i64 + d0 as i64).clamp(2, maxpos.max(2) as i64) as u64;
                let b = a.saturating_sub(back.max(1)).max(1);
                Region { rid: sorted[i].rid as usize, start: Some(a), end: Some(b.min(a - 1).max(1)) }
            }
        }
    }
}

// ------------------------------------------------------------------------------------------------
// strategies
// ------------------------------------------------------------------------------------------------

pub const GEOMETRIES: [Geometry; 6] = [
    Geometry { min_shift: 14, depth: 5 },
    Geometry { min_shift: 14, depth: 6 },
    Geometry { min_shift: 12, depth: 5 },
    Geometry { min_shift: 10, depth: 4 },
    Geometry { min_shift: 16, depth: 4 },
    Geometry { min_shift: 15, depth: 3 },
];

/// A zero-based bin edge of some level, as a one-based position just after it.
fn anchor(g: Geometry) -> BoxedStrategy<u64> {
    let (ms, d) = (g.min_shift as u32, g.depth as u32);
    let maxpos = g.max_pos();
    (0..=d, any::<u32>())
        .prop_map(move |(lvl, k)| {
            let w = ms + 3 * lvl;
            let nbins = (maxpos >> w).max(1);
            // low multiples are favoured (files stay small in coordinate terms), any multiple possible
            let kk = if k & 3 != 0 { (k as u64 >> 2) % nbins.min(9) } else { ((k as u64) * nbins) >> 32 };
            ((kk << w) + 1).clamp(1, maxpos)
        })
        .boxed()
}

fn span_len(g: Geometry) -> BoxedStrategy<u64> {
    let leaf = g.leaf();
    let d = g.depth as u32;
    prop_oneof![
        5 => 1u64..200,
        2 => (leaf / 2)..(leaf * 2 + 2),                 // window crossing
        2 => (0..=d, 1u64..20).prop_map(move |(lvl, k)| (leaf << (3 * lvl)) / 8 * k + 1), // fractions/multiples of a level's bin
        1 => (0..=d).prop_map(move |lvl| (leaf << (3 * lvl)) + 1),
        1 => 1u64..(1u64 << 27),                          // very long
        1 => Just(1u64),
    ]
    .boxed()
}

fn rec_near(g: Geometry, anchors: Vec<u64>) -> BoxedStrategy<RecSpec> {
    let leaf = g.leaf() as i64;
    let maxpos = g.max_pos();
    let off = prop_oneof![
        4 => -6i64..=6,
        3 => (-leaf)..=leaf,
        2 => (-3 * leaf)..=(3 * leaf),
        1 => (-70 * leaf)..=(70 * leaf),
    ];
    (any::<u16>(), off, span_len(g), 0u8..4, any::<u8>(), prop::bool::weighted(0.06), prop::bool::weighted(0.3))
        .prop_map(move |(a, off, len, rid, shape, unmapped, flush)| {
            let base = anchors[crate::engine::pick_idx(a, anchors.len())] as i64;
            let start = (base + off).clamp(1, maxpos as i64) as u64;
            RecSpec { rid, start, len: len.min(maxpos - start + 1).max(1), shape, unmapped, flush }
        })
        .boxed()
}

/// The explicit shape: a long record starting in a leaf window and leaving it, then short records
/// that start later inside the same leaf window.
fn long_before_short(g: Geometry, anchors: Vec<u64>) -> BoxedStrategy<Vec<RecSpec>> {
    let leaf = g.leaf();
    let maxpos = g.max_pos();
    (any::<u16>(), 0u64..(leaf - 2), span_len(g), proptest::collection::vec((1u64..leaf, 1u64..60, any::<u8>(), prop::bool::weighted(0.4)), 1..4), 0u8..4, any::<u8>(), prop::bool::weighted(0.5))
        .prop_map(move |(a, into, extra, shorts, rid, shape, flush)| {
            let base = anchors[crate::engine::pick_idx(a, anchors.len())];
            // window of the anchor: [w0, w0 + leaf)
            let w0 = ((base - 1) / leaf) * leaf + 1;
            let start = (w0 + into).min(maxpos);
            let window_end = (w0 + leaf - 1).min(maxpos);
            // long: reaches beyond the window end
            let len = (window_end + 1 - start + extra).min(maxpos - start + 1).max(1);
            let mut out = vec![RecSpec { rid, start, len, shape, unmapped: false, flush }];
            for (d, l, sh, fl) in shorts {
                let s = (start + d).min(window_end).max(start);
                let l = l.min(window_end - s + 1).max(1);
                out.push(RecSpec { rid, start: s, len: l, shape: sh, unmapped: false, flush: fl });
            }
            out
        })
        .boxed()
}

/// `max_recs`: upper bound of the free records (the explicit shapes come on top).
pub fn sorted_set(geoms: &'static [Geometry], max_recs: usize) -> BoxedStrategy<SortedSet> {
    proptest::sample::select(geoms)
        .prop_flat_map(move |g| (Just(g), proptest::collection::vec(anchor(g), 1..4)))
        .prop_flat_map(move |(g, anchors)| {
            let free = proptest::collection::vec(rec_near(g, anchors.clone()), 0..=max_recs);
            let shapes = proptest::collection::vec(long_before_short(g, anchors.clone()), 0..3);
            (Just(g), 1u8..=4, free, prop_oneof![3 => Just(Vec::new()).boxed(), 2 => shapes.boxed()], prop_oneof![2 => Just(0u8), 1 => 1u8..5], any::<bool>())
        })
        .prop_map(|(geom, n_ref, free, shapes, unplaced, flush_after_header)| {
            // the shapes go first so that, for equal starts, the long record precedes the short one
            let mut recs: Vec<RecSpec> = shapes.into_iter().flatten().collect();
            recs.extend(free);
            SortedSet { geom, n_ref, recs, unplaced, flush_after_header }
        })
        .boxed()
}

pub fn region_specs(g: Geometry, n: usize) -> BoxedStrategy<Vec<RegionSpec>> {
    let maxpos = g.max_pos();
    let leaf = g.leaf();
    let d = g.depth as u32;
    let ms = g.min_shift as u32;
    let width = prop_oneof![4 => 0u64..4, 2 => 0u64..300, 2 => (leaf - 2)..(leaf + 3), 1 => 0u64..(leaf * 20), 1 => 0u64..maxpos];
    let rel = (any::<u16>(), any::<bool>(), prop_oneof![3 => -3i32..=3, 1 => -300i32..=300, 1 => (-(leaf as i32) - 2)..=(leaf as i32 + 2)], width, prop::bool::weighted(0.08), prop::bool::weighted(0.08))
        .prop_map(|(rec, at_end, d0, width, open_start, open_end)| RegionSpec::Rel { rec, at_end, d0, width, open_start, open_end });
    // bin aligned: [k·2^w + 1, (k+1)·2^w]
    let aligned = (0u8..4, 0..=d, any::<u32>()).prop_map(move |(rid, lvl, k)| {
        let w = ms + 3 * lvl;
        let nbins = (maxpos >> w).max(1);
        let kk = if k & 1 == 0 { (k as u64 >> 1) % nbins.min(12) } else { ((k as u64) * nbins) >> 32 };
        RegionSpec::Abs { rid, start: Some(((kk << w) + 1).min(maxpos)), end: Some(((kk + 1) << w).min(maxpos)) }
    });
    let whole = (0u8..4).prop_map(|rid| RegionSpec::Abs { rid, start: None, end: None });
    let anyabs = (0u8..4, proptest::option::weighted(0.9, 1u64..=maxpos), proptest::option::weighted(0.9, 1u64..=maxpos)).prop_map(|(rid, a, b)| match (a, b) {
        (Some(x), Some(y)) => RegionSpec::Abs { rid, start: Some(x.min(y)), end: Some(x.max(y)) },
        (a, b) => RegionSpec::Abs { rid, start: a, end: b },
    });
    let beyond = (0u8..4, 0u64..1000).prop_map(move |(rid, k)| RegionSpec::Abs { rid, start: Some(maxpos - k.min(maxpos - 1)), end: None });
    // start > end: kept as a (weakly asserted) class
    let empty = (any::<u16>(), 0i32..60, prop_oneof![3 => 1u64..40, 1 => 1u64..100_000]).prop_map(|(rec, d0, back)| RegionSpec::Inv { rec, d0, back });
    let one = prop_oneof![10 => rel, 3 => aligned, 1 => whole, 2 => anyabs, 1 => beyond, 1 => empty];
    proptest::collection::vec(one, 1..=n).boxed()
}

// ------------------------------------------------------------------------------------------------
// realisation: BAM
// ------------------------------------------------------------------------------------------------

/// CIGAR for a reference span of `len` (M/N/D ops carry the span; I/S add query-only bases).
pub fn bam_cigar(len: u64, shape: u8) -> Vec<(spans::Op, u64)> {
    use spans::Op::*;
    let len = len.max(1);
    let v: Vec<(spans::Op, u64)> = match shape % 8 {
        // plain match when short, otherwise split by a skip
        0 | 1 => {
            if len <= 12 {
                vec![(M, len)]
            } else {
                let a = 1 + (shape as u64 % 5);
                let b = 1 + (shape as u64 / 8 % 5);
                vec![(M, a), (N, len - a - b), (M, b)]
            }
        }
        2 => {
            if len <= 12 {
                vec![(Eq, len)]
            } else {
                vec![(M, 3), (D, len - 5), (M, 2)]
            }
        }
        3 => {
            if len <= 6 {
                vec![(S, 2), (M, len), (S, 1)]
            } else {
                vec![(S, 2), (M, 2), (I, 1), (M, 1), (N, len - 5), (X, 1), (Eq, 1), (H, 3)]
            }
        }
        4 => {
            if len <= 4 {
                vec![(X, len)]
            } else {
                vec![(H, 1), (M, 1), (N, (len - 2) / 2), (D, (len - 2) - (len - 2) / 2), (M, 1)]
            }
        }
        5 => {
            if len <= 12 {
                vec![(M, len)]
            } else {
                vec![(M, 2), (P, 1), (N, len - 4), (M, 2), (S, 4)]
            }
        }
        6 => {
            if len <= 3 {
                vec![(D, len)]
            } else {
                vec![(M, 1), (D, len - 2), (M, 1)]
            }
        }
        _ => {
            if len == 1 {
                // zero reference span: only query-consuming operations (treated as one base)
                vec![(S, 3), (I, 2)]
            } else {
                vec![(N, len - 1), (M, 1)]
            }
        }
    };
    // a BAM CIGAR operation length has 28 bits: split longer operations into equal-kind pieces
    const MAX_OP: u64 = (1 << 28) - 1;
    let mut out = Vec::with_capacity(v.len());
    for (k, mut n) in v {
        while n > MAX_OP {
            out.push((k, MAX_OP));
            n -= MAX_OP;
        }
        out.push((k, n));
    }
    out
}

fn bam_kind(op: spans::Op) -> sam::alignment::record::cigar::op::Kind {
    use sam::alignment::record::cigar::op::Kind;
    match op {
        spans::Op::M => Kind::Match,
        spans::Op::I => Kind::Insertion,
        spans::Op::D => Kind::Deletion,
        spans::Op::N => Kind::Skip,
        spans::Op::S => Kind::SoftClip,
        spans::Op::H => Kind::HardClip,
        spans::Op::P => Kind::Pad,
        spans::Op::Eq => Kind::SequenceMatch,
        spans::Op::X => Kind::SequenceMismatch,
    }
}

/// Ground truth of a set realised as BAM.
pub fn bam_truth(set: &SortedSet) -> (Vec<RecSpec>, Vec<Truth>) {
    let sorted = set.sorted();
    let mut t: Vec<Truth> = sorted
        .iter()
        .enumerate()
        .map(|(idx, r)| {
            let span = if r.unmapped { spans::bam_span(r.start, &[]) } else { spans::bam_span(r.start, &bam_cigar(r.len, r.shape)) };
            Truth { idx, rid: Some(r.rid as usize), span: Some(span), flagged_unmapped: r.unmapped }
        })
        .collect();
    for k in 0..set.unplaced as usize {
        t.push(Truth { idx: sorted.len() + k, rid: None, span: None, flagged_unmapped: true });
    }
    (sorted, t)
}

pub fn sam_header(set: &SortedSet) -> Result<sam::Header, String> {
    use sam::header::record::value::{
        Map,
        map::{self, ReferenceSequence, header::{sort_order::COORDINATE, tag::SORT_ORDER}},
    };
    let hd = Map::<map::Header>::builder().insert(SORT_ORDER, COORDINATE).build().map_err(|e| format!("@HD: {e}"))?;
    let len = std::num::NonZero::new(((1u64 << 31) - 1) as usize).ok_or("len")?;
    let refs: sam::header::ReferenceSequences = (0..set.n_ref).map(|i| (bstr::BString::from(format!("sq{i}")), Map::<ReferenceSequence>::new(len))).collect();
    Ok(sam::Header::builder().set_header(hd).set_reference_sequences(refs).build())
}

/// Write the set as BAM with the block layout script. Returns the file bytes.
pub fn write_bam(set: &SortedSet) -> Result<Vec<u8>, String> {
    use sam::alignment::io::Write as _;
    use sam::alignment::record::{Flags, MappingQuality, cigar::Op};
    use sam::alignment::record_buf::{Cigar, QualityScores, Sequence};
    let header = sam_header(set)?;
    let (sorted, _) = bam_truth(set);
    let mut w = bam::io::Writer::new(Vec::new());
    w.write_header(&header).map_err(|e| format!("write_header: {e}"))?;
    if set.flush_after_header {
        w.get_mut().flush().map_err(|e| format!("flush: {e}"))?;
    }
    for (idx, r) in sorted.iter().enumerate() {
        let mut b = sam::alignment::RecordBuf::builder()
            .set_name(ident(idx))
            .set_reference_sequence_id(r.rid as usize)
            .set_alignment_start(Position::new(r.start as usize).ok_or("position 0")?);
        if r.unmapped {
            b = b.set_flags(Flags::UNMAPPED);
        } else {
            let ops = bam_cigar(r.len, r.shape);
            let cigar: Cigar = ops.iter().map(|&(k, n)| Op::new(bam_kind(k), n as usize)).collect();
            let qlen = spans::cigar_query_len(&ops) as usize;
            let mut flags = Flags::empty();
            if r.shape & 0x10 != 0 {
                flags |= Flags::REVERSE_COMPLEMENTED;
            }
            if r.shape & 0x20 != 0 {
                flags |= Flags::SECONDARY;
            }
            b = b.set_flags(flags).set_cigar(cigar);
            if let Some(mq) = MappingQuality::new(r.shape.wrapping_mul(37)) {
                b = b.set_mapping_quality(mq);
            }
            // sequence + qualities consistent with the CIGAR, or both missing
            if r.shape & 0x40 != 0 && qlen > 0 {
                let bases: Vec<u8> = (0..qlen).map(|i| b"ACGT"[(i + idx) % 4]).collect();
                b = b.set_sequence(Sequence::from(bases));
                if r.shape & 0x80 != 0 {
                    b = b.set_quality_scores(QualityScores::from((0..qlen).map(|i| ((i * 7 + idx) % 42) as u8).collect::<Vec<u8>>()));
                }
            }
        }
        let rec = b.build();
        w.write_alignment_record(&header, &rec).map_err(|e| format!("write_alignment_record #{idx} ({r:?}): {e}"))?;
        if r.flush {
            w.get_mut().flush().map_err(|e| format!("flush: {e}"))?;
        }
    }
    for k in 0..set.unplaced as usize {
        let rec = sam::alignment::RecordBuf::builder().set_name(ident(sorted.len() + k)).set_flags(Flags::UNMAPPED).build();
        w.write_alignment_record(&header, &rec).map_err(|e| format!("write unplaced: {e}"))?;
        if k % 2 == 0 && set.flush_after_header {
            w.get_mut().flush().map_err(|e| format!("flush: {e}"))?;
        }
    }
    w.try_finish().map_err(|e| format!("try_finish: {e}"))?;
    Ok(w.into_inner().into_inner())
}

// ------------------------------------------------------------------------------------------------
// realisation: VCF / BCF
// ------------------------------------------------------------------------------------------------

#[derive(Clone, Copy, Debug, Serialize, Deserialize, PartialEq, Eq)]
pub enum VcfVersion {
    V42,
    V43,
    V44,
    /// END is no longer the span source; only the weaker relation is asserted
    V45,
}

/// REF length used for a record: the span itself when short (or moderately long with shape bit),
/// otherwise 1 with INFO END (pre-4.5) / SVLEN (4.5).
pub fn vcf_fields(r: &RecSpec) -> (u64, Option<u64>) {
    let by_ref = r.len <= 40 || (r.shape & 1 == 0 && r.len <= 3000) || (r.shape & 7 == 0 && r.len <= 40_000);
    if by_ref { (r.len, None) } else { (1 + (r.shape as u64 >> 6), Some(r.start + r.len - 1)) }
}

pub fn vcf_truth(set: &SortedSet) -> (Vec<RecSpec>, Vec<Truth>) {
    let sorted = set.sorted();
    let t = sorted
        .iter()
        .enumerate()
        .map(|(idx, r)| {
            let (ref_len, end) = vcf_fields(r);
            Truth { idx, rid: Some(r.rid as usize), span: Some(spans::vcf_span(r.start, ref_len, end)), flagged_unmapped: false }
        })
        .collect();
    (sorted, t)
}

pub fn vcf_header(set: &SortedSet, version: VcfVersion) -> vcf::Header {
    use vcf::header::{FileFormat, record::value::{Map, map::{AlternativeAllele, Contig, Filter, Info, info::{Number, Type}}}};
    use vcf::variant::record::info::field::key;
    let ff = match version {
        VcfVersion::V42 => FileFormat::new(4, 2),
        VcfVersion::V43 => FileFormat::new(4, 3),
        VcfVersion::V44 => FileFormat::new(4, 4),
        VcfVersion::V45 => FileFormat::new(4, 5),
    };
    let mut b = vcf::Header::builder()
        .set_file_format(ff)
        .add_filter("PASS", Map::<Filter>::pass())
        // explicit definitions (the per-version tables of noodles do not cover 4.2)
        .add_info(key::END_POSITION, Map::<Info>::new(Number::Count(1), Type::Integer, "End position"))
        .add_alternative_allele("DEL", Map::<AlternativeAllele>::new("Deletion"));
    if version == VcfVersion::V45 {
        // (4.3 reserves SVLEN as Number=.; the key is only used by the 4.5 files)
        b = b.add_info(key::SV_LENGTHS, Map::<Info>::new(Number::AlternateBases, Type::Integer, "Length of structural variant"));
    }
    for i in 0..set.n_ref {
        b = b.add_contig(format!("sq{i}"), Map::<Contig>::new());
    }
    b.build()
}

pub fn vcf_records(set: &SortedSet, version: VcfVersion) -> Vec<vcf::variant::RecordBuf> {
    use vcf::variant::record::info::field::key;
    use vcf::variant::record_buf::{AlternateBases, Ids, info::field::{Value, value::Array}};
    let (sorted, _) = vcf_truth(set);
    sorted
        .iter()
        .enumerate()
        .map(|(idx, r)| {
            let (ref_len, end) = vcf_fields(r);
            let bases: String = (0..ref_len as usize).map(|i| b"ACGTN"[(i + idx) % 5] as char).collect();
            let ids: Ids = [ident(idx)].into_iter().collect();
            let mut b = vcf::variant::RecordBuf::builder()
                .set_reference_sequence_name(format!("sq{}", r.rid))
                .set_variant_start(Position::new(r.start as usize).unwrap_or(Position::MIN))
                .set_ids(ids)
                .set_reference_bases(bases);
            match end {
                Some(e) => {
                    // before 4.5 every other END record is a gVCF-style reference block (no ALT at
                    // all): INFO END gives the end whatever ALT holds
                    if version == VcfVersion::V45 || r.shape & 8 == 0 {
                        b = b.set_alternate_bases(AlternateBases::from(vec![String::from("<DEL>")]));
                    }
                    let info: vcf::variant::record_buf::Info = if version == VcfVersion::V45 {
                        // 4.5: span from SVLEN (positive, one per ALT)
                        [(String::from(key::SV_LENGTHS), Some(Value::Array(Array::Integer(vec![Some((e - r.start + 1) as i32)]))))].into_iter().collect()
                    } else {
                        [(String::from(key::END_POSITION), Some(Value::from(e as i32)))].into_iter().collect()
                    };
                    b = b.set_info(info);
                }
                None => {
                    if r.shape & 2 != 0 {
                        b = b.set_alternate_bases(AlternateBases::from(vec![String::from(if ref_len == 1 { "T" } else { "A" })]));
                    }
                }
            }
            b.build()
        })
        .collect()
}

pub fn write_vcf_gz(set: &SortedSet, version: VcfVersion) -> Result<Vec<u8>, String> {
    use vcf::variant::io::Write as _;
    let header = vcf_header(set, version);
    let (sorted, _) = vcf_truth(set);
    let recs = vcf_records(set, version);
    let mut w = vcf::io::Writer::new(bgzf::io::Writer::new(Vec::new()));
    w.write_header(&header).map_err(|e| format!("write_header: {e}"))?;
    if set.flush_after_header {
        w.get_mut().flush().map_err(|e| format!("flush: {e}"))?;
    }
    for (r, rec) in sorted.iter().zip(&recs) {
        w.write_variant_record(&header, rec).map_err(|e| format!("write_variant_record ({r:?}): {e}"))?;
        if r.flush {
            w.get_mut().flush().map_err(|e| format!("flush: {e}"))?;
        }
    }
    w.into_inner().finish().map_err(|e| format!("finish: {e}"))
}

pub fn write_bcf(set: &SortedSet, version: VcfVersion) -> Result<Vec<u8>, String> {
    use vcf::variant::io::Write as _;
    let header = vcf_header(set, version);
    let (sorted, _) = vcf_truth(set);
    let recs = vcf_records(set, version);
    let mut w = bcf::io::Writer::new(Vec::new());
    w.write_header(&header).map_err(|e| format!("write_header: {e}"))?;
    if set.flush_after_header {
        w.get_mut().flush().map_err(|e| format!("flush: {e}"))?;
    }
    for (r, rec) in sorted.iter().zip(&recs) {
        w.write_variant_record(&header, rec).map_err(|e| format!("write_variant_record ({r:?}): {e}"))?;
        if r.flush {
            w.get_mut().flush().map_err(|e| format!("flush: {e}"))?;
        }
    }
    w.try_finish().map_err(|e| format!("try_finish: {e}"))?;
    Ok(w.into_inner().into_inner())
}
