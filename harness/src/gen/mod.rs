pub mod payload;
