pub mod aln;
pub mod cram;
pub mod layout;
pub mod payload;
pub mod sorted;
pub mod text;
pub mod var;
