//! nv — property-based verification harness for zaeleus/noodles (see /verif/DESIGN.md).

#![allow(clippy::type_complexity, clippy::too_many_arguments)]

pub mod drivers;
pub mod engine;
pub mod r#gen;
pub mod io_adv;
pub mod oracle;
pub mod props;

use engine::{Tier, orchestrate};

fn usage() -> i32 {
    eprintln!("usage: nv run <Cxx> <quick|thorough> | nv replay <file> | nv list");
    3
}

fn main() {
    let args: Vec<String> = std::env::args().collect();
    let code = match args.get(1).map(|s| s.as_str()) {
        Some("run") => {
            let (Some(id), Some(tier)) = (args.get(2), args.get(3).and_then(|t| Tier::parse(t))) else {
                std::process::exit(usage());
            };
            match props::lookup(id) {
                Some(p) => orchestrate::run_property(&p, tier),
                None => {
                    eprintln!("unknown property {id}");
                    3
                }
            }
        }
        Some("shard") => {
            let Some(id) = args.get(2) else { std::process::exit(usage()) };
            match props::lookup(id) {
                Some(p) => {
                    let tier = args.get(6).and_then(|t| Tier::parse(t)).unwrap_or(Tier::Quick);
                    let tmp = args.get(11).map(std::path::PathBuf::from).unwrap_or_else(std::env::temp_dir);
                    engine::set_env(tier, tmp);
                    orchestrate::shard_main(&p, &args[3..])
                }
                None => 3,
            }
        }
        Some("replay-json") => {
            let Some(path) = args.get(2) else { std::process::exit(usage()) };
            let tmp = std::env::temp_dir().join(format!("nv-replay-{}", std::process::id()));
            let _ = std::fs::create_dir_all(&tmp);
            engine::set_env(Tier::Quick, tmp.clone());
            let rc = orchestrate::replay_json_main(&|id| props::lookup(id), path);
            let _ = std::fs::remove_dir_all(&tmp);
            rc
        }
        Some("replay") => {
            let Some(path) = args.get(2) else { std::process::exit(usage()) };
            orchestrate::replay_main(&|id| props::lookup(id), path)
        }
        Some("list") => {
            for id in props::ids() {
                if let Some(p) = props::lookup(id) {
                    println!("{} level={} subs={}", p.id, p.level, p.subs.iter().map(|s| s.name().to_string()).collect::<Vec<_>>().join(","));
                }
            }
            0
        }
        _ => usage(),
    };
    std::process::exit(code);
}
