#!/bin/bash
# tools/seed_setup.sh <Cxx>...  — scratch directory for a seeding sub-agent:
#   /tmp/seed/<Cxx>/{PROPERTY.txt, PROMPT.md, repo (worktree of /repo HEAD), out/}
# The agent gets the property text as given and the worktree only, nothing from /verif; the titles of
# the changes seeded in earlier rounds are listed so that it makes different ones.
for p in "$@"; do
  d=/tmp/seed/$p; rm -rf "$d"; mkdir -p "$d/out"
  cp /verif/notes/property_texts/$p.txt "$d/PROPERTY.txt"
  git -C /repo worktree add -q --detach "$d/repo" HEAD
  sed "s,{DIR},$d,g" /verif/notes/seeding_prompt.md > "$d/PROMPT.md"
  { echo; echo "Earlier rounds already produced the following changes for this property. Yours must differ from them in mechanism AND location (other functions, preferably other files and other parts of the property's statement):"; for n in /verif/seeded/$p-*/NOTE.md; do echo "  - $(head -1 "$n" | sed 's/^# *//')"; done; echo; echo "Disk is shared and limited: build only the crates you need (cargo test -p <crate>), never \`cargo build --release\`."; } >> "$d/PROMPT.md"
done
