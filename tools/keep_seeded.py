#!/usr/bin/env python3
"""tools/keep_seeded.py <Cxx>: keep the confirmed seeded changes of a property under
/verif/seeded/<Cxx>-<m>/ (patch.diff, demonstration, the seeding agent's note, meta.json)."""
import json, os, re, shutil, sys
pid = sys.argv[1]
# second and later seeding rounds: `keep_seeded.py Cxx 2` stores m1/m2 of the round as m3/m4
OFFSET = (int(sys.argv[2]) - 1) * 2 if len(sys.argv) > 2 else 0
HIST = "/verif/seeded/HISTORY.json"
history = json.load(open(HIST)) if os.path.exists(HIST) else {}
def needs(note):
    """the paragraphs / bullets of the agent's note that say what the change needs to show up"""
    paras = [p.strip() for p in re.split(r"\n\s*\n|\n(?=- \*\*)", note) if p.strip()]
    hit = [p for p in paras if re.search(r"need(s|ed)? to (manifest|show)|to manifest|only (shows|when|for|if)|it needs|needs all|it takes|manifests only|shows up", p, re.I)]
    return ("\n\n".join(hit) if hit else note.strip())[:2500]
seed = f"/tmp/seed/{pid}"
res = json.load(open(f"{seed}/eval.json"))
for r in res:
    m = r["mutant"]
    confirmed = r.get("demo_without_change") == "pass" and r.get("demo_with_change") == "fails" and r.get("crate_tests_with_change") == "pass" and r.get("patch_applies_on_head")
    if not confirmed:
        print(pid, m, "NOT confirmed, not kept:", {k: r.get(k) for k in ("demo_without_change", "demo_with_change", "crate_tests_with_change", "patch_applies_on_head")})
        continue
    m_out = f"m{int(m[1:]) + OFFSET}"
    d = f"/verif/seeded/{pid}-{m_out}"
    os.makedirs(d, exist_ok=True)
    shutil.copyfile(f"{seed}/out/{m}.patch", f"{d}/patch.diff")
    shutil.copyfile(f"{seed}/out/{m}_demo.rs", f"{d}/demo.rs")
    note = open(f"{seed}/out/{m}.md").read() if os.path.exists(f"{seed}/out/{m}.md") else ""
    open(f"{d}/NOTE.md", "w").write(note)
    checks = {k: v for k, v in r.items() if k[0] == "C" and "." in k}
    caught_by = [k for k, v in checks.items() if v["verdict"] == "CAUGHT"]
    meta = {
        "property": pid,
        "mutant": m_out,
        "seeding_round": OFFSET // 2 + 1,
        "origin": "fresh sub-agent given only the property text and its own worktree of /repo (no access to /verif)",
        "what": note.strip().split("\n")[0].lstrip("# ").strip() if note else "",
        "needs_to_manifest": needs(note) if note else "",
        "demonstration": {"file": "demo.rs", "place_at": r.get("demo_place"), "without_change": r.get("demo_without_change"), "with_change": r.get("demo_with_change")},
        "existing_tests_of_touched_crates_with_change": r.get("crate_tests_with_change"),
        "what_was_run": [
            "demonstration and `cargo test -p <touched crates> --offline` in the seeding worktree with and without the change (tools/eval_seeded.py step 1)",
            "patch applied to a scratch worktree at /repo HEAD that a copy of the harness builds against (/tmp/agents/eval), quick tier of the check(s) below, worktree restored (tools/eval_seeded.py step 2)",
        ],
        "checks": checks,
        "caught_by": caught_by,
    }
    for k in ("demo_note", "patch_note"):
        if r.get(k): meta[k] = r[k]
    if f"{pid}-{m_out}" in history:
        meta["history"] = history[f"{pid}-{m_out}"]
    json.dump(meta, open(f"{d}/meta.json", "w"), indent=1)
    print(pid, m, "kept; caught by", caught_by or "NONE")
