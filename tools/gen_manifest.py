#!/usr/bin/env python3
"""Regenerates /verif/MANIFEST.json from the table below (single source of truth)."""
import json, os, subprocess

ROOT = os.path.dirname(os.path.dirname(os.path.abspath(__file__)))

def hook_commits():
    try:
        out = subprocess.run(["git", "-C", "/repo", "log", "--format=%H %s"], capture_output=True, text=True).stdout
        return [l.split()[0] for l in out.splitlines() if " verif-hook:" in l or l.split(" ", 1)[1].startswith("verif-hook")]
    except Exception:
        return []

# id -> (technique, level category, level text, level note, design ref)
CHECKS = {
    "C01": (
        "proptest-generated write/flush histories; round-trip + independent BGZF walker (miniz_oxide, crc32fast) + CPython zlib differential",
        "exploration",
        "Generated search over payload class × boundary-dense length × write/write_all/flush history × level × finish/drop, decided by three oracles (noodles reader, independent walker, CPython zlib in thorough). Exploration is the right level: the space is infinite and the writer has no small finite abstraction, but boundary lengths (65280/65495/65536 and multiples) are enumerated densely.",
        "Trusts miniz_oxide/crc32fast (and CPython zlib in thorough); default feature set only.",
        "DESIGN.md §3 C01",
    ),
}

NOT_YET = {}

def main():
    props = [json.loads(l) for l in open(os.path.join(ROOT, "properties.jsonl"))]
    checks = []
    na = []
    for p in props:
        pid = p["id"]
        if pid in CHECKS:
            tech, cat, text, note, ref = CHECKS[pid]
            checks.append({
                "property_id": pid,
                "quick_cmd": f"./run.sh {pid} quick",
                "thorough_cmd": f"./run.sh {pid} thorough",
                "evidence_file": f"/verif/evidence/{pid}.json",
                "replay_cmd_template": "./run.sh --replay {path}",
                "engine": "nv",
                "level_claimed": {"category": cat, "text": text, "design_ref": ref},
                "level_note": note,
                "technique": tech,
            })
        else:
            na.append({"property_id": pid, "reason": NOT_YET.get(pid, "check not built yet in this session (work in progress; the technique applies, see DESIGN.md §3)")})
    m = {
        "version": 1,
        "setup_cmd": "./run.sh --build",
        "hooks": {
            "guard": "--cfg noodles_verif",
            "enable": "RUSTFLAGS=\"--cfg noodles_verif\" (set by run.sh and harness/.cargo/config.toml); the harness depends on the noodles crates by path into /repo",
            "baseline_off_cmd": "cd /repo && cargo test --workspace --no-fail-fast --offline",
            "source_commits": hook_commits(),
            "add_only": True,
        },
        "engines": [
            {"name": "nv", "path": "/verif/harness", "serves_properties": sorted(CHECKS.keys()), "kind_free_text": "Rust binary: proptest TestRunner + exhaustive enumerators, sharded into isolated child processes, with shrinking, replay files, known-finding classification and evidence output"},
        ],
        "checks": checks,
        "not_applicable": na,
        "notes": "exit 0 = held on everything explored; exit 1 + VIOLATION line = violation; exit 2 + INCONCLUSIVE line = build failure / watchdog / resource exhaustion (never a violation). KNOWN_FINDINGS.txt lists genuine defects recorded but not repaired; see DESIGN.md.",
    }
    if not na:
        m.pop("not_applicable")
        m["not_applicable"] = []
    json.dump(m, open(os.path.join(ROOT, "MANIFEST.json"), "w"), indent=1)
    print("wrote MANIFEST.json:", len(checks), "checks,", len(na), "not claimed")

if __name__ == "__main__":
    main()
