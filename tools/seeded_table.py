#!/usr/bin/env python3
"""tools/seeded_table.py — markdown table of /verif/seeded/*: which check caught which seeded change."""
import json, os, re
root = os.path.join(os.path.dirname(os.path.dirname(os.path.abspath(__file__))), "seeded")
print("| change | what was changed (from the seeding agent's note) | caught by | first signature |")
print("|---|---|---|---|")
for d in sorted(os.listdir(root)):
    mp = os.path.join(root, d, "meta.json")
    if not os.path.exists(mp): continue
    m = json.load(open(mp))
    note = open(os.path.join(root, d, "NOTE.md")).read().splitlines()
    title = re.sub(r"^#\s*m\d\s*[—-]\s*", "", note[0]).strip() if note else ""
    first = ""
    for k, v in m["checks"].items():
        if v.get("verdict") == "CAUGHT" and v.get("first"):
            mm = re.search(r"sig=(\S+)", v["first"][0]); first = mm.group(1) if mm else v["first"][0][:60]; break
    caught = ", ".join(m.get("caught_by") or []) or "**missed**"
    hist = m.get("history", "")
    print(f"| {d} | {title[:150]} | {caught}{(' — ' + hist) if hist else ''} | `{first[:80]}` |")
