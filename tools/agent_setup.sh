#!/bin/bash
# tools/agent_setup.sh <name>: private workspace for a builder agent under /tmp/agents/<name>:
#   repo/      git worktree of /repo HEAD (mutate freely here, never /repo)
#   harness/   copy of /verif/harness with path deps pointing at ./repo, own target dir
#   KNOWN_FINDINGS.txt, replays/, evidence/   (VERIF_ROOT for this workspace)
#   nv.sh      build + run wrapper:  ./nv.sh run C05 quick | ./nv.sh replay <file>
set -eu
name="$1"
base=/tmp/agents/$name
mkdir -p "$base"
if [ ! -d "$base/repo" ]; then git -C /repo worktree add --detach "$base/repo" HEAD >/dev/null; fi
mkdir -p "$base/replays/known" "$base/replays/regress" "$base/replays/found" "$base/evidence"
[ -f "$base/KNOWN_FINDINGS.txt" ] || cp /verif/KNOWN_FINDINGS.txt "$base/KNOWN_FINDINGS.txt"
cp -n /verif/replays/known/* "$base/replays/known/" 2>/dev/null || true
cp -n /verif/replays/regress/* "$base/replays/regress/" 2>/dev/null || true
if [ ! -d "$base/harness" ]; then
  rsync -a --exclude target /verif/harness/ "$base/harness/"
  sed -i "s#\"/repo/#\"$base/repo/#g" "$base/harness/Cargo.toml"
fi
cat > "$base/nv.sh" <<EOS
#!/bin/bash
# usage: ./nv.sh run Cxx quick|thorough   |   ./nv.sh replay <file>   |   ./nv.sh build
set -u
cd $base/harness || exit 2
export CARGO_NET_OFFLINE=true RUSTFLAGS="--cfg noodles_verif" VERIF_ROOT=$base
unset RUST_BACKTRACE
if ! cargo build --profile verif 2>$base/build.log >/dev/null; then echo "BUILD FAILED (see $base/build.log)"; grep -E "^(error|warning: unused)" -A12 $base/build.log | head -80; exit 2; fi
[ "\${1:-}" = build ] && exit 0
exec target/verif/nv "\$@"
EOS
chmod +x "$base/nv.sh"
echo "workspace ready: $base"
