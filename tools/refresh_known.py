#!/usr/bin/env python3
"""tools/refresh_known.py <Cxx> [quick|thorough]
Maintenance: a `known:` entry whose committed replay no longer reproduces after a *generator* change
(the defect is still there, the saved case just no longer reaches it) gets a fresh replay. Runs the
check once to collect the stale signatures, runs it again with NV_REFRESH_KNOWN set (the shards then
save one case per listed signature they meet), and overwrites the stale replay files. Entries that
are not met again are reported and left alone (they may really be repaired: inspect)."""
import os, re, subprocess, sys, shutil, json
prop = sys.argv[1]; tier = sys.argv[2] if len(sys.argv) > 2 else "quick"
root = "/verif"
def run(env=None, t="quick"):
    e = dict(os.environ); e.update(env or {})
    return subprocess.run([f"{root}/run.sh", prop, t], capture_output=True, text=True, env=e).stdout
out = run()
stale = set(m.group(1).strip() for m in re.finditer(r"^note: known finding no longer reproduces.*?property=%s sig=(.*)$" % prop, out, re.M))
if not stale:
    print(prop, "no stale known replay"); sys.exit(0)
print(prop, len(stale), "stale known replays")
d = f"/tmp/refresh-{prop}"
shutil.rmtree(d, ignore_errors=True); os.makedirs(d)
run({"NV_REFRESH_KNOWN": d}, tier)
lines = open(f"{root}/KNOWN_FINDINGS.txt").read().splitlines()
left = []
for sig in sorted(stale):
    slug = "".join(c if c.isalnum() and c.isascii() else "-" for c in sig)[:90]
    h = 0xcbf29ce484222325
    for b in sig.encode():
        h = ((h ^ b) * 0x100000001b3) & 0xffffffffffffffff
    src = os.path.join(d, f"{prop}-{slug}-{h:016x}.json")
    line = next((l for l in lines if l.startswith(f"known: property={prop} sig={sig} replay=")), None)
    if not line or not os.path.exists(src):
        left.append(sig); continue
    rel = re.search(r" replay=(\S+)", line).group(1)
    if rel == "-": left.append(sig); continue
    shutil.copyfile(src, os.path.join(root, rel))
    r = subprocess.run([f"{root}/run.sh", "--replay", os.path.join(root, rel)], capture_output=True, text=True).stdout
    ok = sig in r
    print("  refreshed" if ok else "  REFRESHED BUT DOES NOT REPRODUCE", sig[:120])
for s in left: print("  still stale (not met again):", s[:140])
shutil.rmtree(d, ignore_errors=True)
