#!/bin/bash
# tools/agent_teardown.sh <name>: remove a builder agent workspace (worktree + build output)
name="$1"; base=/tmp/agents/$name
git -C /repo worktree remove --force "$base/repo" 2>/dev/null
rm -rf "$base"
git -C /repo worktree prune
