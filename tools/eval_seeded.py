#!/usr/bin/env python3
"""tools/eval_seeded.py <Cxx> [props,comma]  — evaluate the seeded changes of one property.
For m1/m2 in /tmp/seed/<Cxx>/out: (1) confirm in the seeding worktree that the demonstration fails
with the change and passes without it and that the touched crates' tests pass with it; (2) apply the
change to the evaluation worktree (/tmp/agents/eval/repo, a scratch copy at /repo HEAD that a copy of
the harness builds against), run the quick tier of the property's check (and of the extra properties
given), then restore. Results are appended to /tmp/seed/<Cxx>/eval.json."""
import json, os, re, subprocess, sys, shutil
pid = sys.argv[1]
extra = sys.argv[2].split(",") if len(sys.argv) > 2 and sys.argv[2] else []
tiers = os.environ.get("EVAL_TIERS", "quick").split(",")
seed = f"/tmp/seed/{pid}"
ev = "/tmp/agents/eval"
def sh(cmd, cwd=None, timeout=3600):
    try:
        r = subprocess.run(cmd, shell=True, capture_output=True, text=True, cwd=cwd, timeout=timeout)
        return r.returncode, r.stdout + r.stderr
    except subprocess.TimeoutExpired:
        return 124, "TIMEOUT"
results = []
# sync eval workspace with current /verif state
sh(f"rsync -a --exclude target /verif/harness/src/ {ev}/harness/src/ && cp /verif/KNOWN_FINDINGS.txt {ev}/ && rsync -a --delete /verif/replays/known/ {ev}/replays/known/ && rsync -a --delete /verif/replays/regress/ {ev}/replays/regress/")
sh(f"git -C {ev}/repo checkout -q --detach $(git -C /repo rev-parse HEAD) && git -C {ev}/repo checkout -q -- . && git -C {ev}/repo clean -fdq")
for m in ("m1", "m2"):
    patch = f"{seed}/out/{m}.patch"
    demo = f"{seed}/out/{m}_demo.rs"
    if not os.path.exists(patch):
        continue
    res = {"mutant": m}
    # --- (1) demonstration in the seeding worktree (done once; a re-evaluation after the checks
    # were strengthened reuses the recorded outcome)
    prev = None
    if os.path.exists(f"{seed}/eval.json"):
        prev = next((r for r in json.load(open(f"{seed}/eval.json")) if r["mutant"] == m and r.get("demo_with_change")), None)
    wt = f"{seed}/repo"
    if prev:
        for k in ("demo_place", "demo_without_change", "patch_applies_in_seed_worktree", "demo_with_change", "crate_tests_with_change"):
            res[k] = prev.get(k)
        first = []
    else:
        sh("git checkout -q -- . && git clean -fdq", cwd=wt)
        first = open(demo).read().split("\n", 3)[:3] if os.path.exists(demo) else []
    place = None
    for line in first:
        mm = re.search(r"(noodles-[a-z]+/(?:tests|src|examples)/[A-Za-z0-9_/]+\.rs)", line)
        if mm: place = mm.group(1); break
    if not prev: res["demo_place"] = place
    if place:
        crate = place.split("/")[0]
        kind = place.split("/")[1]
        name = os.path.basename(place)[:-3]
        os.makedirs(os.path.dirname(f"{wt}/{place}"), exist_ok=True)
        shutil.copyfile(demo, f"{wt}/{place}")
        # a unit-test module (crate-private code) needs its `mod` line in the parent module
        modline = re.search(r"add the line `([^`]+)` to (noodles-[\w/.-]+\.rs)", " ".join(first))
        def add_mod():
            if modline:
                with open(f"{wt}/{modline.group(2)}", "a") as fh: fh.write("\n" + modline.group(1) + "\n")
        add_mod()
        feat = " --all-features" if crate in ("noodles-bgzf","noodles-bam","noodles-bcf","noodles-cram","noodles-csi","noodles-sam","noodles-vcf","noodles-fasta","noodles-fastq","noodles-gff","noodles-tabix") and pid in ("C16",) else (" --all-features" if crate == "noodles-util" else "")
        runcmd = f"cargo test -p {crate} --offline{feat} --test {name}" if kind == "tests" else (f"cargo run -p {crate} --offline --example {name}" if kind == "examples" else f"cargo test -p {crate} --offline{feat} {name}")
        rc0, out0 = sh(runcmd, cwd=wt)
        res["demo_without_change"] = "pass" if rc0 == 0 else f"FAIL rc={rc0}"
        if modline: sh(f"git checkout -q -- {modline.group(2)}", cwd=wt)
        a, ao = sh(f"git apply {patch}", cwd=wt)
        res["patch_applies_in_seed_worktree"] = (a == 0)
        add_mod()
        rc1, out1 = sh(runcmd, cwd=wt)
        res["demo_with_change"] = "fails" if rc1 != 0 else "PASSES (no effect?)"
        os.remove(f"{wt}/{place}")
        if modline:
            # drop the mod line again but keep the change: re-apply the patch on a clean file
            sh(f"git checkout -q -- . && git apply {patch}", cwd=wt)
        # touched crates' tests with the change (demo removed)
        crates = sorted(set(re.findall(r"^\+\+\+ b/(noodles-[a-z]+)/", open(patch).read(), re.M)))
        rc2, out2 = sh("cargo test --offline " + ("--all-features " if crates == ["noodles-util"] else "") + " ".join(f"-p {c}" for c in crates) + " 2>&1 | grep -E '^test result|FAILED|panicked' | grep -v ' ok\\. ' | head -5", cwd=wt)
        res["crate_tests_with_change"] = "pass" if not out2.strip() else out2.strip()[:300]
        sh("git checkout -q -- . && git clean -fdq", cwd=wt)
    # --- (2) the checks against the change
    a, ao = sh(f"git apply --3way {patch} || git apply {patch}", cwd=f"{ev}/repo")
    res["patch_applies_on_head"] = (a == 0)
    if a == 0:
        for p in [pid] + extra:
            for tier in tiers:
                rc, out = sh(f"{ev}/nv.sh run {p} {tier}", timeout=5400)
                vio = [l[:260] for l in out.splitlines() if l.startswith("  sub=") or l.startswith("  regression") or l.startswith("  known-finding replay")][:3]
                res[f"{p}.{tier}"] = {"exit": rc, "verdict": "CAUGHT" if rc == 1 else ("inconclusive" if rc == 2 else "MISSED"), "first": vio}
                if rc == 1: break
    sh("git checkout -q -- . && git clean -fdq && git reset -q --hard", cwd=f"{ev}/repo")
    for f in os.listdir(f"{ev}/replays/found"): os.remove(f"{ev}/replays/found/{f}")
    results.append(res)
    print(json.dumps(res, indent=1))
json.dump(results, open(f"{seed}/eval.json", "w"), indent=1)
