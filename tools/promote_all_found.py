#!/usr/bin/env python3
"""tools/promote_all_found.py <Cxx> [description prefix]
After the failures of a run have been analysed and judged genuine defects that are recorded rather
than repaired: for every replay of the property under replays/found/, add one `known:` line per
failure signature that is not yet listed (replay copied to replays/known/)."""
import json, os, re, shutil, sys, glob
root = "/verif"
prop = sys.argv[1]
prefix = " ".join(sys.argv[2:])
kf = os.path.join(root, "KNOWN_FINDINGS.txt")
known = set()
for l in open(kf):
    m = re.match(r"known: property=(\S+) sig=(.*?) replay=\S+", l)
    if m: known.add((m.group(1), m.group(2)))
added = 0
for f in sorted(glob.glob(os.path.join(root, "replays/found", prop + "-*.json"))):
    d = json.load(open(f))
    for fl in d["fails"]:
        sig = fl["sig"]
        if (prop, sig) in known or sig == "HARNESS-PANIC": continue
        slug = re.sub(r"[^A-Za-z0-9]+", "-", sig).strip("-")[:80]
        dst_rel = f"replays/known/{prop}-{slug}.json"
        n = 2
        while os.path.exists(os.path.join(root, dst_rel)):
            dst_rel = f"replays/known/{prop}-{slug}-{n}.json"; n += 1
        # narrow a family case to the inner evaluation named in the failure message
        m = re.search(r"mutant #(\d+)", fl["msg"])
        dd = json.loads(json.dumps(d))
        if m and isinstance(dd.get("case"), dict) and "only" in dd["case"] and dd["case"]["only"] is None:
            dd["case"]["only"] = int(m.group(1))
        if isinstance(fl.get("patch"), dict) and isinstance(dd.get("case"), dict):
            dd["case"].update(fl["patch"])
        dd["fails"] = [fl]
        json.dump(dd, open(os.path.join(root, dst_rel), "w"), indent=1)
        msg = re.sub(r"\s+", " ", fl["msg"])[:300]
        with open(kf, "a") as k:
            k.write(f"known: property={prop} sig={sig} replay={dst_rel} :: {prefix}{msg}\n")
        known.add((prop, sig)); added += 1
        print("added", sig[:150])
print(added, "added")
