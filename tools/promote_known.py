#!/usr/bin/env python3
"""tools/promote_known.py <found-replay.json> <description...>
Copies a found replay into replays/known/ and appends the matching `known:` line (signature of the
first failure in the file) to KNOWN_FINDINGS.txt. Run by hand after a failure has been analysed and
judged a genuine defect of noodles that is recorded rather than repaired."""
import json, os, re, shutil, sys
root = os.path.dirname(os.path.dirname(os.path.abspath(__file__)))
src = sys.argv[1]
desc = " ".join(sys.argv[2:]).strip()
d = json.load(open(src))
sigs = [f["sig"] for f in d["fails"]]
which = int(os.environ.get("SIG_INDEX", "0"))
sig = sigs[which]
slug = re.sub(r"[^A-Za-z0-9]+", "-", sig).strip("-")[:70]
dst_rel = f"replays/known/{d['property']}-{slug}.json"
shutil.copyfile(src, os.path.join(root, dst_rel))
with open(os.path.join(root, "KNOWN_FINDINGS.txt"), "a") as f:
    f.write(f"known: property={d['property']} sig={sig} replay={dst_rel} :: {desc}\n")
print("added", sig, "->", dst_rel)
