#!/usr/bin/env python3
"""tools/try_mutant.py <repo-relative-file> <old> <new> <Cxx>[,<Cyy>...]
Sensitivity test: replace `old` by `new` once in the file under /repo, run the quick tier of the
given properties, report the verdicts, and restore the file (git checkout). Never commits."""
import subprocess, sys, os
f, old, new, props = sys.argv[1], sys.argv[2], sys.argv[3], sys.argv[4].split(",")
path = os.path.join("/repo", f)
s = open(path).read()
if s.count(old) < 1:
    print("MUTANT NOT APPLICABLE: pattern not found"); sys.exit(3)
open(path, "w").write(s.replace(old, new, 1))
try:
    for p in props:
        r = subprocess.run(["/verif/run.sh", p, "quick"], capture_output=True, text=True)
        lines = [l for l in r.stdout.splitlines() if l.startswith("VIOLATION") or l.startswith("INCONCLUSIVE") or l.startswith("  sub=")]
        print(f"{p}: exit={r.returncode}", "CAUGHT" if r.returncode == 1 else ("inconclusive" if r.returncode == 2 else "MISSED"))
        for l in lines[:4]:
            print("   ", l[:260])
finally:
    subprocess.run(["git", "-C", "/repo", "checkout", "--", f])
    # found replays of mutant runs are not kept
    fd = "/verif/replays/found"
    for x in os.listdir(fd):
        os.remove(os.path.join(fd, x))
