#!/usr/bin/env python3
"""tools/apply_fix.py <patch-file> <crates, comma separated> <props, comma separated> <commit subject> [commit body...]
Applies one repair patch to /repo, runs the unedited tests of the given crates, commits it as a
`fix:` commit, runs the quick tier of the given properties, and converts every KNOWN_FINDINGS entry
that no longer reproduces into a `fixed:` line (its replay moves to replays/regress/). Aborts and
reverts if the patch does not apply, a crate test fails, or a check reports a VIOLATION."""
import os, re, shutil, subprocess, sys
patch, crates, props, subject = sys.argv[1], sys.argv[2].split(","), sys.argv[3].split(","), sys.argv[4]
body = " ".join(sys.argv[5:])
R = "/repo"
def sh(cmd, **kw): return subprocess.run(cmd, shell=True, capture_output=True, text=True, **kw)
if patch.startswith("reconcile:"):
    # reconcile only: the repair is already committed as <commit>
    commit = patch.split(":", 1)[1]
else:
    r = sh(f"git -C {R} apply --index {patch}")
    if r.returncode: print("PATCH DOES NOT APPLY", r.stderr); sys.exit(1)
    pk = " ".join(f"-p {c}" for c in crates)
    t = sh(f"cd {R} && cargo test {pk} --offline 2>&1 | grep -E '^test result|FAILED|panicked|^error'")
    if "FAILED" in t.stdout or "error" in t.stdout or "test result" not in t.stdout:
        print("TESTS FAIL\n", t.stdout[-2000:]); sh(f"git -C {R} reset -q --hard HEAD"); sys.exit(1)
    msg = f"fix: {subject}" + (f"\n\n{body}" if body else "")
    sh(f"git -C {R} commit -q -F -", input=msg)
    commit = sh(f"git -C {R} rev-parse --short HEAD").stdout.strip()
gone = []
bad = False
for p in props:
    o = sh(f"/verif/run.sh {p} quick")
    for l in o.stdout.splitlines():
        m = re.match(r"note: known finding no longer reproduces.*property=(\S+) sig=(.*)$", l)
        if m: gone.append((m.group(1), m.group(2).strip()))
        if l.startswith("VIOLATION") or l.startswith("  sub=") or l.startswith("INCONCLUSIVE"): print("   ", l[:300]); bad = bad or l.startswith("VIOLATION")
    print(f"{p}: exit={o.returncode}")
kf = "/verif/KNOWN_FINDINGS.txt"
lines = open(kf).read().splitlines()
out, fixed = [], []
for l in lines:
    hit = None
    for (pid, sig) in gone:
        if l.startswith("known:") and f"property={pid} sig={sig} replay=" in l: hit = (pid, sig)
    if hit:
        m = re.search(r" replay=(\S+)", l); desc = l.split(" :: ", 1)[1] if " :: " in l else ""
        if m and m.group(1) != "-":
            src = os.path.join("/verif", m.group(1))
            if os.path.exists(src):
                shared = sum(1 for x in lines if x.startswith("known:") and f" replay={m.group(1)} " in x + " ") > 1
                dst = os.path.join("/verif/replays/regress", os.path.basename(src))
                # a replay shared with another (still reproducing) known finding stays in known/
                (shutil.copyfile if shared else shutil.move)(src, dst)
        fixed.append(f"fixed: property={hit[0]} {commit} [{hit[1]}] {desc}")
    else: out.append(l)
open(kf, "w").write("\n".join(out + fixed) + "\n")
print(f"commit {commit}: {len(fixed)} known finding(s) converted to fixed", "(VIOLATIONS SEEN — inspect)" if bad else "")
for f in fixed: print("   ", f[:200])
