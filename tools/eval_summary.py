#!/usr/bin/env python3
"""tools/eval_summary.py [Cxx...] — one line per evaluated seeded change (from /tmp/seed/<Cxx>/eval.json)."""
import json, os, sys
ps = sys.argv[1:] or [f"C{i:02d}" for i in range(1, 21)]
for p in ps:
    f = f"/tmp/seed/{p}/eval.json"
    if not os.path.exists(f):
        print(p, "-"); continue
    for r in json.load(open(f)):
        v = {k: r[k]["verdict"] for k in r if isinstance(r[k], dict) and "verdict" in r[k]}
        first = next((r[k]["first"][0][:160] for k in r if isinstance(r[k], dict) and r[k].get("first")), "")
        print(p, r["mutant"], "demo:", r.get("demo_without_change"), "/", r.get("demo_with_change"), "tests:", str(r.get("crate_tests_with_change"))[:40], "head:", r.get("patch_applies_on_head"), v, first)
